#!/usr/bin/env python3
import json, sys, xml.etree.ElementTree as ET
junit, base = sys.argv[1], sys.argv[2]
stable = set(json.load(open(base))["stable_pass"])
res = {}
for tc in ET.parse(junit).getroot().iter("testcase"):
    name = f"{tc.get('classname')}::{tc.get('name')}"
    st = "pass"
    for ch in tc:
        if ch.tag in ("failure", "error"): st = "fail"
        elif ch.tag == "skipped" and st != "fail": st = "skip"
    res[name] = st
bad = sorted(n for n in stable if res.get(n) == "fail")
missing = sorted(n for n in stable if n not in res)
skipped = sorted(n for n in stable if res.get(n) == "skip")
print(f"stable={len(stable)} passed={sum(1 for n in stable if res.get(n)=='pass')} failed={len(bad)} missing={len(missing)} skipped(random sub-distribution)={len(skipped)}")
for n in bad[:40]: print("FAIL", n)
for n in missing[:10]: print("MISSING", n)
sys.exit(1 if bad or missing else 0)
