#!/usr/bin/env python3
"""Regenerates /verif/MANIFEST.json from the table below (kept valid at all times)."""
import json, os
V = os.path.dirname(os.path.dirname(os.path.abspath(__file__)))
PY = "PYTHONPATH=/repo PYTHONHASHSEED=0 /venv/bin/python"

CHECKS = {
 "C19": dict(
   text="Five theorems (last entry, misfit-of-model, step equation, never-non-finite, monotone) proved in Coq for every "
        "arithmetic instance, target, start, step, iteration count and flag, by an invariant of the loop; the hand-written "
        "model is tied to hmclab.Optimizers.gradient_descent on every run by bit-exact co-execution (binary64 PrimFloat) on "
        "hash-function targets with NaN/inf palettes, and the property statement itself is re-evaluated on the implementation's output.",
   note="Trusted: Coq kernel + vm_compute; the Python harness; numpy IEEE arithmetic. Model is hand-written (Model/GradDescent.v); "
        "the loop, guards and preconditioner are modelled, tqdm/printing and KeyboardInterrupt handling are not.",
   technique="Coq proof (loop invariant, generic NumOps) + bit-exact model/implementation co-execution", ref="5/C19"),
}
ALL = ["C%02d" % i for i in range(1, 21)]

def main():
    checks = []
    for pid in ALL:
        if pid not in CHECKS: continue
        c = CHECKS[pid]
        checks.append({
          "property_id": pid,
          "quick_cmd": f"{PY} check.py {pid} --tier quick",
          "thorough_cmd": f"{PY} check.py {pid} --tier thorough",
          "evidence_file": f"/verif/evidence/{pid}.json",
          "replay_cmd_template": f"{PY} check.py {pid} --replay {{path}}",
          "engine": "coq-proof+correspondence",
          "level_claimed": {"category": "proof", "text": c["text"], "design_ref": "DESIGN.md section " + c["ref"]},
          "level_note": c["note"],
          "technique": c["technique"],
        })
    man = {
      "version": 1,
      "setup_cmd": "cd /verif/coq && coq_makefile -f _CoqProject -o Makefile && timeout 3000 make -j16",
      "hooks": {"guard": "HMCLAB_VERIF", "enable": "no source hooks: checks import hmclab from /repo (PYTHONPATH=/repo) and drive it through public extension points; HMCLAB_VERIF=1 is set by check.py but read nowhere in /repo",
                "baseline_off_cmd": "bash /verif/tools/baseline.sh", "source_commits": [], "add_only": True},
      "engines": [{"name": "coq-proof+correspondence", "path": "/verif/check.py",
                   "serves_properties": sorted(CHECKS), "kind_free_text": "Coq 8.16 theorems over hand-written Gallina models (coq/theories), tied to /repo on every run by co-execution (vm_compute / interval) and two AST translators"}],
      "checks": checks,
      "notes": "See DESIGN.md. Known findings: KNOWN_FINDINGS.txt.",
      "not_applicable": [{"property_id": p, "reason": "check not built yet in this round (planned, see DESIGN.md)"} for p in ALL if p not in CHECKS],
    }
    json.dump(man, open(os.path.join(V, "MANIFEST.json"), "w"), indent=1)
if __name__ == "__main__":
    main()
