#!/usr/bin/env python3
"""Regenerates /verif/MANIFEST.json from the table below (kept valid at all times)."""
import json, os
V = os.path.dirname(os.path.dirname(os.path.abspath(__file__)))
PY = "PYTHONPATH=/repo PYTHONHASHSEED=0 /venv/bin/python"

CHECKS = {
 "C04": dict(
   text="PARTIAL. Four mathcomp theorems over finite state spaces and a real field: Metropolis test after an involution leaves pi invariant; symmetric-proposal "
        "Metropolis leaves pi invariant; a fresh momentum leaves the joint target invariant; invariance is closed under composition, hence any number of HMC "
        "transitions (refresh ; involution + Metropolis) started on the target stays on it. C01 (involution, unit Jacobian), C02 (Metropolis on misfit+kinetic "
        "energy) and C03 (Gibbs momenta) supply the hypotheses for the code. Tie: the real transition with real Unit/Diagonal/Full masses and real targets is "
        "co-executed bit for bit with that composition; moment tests over thousands of exact starting draws search for failing configurations. Over the reals "
        "(Props/C04_continuum.v, names ..._partial): the Metropolis kernel of a symmetric proposal and of a volume-preserving involution satisfies detailed balance "
        "POINTWISE for any positive density; the density of the momenta actually drawn is compared with exp(-K) of the mass matrix in use (momentum-law check), and "
        "eight forced configurations (truncated targets under RWMH and HMC, mixtures, integer-typed Full mass) are always part of the search.",
   note="Not mechanised: the passage from counting measure to Lebesgue measure (change of variables, |det J| = 1). Trusted: Coq kernel, mathcomp; harness; scipy "
        "truncnorm for the truncated target's closed-form moments. Moment tests are statistical (7 standard errors) and never the sole ground for a verdict.",
   technique="Coq proof (finite-state kernel invariance, mathcomp) + bit-exact composition tie + moment tests as search", ref="5/C04"),
 "C09": dict(
   text="(a) Effect policy: soundness theorem of the checker (an accepted check means every function reachable in the call graph from a sampling transition reads "
        "randomness only through the object's own generator and no clock); the table itself is REGENERATED from hmclab's source by an AST scan on every run and "
        "checked by vm_compute in coq/gen/Effects_gen.v. (b) the loop model has no clock / global stream / observer inputs; prefix theorem for shorter runs. Tie: "
        "the same seeded run repeated under perturbed global numpy state, unrelated library activity, NPY vs HDF5, diagnostic mode, progress bar, visual samplers, "
        "slow/fast write-buffer clocks, compared bitwise; doubled run length; seed+1; generate(rng=seeded) twice.",
   note="Trusted: Coq kernel; the AST scanner (call edges by simple method name: over-approximation; effects by syntactic patterns); 'different seeds differ' is tested "
        "only. One known finding: LayeredRayTracing2D._search_angles reads NumPy's global stream.",
   technique="Coq proof (checker soundness, prefix) + AST-generated effect table + differential byte comparison", ref="5/C09"),
 "C12": dict(
   text="Theorems over a Kahn-style process network (sequential processes, blocking receive; pipes either FIFO queues holding at most cap >= 1 messages or unbounded, a "
        "full queue blocking the sender, or synchronous: send and receive one joint step) whose programs are generated from the "
        "exchange schedule exactly as _sample_loop reads it: (1) steps of distinct chains commute (diamond), so every maximal interleaving from a state with one "
        "terminating run has the same length and final state; (2) for EVERY chain count, proposal count, interval >= 1, exchange on/off and every schedule whose "
        "looked-up rows exist and pair distinct existing chains, the sequential reading of the run is an execution that finishes all chains -- hence no interleaving "
        "deadlocks, none is longer, all end in the same state (files included); with too few rows the network provably gets stuck (Example); (3) an exchange "
        "either keeps or exactly swaps the two states, swapping iff u < exp(sum of improvements); (4) before every proposal each chain holds its own target's misfit "
        "of the state it holds, has written exactly that many columns, each (state, own misfit). Tie: the real ParallelSampleSMP.sample and _sample_loop run with "
        "cooperative process/pipe stand-ins under lowest-first, highest-first, seeded-random and exhaustively enumerated interleavings, and as real processes; "
        "files compared bitwise across interleavings; statement re-evaluated in Python; binary64 instance of the network co-executed (columns, pipe events "
        "against the generated programs, schedule guard, a second scheduler).",
   note="Trusted: Coq kernel; functional_extensionality_dep (queues are functions); harness; pipes are FIFO, pickle their payload, recv blocks; buffered with any capacity >= 1 "
        "message, or synchronous (byte-level partial writes in between are not modelled); chains share no memory. Transitions, targets, exp "
        "and exchange uniforms enter the float instance as observed tables (the transitions are C02/C04/C06's subject).",
   technique="Coq proof (diamond/Kahn determinacy, canonical-run construction by induction over proposals and rows, exchange algebra) + controlled-scheduler co-execution", ref="5/C12"),
 "C20": dict(
   text="Four theorems: with exchange disabled the per-chain loop of the parallel controller IS the sequential loop (induction over the event stream, any sampler / "
        "thinning); chain i receives element i of per-chain initial models / kwargs, or the shared one, or none; for every interleaving of chain processes that do not communicate (any number of chains and proposals) no chain waits, the number of steps is bounded by the proposals in total and a run that cannot be continued has left in every chain the state it reaches alone (invariant over the network model of C12). Tie: real multiprocess ParallelSampleSMP runs (1-4 chains, "
        "HMC/RWMH mixes, per-chain/shared/no kwargs and initial models) compared bitwise, chain by chain, with stand-alone runs of deep copies taken before; attribute "
        "and RNG-state snapshots of the handed-in samplers, results files of earlier runs, reuse afterwards.",
   note="Trusted: Coq kernel; harness; fork/pickling of multiprocess; OS scheduling is not controlled (without exchange the chains do not communicate).",
   technique="Coq proof (loop equality, routing, schedule independence of non-communicating chains) + differential multiprocess runs", ref="5/C20"),
 "C18": dict(
   text="Five theorems over the layered ray model (any number of layers, interfaces, velocities, offsets, ray parameters): sin/velocity equals the ray parameter in "
        "every segment; every segment goes down and towards (never beyond) the receiver line; travel time = sum len/velocity and length = sum len; in a homogeneous "
        "medium a ray that reaches the receiver line has exactly the straight-line time to its end point, and sqrt(X^2+z^2) is 1-Lipschitz in z (tolerance bound). "
        "Tie: _tracerays (trace_layers on/off) co-executed with the binary64 instance (sqrt form, 2^-30 relative), the statement re-evaluated on the returned ray "
        "coordinates, forward()/solved_angles on homogeneous media on the installed NumPy with receiver arrays listed top-down, bottom-up, shuffled or holding one "
        "receiver (every forward() call under a watchdog: termination of the angle search is observed, not proved), forward() on layered media re-traced at "
        "the solved angles.",
   note="Trusted: Coq kernel, stdlib real axioms; harness; sin(arcsin x)=x and cos(arcsin x)=sqrt(1-x^2) connect the code's angle form to the model's; the random "
        "angle refinement of _search_angles is exercised, not modelled.",
   technique="Coq proof (induction over layers, real analysis) + tolerance co-execution", ref="5/C18"),
 "C03": dict(
   text="Ten theorems: Diagonal/Unit kinetic energy value, gradient = derivative (Coquelicot) and factor^2 = matrix for every dimension; Full: P p is the "
        "derivative of 1/2 p^T P p for symmetric P; BFGS history machine: for EVERY history of updates/accepts/rejects the momentum factor belongs to the metric in "
        "use and a rejection restores metric, factor and the reference pair (position, gradient) of the last acceptance; (f eps, M) ~ (eps, M/f^2) for every integrator, dimension and homogeneous kinetic "
        "gradient; mathcomp: cov(LTinv z) Minv = 1, the BFGS update preserves symmetry and positive definiteness when s.y > 0. Tie: factor recovered from real objects "
        "(lists / int / float32 / float64 inputs), interval enclosures of K and grad K, co-executed BFGS histories, scaling on the real propagators.",
   note="Trusted: Coq kernel, stdlib real axioms + classic + funext, mathcomp; scipy/numpy factorisations as oracles (checked numerically each run); metric values are "
        "abstracted to version numbers in the history machine; the Cholesky-failure branch of _update is modelled but not exercised.",
   technique="Coq proof (history-machine invariant, Coquelicot, mathcomp matrix algebra) + co-execution and interval correspondence", ref="5/C03"),
 "C15": dict(
   text="Four theorems over list matrices of any shape: premultiplied form = residual form for symmetric W (given the defining properties of G^T W G, G^T W d, "
        "d^T W d); Cholesky form; G^T is the adjoint of G; G^T W (G m - d) is the coordinate-wise derivative of the misfit (exact second-order expansion + "
        "Coquelicot). Tie: 160 generated instances per run over dense/sparse x scalar (python/numpy)/vector/full covariance x premultiplication x dtype x wrapper/"
        "concrete x pickle: misfit, gradient, forward inside the Coq-Interval enclosure of the residual-form model at working precision; bounds; thousands of data and strongly correlated covariances (cond 1e6..1e10, float64 back end) against the formula evaluated with numpy.",
   note="Trusted: Coq kernel, stdlib real axioms + classic; harness; numpy.linalg.inv in the harness supplies W = C^-1 to the model; MKL path not exercised (no MKL).",
   technique="Coq proof (bilinear algebra over lists, Coquelicot) + interval-arithmetic correspondence", ref="5/C15"),
 "C17": dict(
   text="Nine theorems: forward relation; masked least-squares misfit with zero contribution (misfit and gradient) of missing picks; the x, y, z partial "
        "derivatives of a datum and the x, T, v derivatives of a whole event (any stations, any missing pattern) are the model's gradient entries (Coquelicot); zero "
        "misfit and gradient at the truth. Tie: generated 2D/3D instances: misfit, every gradient component (fixes the x,[y,]z,T,..,v layout) and predicted times "
        "inside Coq-Interval enclosures; finite gradients with missing picks; 3D(y=0) = 2D; zero at truth on the real classes.",
   note="Trusted: Coq kernel, stdlib real axioms + classic; harness. The 2D class is modelled as the y = 0 slice of the 3D model; their agreement in the code is a "
        "co-execution fact. Event-level y and z derivatives are analogous to x and not separately stated.",
   technique="Coq proof (Coquelicot auto_derive per datum, induction over stations) + interval-arithmetic correspondence", ref="5/C17"),
 "C05": dict(
   text="Theorem (Coquelicot is_derive): for every expression of the distribution syntax (separable leaves = StandardNormal1D/Normal diag/Laplace/Uniform, full "
        "quadratic forms, Himmelblau; nodes = Additive/BayesRule, Composite, Mixture, log-transform, temperature scaling), every admissible point and every "
        "coordinate, the gradient component is the partial derivative of the misfit; gradient has the point's dimension; the leaf classes are admissible (Laplace "
        "away from kinks). Tie: for random nestings of the real classes the misfit and every gradient component must lie in the Coq-Interval enclosure of the model; "
        "plus shape, value-functionality under in-place mutation, finite differences; LinearMatrix and SourceLocation instances included (models of C15/C17).",
   note="Trusted: Coq kernel; stdlib real axioms + classic (Coquelicot); Coq-Interval at tactic level for the correspondence; harness. n-ary wrappers are nested "
        "binary nodes; precomputed inverse covariances / constants enter the model as data.",
   technique="Coq proof (Coquelicot derivative, structural induction over distribution syntax) + interval-arithmetic correspondence", ref="5/C05"),
 "C13": dict(
   text="Eleven theorems: additive sum; collapsed bounds = intersection (violating iff some part violates) and idempotence; composite blocks and block-wise corrector; "
        "mixture formula with matching derivative; log-space change of variables exp(-misfit(m)) = exp(-misfit(log_b m)) prod 1/(m_i ln b); temperature; scalar / "
        "per-dimension / diagonal-matrix Normal encodings coincide. Tie: interval enclosures of wrapper nestings; wrapper output vs the parts' own outputs; collapsed "
        "bounds vs DECLARED part bounds with parts reused across wrappers; corrector per block; negative components in log space.",
   note="Trusted: Coq kernel, stdlib real axioms; harness. Coq's total ln makes the 'negative component => zero probability' clause an implementation-only check.",
   technique="Coq proof (list/real algebra) + interval-arithmetic and part-wise correspondence", ref="5/C13"),
 "C14": dict(
   text="Eight theorems: normalised Normal (scalar/per-dimension) and Laplace misfits equal -ln of the textbook product densities for every dimension, parameters and "
        "point; push-forward identities of the generate() constructions (mu+sigma z, mu+b z, base^x Jacobian, composite product, mixture convex combination); the constant as a sum of logarithms (the form the code evaluates since its repair) is the same number. Tie: "
        "misfit after normalize() inside the Coq-Interval enclosure of -ln pdf (constants recomputed in Coq, determinant as exact rational); generate(repeat, rng) with a "
        "recording generator (which primitive, which parameters, image, shape, determinism); misfit at generated columns in 60-150 dimensions with parameters far "
        "from one against the closed forms; moment batches as search.",
   note="Trusted: the textbook densities integrate to one and NumPy's sampling primitives have their documented laws (not mechanised); full-covariance case uses "
        "the determinant as data (exact rational computed by the harness).",
   technique="Coq proof (real analysis of log densities, push-forward identities) + interval correspondence + recorded-generator co-execution", ref="5/C14"),
 "C01": dict(
   text="Nine theorems: every integrator program is a palindrome (any arithmetic); drift and kick times each sum to stepsize*steps for all literals, and a "
        "single random factor scales them uniformly; a general reversibility theorem for drift/kick programs; its instances for unbounded targets (any "
        "dimension, any gradient field, any odd kinetic gradient = Unit/Diagonal/Full) and for mirror reflection at boxes with coordinate-wise masses "
        "under single-bounce drifts; determinant 1 of the tangent map of every program incl. reflections (mathcomp, any dimension). Tie: (static) the "
        "schedules are re-extracted from Samplers.py by a fail-closed AST translator on every run and proved equal to the model by reflexivity; (dynamic) "
        "bit-exact co-execution of the real propagators and of HMC_visual with call-by-call argument comparison; numerical reversal / time-sum oracles.",
   note="Trusted: Coq kernel, stdlib real axioms + functional extensionality, mathcomp; the AST translator harness/schedule_ast.py; the tangent program is "
        "the chain-rule derivative by definition. Two known findings: Full mass + reflection, multi-bounce overshoot (property false there).",
   technique="Coq proof (palindrome + reversibility + mathcomp determinant) + AST-generated model + bit-exact co-execution", ref="5/C01"),
 "C06": dict(
   text="Eight theorems: +inf misfit outside / unchanged inside (extended reals); update_bounds atomic and ordered; the corrector mirrors exactly the violating "
        "coordinates and negates exactly their momenta, conserving sum p_i^2/m_i; every column stored by either sampler started inside lies inside with finite "
        "misfit for every integrator, mass matrix, step size and random stream (invariant of the loop model, uses the NaN/+inf rejection lemma). Tie: "
        "co-execution of update_bounds / misfit_bounds / corrector (own, BayesRule-collapsed, Composite per-block bounds) and complete runs with steps 1e-6..1e12.",
   note="Trusted: Coq kernel, stdlib real axioms; harness; numpy fancy-indexed in-place updates. Hypothesis of the chain theorem: the unbounded part of the "
        "misfit is finite (true of the built-in Normal/Uniform/Laplace targets used in the runs).",
   technique="Coq proof (coordinate-wise mirror lemmas + loop invariant) + co-execution and full runs", ref="5/C06"),
 "C08": dict(
   text="Fault model of the sampling loop: for every sampler, thinning, event stream, fault site (every external call of the run, entry/exit of the "
        "sample store of every proposal, time check after every proposal) and fault kind, the stored columns are the leading columns of the "
        "fault-free run and contain everything stored during the proposals completed before the stop (induction over the event stream); outcome "
        "(return vs re-raise of the same exception) and totality of the close arithmetic. Tie: exhaustive fault injection per short run on the real "
        "samplers (both back ends), compared with the model (columns, outcome, final proposal index) and with the fault-free reference run, "
        "print_details(), handle state and a second run on the same object. The evaluation limiter (Distributions.EvaluationLimiter) has its own model "
        "(Model/Limiter.v: counter, budget, reset on raise) with theorems that the interrupt is raised at exactly the budgeted call, for misfit and gradient alike, "
        "and that the counter is zero afterwards; co-executed with the real wrapper over random call sequences and followed by real interrupted runs.",
   note="Trusted: Coq kernel; harness; Python's try/except/finally semantics are transcribed by hand into Model/Faults.v (handler) and checked only by "
        "co-execution. Faults inside h5py/numpy I/O and inside _close_sampler are outside the modelled boundaries. One known finding (NPY, zero columns).",
   technique="Coq proof (prefix theorem over fault model) + exhaustive fault injection co-execution", ref="5/C08"),
 "C10": dict(
   text="Five theorems over the container model for any column type, both back ends, every operation sequence and every clock script (arbitrary, incl. "
        "decreasing and NaN): after close file = appended columns in order, buffer empty, write index = count; file content independent of the clock; "
        "burn-in b read semantics and refusal iff b >= length; index ranges; combine. Tie: step-by-step co-execution with real hmclab.Samples objects "
        "under a scripted wall clock (buffer length, interval, write index after every op; file; read queries; combine_samples).",
   note="Trusted: Coq kernel; harness; h5py / numpy.load / AppendNPY persist float64 bits. Model is hand-written (Model/SamplesFile.v); the HDF5/NPY "
        "libraries themselves are not modelled.",
   technique="Coq proof (invariant file++buffer = appended over all op sequences) + step-by-step co-execution", ref="5/C10"),
 "C11": dict(
   text="Four theorems over a file-system model (version stamps): any sequence of operations without overwrite consent leaves every pre-existing "
        "file unchanged; a write attempt on an existing path with otherwise valid arguments yields FileExistsError; no handle is left open; a "
        "following valid run succeeds. Tie: generated sequences of sample() (valid / invalid at each of 15 validation stages), Samples(mode='w'), "
        "copy, deepcopy, pickle, load_results on real objects; file identity, exception class and open HDF5 handles compared after every op.",
   note="Trusted: Coq kernel; harness; file identity = (mtime_ns,size,sha256). The model abstracts validation to before-open / after-open stages; "
        "the stage classification of each argument error is fixed in the harness and validated by the co-execution.",
   technique="Coq proof (induction over op sequences of a file-system model) + co-execution with hashing", ref="5/C11"),
 "C02": dict(
   text="Nine theorems: the accept decision of the RWMH and HMC transition models equals u < exp(E_cur - E_prop) with E as the property states; "
        "state/misfit/counter after accept and reject; accepted counter = number of accepting transitions for every run (induction over the event "
        "stream, any arithmetic); NaN/+inf proposal energies are never accepted (extended reals with IEEE special-value rules); RWMH proposal form. "
        "The model is tied to /repo by bit-exact co-execution of complete sample() runs (decisions, states, counter, every oracle call and its "
        "arguments) and the statement is re-evaluated on per-transition snapshots, incl. reuse of a sampler object.",
   note="Trusted: Coq kernel, vm_compute, stdlib real axioms (sig_forall_dec, sig_not_dec, functional_extensionality_dep) for the extended-real theorem; "
        "harness; numpy.exp as a tabulated function graph. Gap between xreal theorems and binary64 execution: rounding and signed zeros only.",
   technique="Coq proof over transition model + bit-exact co-execution of sample() runs", ref="5/C02"),
 "C07": dict(
   text="Five theorems for every sampler, target and event stream: P=k*t proposals store exactly k columns; column j is the state after proposal j*t of "
        "the unthinned run; thinning changes neither chain nor decisions; every stored misfit is the target's misfit of the stored state. Tie: complete "
        "runs on both back ends read back through hmclab.Samples, compared bit-exactly with the model and with per-proposal snapshots, the unthinned "
        "twin run and the metadata equations; two pairs of real chain processes exchanging at every proposal (every stored misfit against the chain's own target).",
   note="Trusted: Coq kernel; harness; h5py/numpy.load store and return float64 bits. Metadata equations (write index, acceptance rate, names) are "
        "checked on the implementation, not derived from a model of h5py.",
   technique="Coq proof (induction on the event stream, thinning arithmetic) + co-execution of complete runs", ref="5/C07"),
 "C16": dict(
   text="Nine theorems: the update equation with NaN->0, min(a,1) and clamp (extended reals -> closed real formula); step stays finite and positive for "
        "every acceptance probability in [0,inf] U {NaN} and along every run of either sampler; direction after easy acceptance / rejection; |change| <= "
        "weight*max(target,1-target) with weights (i+1)^-lr positive, <=1, strictly decreasing; recorded step = generating step and one history entry "
        "per completed proposal (any arithmetic); learning-rate guard. Tie: bit-exact co-execution of autotuned runs (histories, final step, all calls), "
        "interrupted runs, guard calls.",
   note="Trusted: Coq kernel, stdlib real axioms; harness; Python float power for the schedule weight (tabulated with the same expression).",
   technique="Coq proof (real analysis of the update, run invariant) + bit-exact co-execution", ref="5/C16"),
 "C19": dict(
   text="Seven theorems (last entry, misfit-of-model, step equation, never-non-finite, monotone; and, beyond the property text, one length between 1 and iterations+1 for both histories and exactness of the guards: a run is shorter than iterations+1 only when the step after the returned model was refused) proved in Coq for every "
        "arithmetic instance, target, start, step, iteration count and flag, by an invariant of the loop; the hand-written "
        "model is tied to hmclab.Optimizers.gradient_descent on every run by bit-exact co-execution (binary64 PrimFloat) on "
        "hash-function targets with NaN/inf palettes, and the property statement itself is re-evaluated on the implementation's output.",
   note="Trusted: Coq kernel + vm_compute; the Python harness; numpy IEEE arithmetic. Model is hand-written (Model/GradDescent.v); "
        "the loop, guards and preconditioner are modelled, tqdm/printing and KeyboardInterrupt handling are not.",
   technique="Coq proof (loop invariant, generic NumOps) + bit-exact model/implementation co-execution", ref="5/C19"),
}
ALL = ["C%02d" % i for i in range(1, 21)]

def main():
    checks = []
    for pid in ALL:
        if pid not in CHECKS: continue
        c = CHECKS[pid]
        checks.append({
          "property_id": pid,
          "quick_cmd": f"{PY} check.py {pid} --tier quick",
          "thorough_cmd": f"{PY} check.py {pid} --tier thorough",
          "evidence_file": f"/verif/evidence/{pid}.json",
          "replay_cmd_template": f"{PY} check.py {pid} --replay {{path}}",
          "engine": "coq-proof+correspondence",
          "level_claimed": {"category": "proof", "text": c["text"], "design_ref": "DESIGN.md section " + c["ref"]},
          "level_note": c["note"],
          "technique": c["technique"],
        })
    man = {
      "version": 1,
      "setup_cmd": "cd /verif/coq && coq_makefile -f _CoqProject -o Makefile && timeout 3000 make -j16",
      "hooks": {"guard": "HMCLAB_VERIF", "enable": "no source hooks: checks import hmclab from /repo (PYTHONPATH=/repo) and drive it through public extension points; HMCLAB_VERIF=1 is set by check.py but read nowhere in /repo",
                "baseline_off_cmd": "bash /verif/tools/baseline.sh", "source_commits": [], "add_only": True},
      "engines": [{"name": "coq-proof+correspondence", "path": "/verif/check.py",
                   "serves_properties": sorted(CHECKS), "kind_free_text": "Coq 8.16 theorems over hand-written Gallina models (coq/theories), tied to /repo on every run by co-execution (vm_compute / interval) and two AST translators"}],
      "checks": checks,
      "notes": "See DESIGN.md. Known findings: KNOWN_FINDINGS.txt.",
      "not_applicable": [{"property_id": p, "reason": "check not built yet in this round (planned, see DESIGN.md)"} for p in ALL if p not in CHECKS],
    }
    json.dump(man, open(os.path.join(V, "MANIFEST.json"), "w"), indent=1)
if __name__ == "__main__":
    main()
