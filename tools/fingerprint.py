#!/usr/bin/env python3
"""Fingerprints of hmclab's source (AST without docstrings, so comments / layout do not count), one per file.

    tools/fingerprint.py            print the fingerprints of the tree at $HMCLAB_REPO (default /repo)
    /venv/bin/python tools/fingerprint.py --record   write them to /verif/fingerprints.json (done by hand after a fix: commit, never by a check)

check.py compares the tree it is run on with the recorded fingerprints.  A difference is NOT a verdict of any kind:
it only makes the check search harder (more generator seeds), because a tree that differs from the one the
generators were tuned on is where a rare trigger matters."""
import ast
import hashlib
import json
import os
import sys
import warnings

VERIF = os.path.dirname(os.path.dirname(os.path.abspath(__file__)))
RECORD = os.path.join(VERIF, "fingerprints.json")


def strip_docstrings(tree):
    for node in ast.walk(tree):
        if isinstance(node, (ast.Module, ast.ClassDef, ast.FunctionDef, ast.AsyncFunctionDef)) and node.body:
            first = node.body[0]
            if isinstance(first, ast.Expr) and isinstance(getattr(first, "value", None), ast.Constant) and isinstance(first.value.value, str):
                node.body = node.body[1:] or [ast.Pass()]
    return tree


def fingerprints(repo):
    out = {}
    root = os.path.join(repo, "hmclab")
    for dp, dn, fn in os.walk(root):
        dn[:] = sorted(d for d in dn if d != "__pycache__")
        for f in sorted(fn):
            if not f.endswith(".py"):
                continue
            full = os.path.join(dp, f)
            rel = os.path.relpath(full, repo)
            try:
                src = open(full, encoding="utf-8").read()
                with warnings.catch_warnings():
                    warnings.simplefilter("ignore")
                    out[rel] =     hashlib.sha256(ast.dump(strip_docstrings(ast.parse(src))).encode()).hexdigest()[:24]
            except (SyntaxError, UnicodeDecodeError, OSError) as e:
                out[rel] = "unparsable:" + type(e).__name__
    return out


def changed_files(repo):
    """files whose fingerprint differs from the recorded one (added / removed files included); None if nothing is recorded"""
    if not os.path.exists(RECORD):
        return None
    doc = json.load(open(RECORD))
    if doc.get("python") != list(sys.version_info[:2]):
        return None          # ast.dump differs between interpreter versions: no comparison, no escalation
    rec = doc["files"]
    cur = fingerprints(repo)
    return sorted(f for f in set(rec) | set(cur) if rec.get(f) != cur.get(f))


if __name__ == "__main__":
    repo = os.environ.get("HMCLAB_REPO", "/repo")
    fp = fingerprints(repo)
    if "--record" in sys.argv:
        import subprocess
        head = subprocess.run(["git", "-C", repo, "rev-parse", "--short", "HEAD"], capture_output=True, text=True).stdout.strip()
        json.dump({"recorded_for": head, "python": list(sys.version_info[:2]), "files": fp}, open(RECORD, "w"), indent=1, sort_keys=True)
        print(f"recorded {len(fp)} files for {head}")
    else:
        print(json.dumps(fp, indent=1, sort_keys=True))
