#!/usr/bin/env python3
"""Write /verif/seeded/<id>/meta.json from the hand-written summary below, seeded/<id>/validation.txt
(tools/validate_seed.sh: demo on modified / unmodified copy, pinned suite on the modified copy) and
.work/seedtest_<id>.final.log (tools/seedtest.sh: the property's quick check on a scratch copy with the change)."""
import json
import os
import re
import sys

SEEDS = {
    "C01": dict(change="3s/4s integrators cache the velocity of the closing A1 drift and reuse it for the opening drift of the next step",
                needs="integrator 3s or 4s, >= 2 steps, a bounded target, a reflection in the closing drift of a non-final step, and a non-unit (diagonal/full) mass matrix",
                caught_by="schedule translator fails closed (AST), bit-exact co-execution of the integrator program (call trace), reversibility oracle on bounded diagonal-mass runs"),
    "C02": dict(change="RWMH acceptance probability clipped with min(1.0, exp(dE)); min(1.0, nan) is 1.0",
                needs="RWMH and a target whose misfit is NaN at a proposed point",
                caught_by="Metropolis-rule oracle and bit-exact co-execution of rwmh_step on scripted targets with NaN/inf palettes"),
    "C03": dict(change="Diagonal mass matrix inverse computed with numpy.reciprocal (integer division for integer dtypes)",
                needs="a diagonal given with an integer dtype (list of ints, arange) and entries > 1",
                caught_by="kinetic energy / gradient against the reported matrix for int, float32, list and array encodings"),
    "C05": dict(change="Mixture caches component misfits keyed by a reference to the coordinates array",
                needs="the same ndarray evaluated, mutated in place, then passed to gradient() (what the integrators do)",
                caught_by="value-functionality under in-place mutation + interval enclosure of the derivative"),
    "C13": dict(change="collapse_bounds intersects in place (out=...) on an array aliased with the first bounded part",
                needs="a part with wider bounds listed first, then reuse of that part elsewhere (second BayesRule or direct evaluation)",
                caught_by="parts re-evaluated after wrapper construction; additive-sum / bounds-intersection enclosures"),
    "C19": dict(change="gradient_descent preconditioner guard `if regularization is not None` became `if regularization`",
                needs="regularization exactly 0 / 0.0",
                caught_by="bit-exact co-execution of the gradient-descent model incl. regularization 0"),
    "C10": dict(change="HDF5 fast path of Samples.__getitem__ offsets the column slice by the burn-in instead of slicing after dropping it",
                needs="HDF5 back end, burn_in > 0 and a 2-tuple key whose column slice has a negative start or stop",
                caught_by="arbitrary index keys incl. negative bounds (added after this seed was first missed)"),
    "C16": dict(change="RWMH.autotune: NaN guard and min() merged into max(0.0, min(1.0, a)); min(1.0, nan) is 1.0, so NaN counts as 1",
                needs="RWMH (not HMC), autotuning=True and a NaN acceptance probability",
                caught_by="bit-exact co-execution of autotune_step on scripted acceptance histories"),
    "C11": dict(change="_numpy_attributes initialised before the overwrite check, so __del__ of a refused NPY open rewrites the sidecar",
                needs="NPY back end, a refused write to an existing file, garbage collection of the refused object",
                caught_by="file-system state machine co-execution: hashes of every file and sidecar after each op"),
    "C08": dict(change="KeyboardInterrupt and BaseException handlers merged; non-Exception BaseExceptions swallowed",
                needs="SystemExit / GeneratorExit / custom BaseException raised from user code mid-run",
                caught_by="fault injection at every call boundary with exception kinds incl. BaseException subclasses"),
    "C06": dict(change="update_bounds stores bounds in place when shapes match; rollback restores the same (already overwritten) arrays",
                needs="a distribution that already has bounds and an update that fails the final upper<=lower check",
                caught_by="bounds machine co-execution: rejected updates on already-bounded distributions"),
    "C07": dict(change="NPY back end no longer removes an existing file when overwrite_existing_file=True (appends)",
                needs="NPY back end, an earlier file of the same dimension at the path, overwrite consent",
                caught_by="runs that overwrite an earlier file at the same path (added after this seed was first missed)"),
    "C04": dict(change="leapfrog passes a temporary velocity array to the corrector, so the momentum sign flip of a reflection is lost for non-unit mass matrices",
                needs="bounded target whose walls are hit, integrator lf, Diagonal or Full mass matrix (Unit returns the momentum array itself)",
                caught_by="co-execution of the transition against the composition refresh ; trajectory ; Metropolis (call trace of corrector arguments); no failing input produced by C04 itself (C01 and C06 report the concrete trajectory)"),
    "C09": dict(change="HMC installs its generator in the mass matrix only when the mass matrix has none of its own",
                needs="a user-supplied mass matrix that already served another sampler object, or was built with rng=...",
                caught_by="runs with a mass matrix with history (added after this seed was first missed)"),
    "C12": dict(change="exchange section hoisted so that both paired chains send their model before receiving",
                needs="a pickled model larger than the operating system's pipe buffer (both chains block in send)",
                caught_by="pipe events against the model's programs (correspondence); pipes whose send blocks until received produce the concrete deadlocking schedule (added for this seed)"),
    "C14": dict(change="Normal.normalize reuses the cached Cholesky factor after generate() and forgets to square its determinant",
                needs="full covariance with det != 1 and generate() before normalize() on the same object",
                caught_by="operation preludes before normalize() (added after this seed was first missed)"),
    "C15": dict(change="slim __getstate__ of the sparse-G / full-covariance back end drops the bounds",
                needs="sparse G, full covariance, bounds set, pickle / deepcopy round trip, evaluation outside the box",
                caught_by="bounds set before the round trip must survive it (added after this seed was first missed)"),
    "C17": dict(change="nansum replaced by an explicit NaN-observation mask + sum in both gradient methods",
                needs="a source exactly at a station (distance 0 gives 0/0, which nansum used to drop)",
                caught_by="sources exactly at a station (added after this seed was first missed)"),
    "C18": dict(change="per-layer length accumulator allocated with zeros_like(velocities)",
                needs="integer-dtype velocity array and trace_layers=True",
                caught_by="integer velocity arrays (added after this seed was first missed)"),
    "C20": dict(change="per-chain kwargs dict created once and updated in place, so earlier chains' keywords leak into later chains",
                needs="kwargs as a list of per-chain dicts where a later chain omits a key an earlier chain sets",
                caught_by="per-chain kwargs with differing keys compared bitwise with stand-alone runs"),
}

# second round: a different mechanism was requested for every property
SEEDS.update({
    "C01_2": dict(change="_AbstractDistribution.corrector reflects lower OR upper (elif): coordinates leaving through opposite walls in one drift are not all mirrored",
                  needs="two-sided bounds, dimension >= 2, two coordinates exiting through opposite sides in one position update",
                  caught_by="call-trace correspondence; reversibility oracle with corner starts (added for this seed; the hypothesis check now follows the specified trajectory)"),
    "C02_2": dict(change="HMC acceptance computed as exp(dU) * exp(dK) instead of exp(dH): inf * 0 = NaN / inf for |dU| > 709",
                  needs="a transition converting several hundred units of misfit into kinetic energy",
                  caught_by="transition-count / exp-call trace of the co-executed hmc_step (two exp evaluations per transition instead of one)"),
    "C03_2": dict(change="BFGS update in place + reset() handing back the backup arrays without copying",
                  needs="reject, trajectory update with s.y > 0, reject again without an accept in between",
                  caught_by="BFGS history machine co-execution on generated Accept/Update/Reject histories"),
    "C04_2": dict(change="Normal.normalize scalar-covariance branch uses log|c| instead of d*log|c| (mixture weights silently rescaled)",
                  needs="Mixture of Normals with different scalar covariances in more than one dimension",
                  caught_by="density of the starting draws vs exp(-misfit) and scalar-variance mixtures in the moment tests (added after this seed was first missed)"),
    "C05_2": dict(change="SourceLocation gradient: origin-time component summed over all events (axis lost)",
                  needs="at least two events",
                  caught_by="finite differences / interval enclosure of the source-location gradient"),
    "C06_2": dict(change="cached `bounded` flag set only by update_bounds: boxes handed to Composite / BayesRule constructors are ignored by misfit",
                  needs="bounds passed to the CompositeDistribution or BayesRule constructor",
                  caught_by="boxes handed to wrapper constructors (added after this seed was first missed)"),
    "C07_2": dict(change="accepted_proposals / amount_of_writes reset moved from _init_sampler to __init__",
                  needs="the same sampler object running sample() twice",
                  caught_by="runs on a sampler object that already made a run, acceptance counted from the transitions (added after this seed was first missed)"),
    "C08_2": dict(change="EvaluationLimiter: the gradient branch no longer resets the evaluation counter before raising KeyboardInterrupt",
                  needs="the library's EvaluationLimiter as interrupt source, HMC, budget expiring at a gradient call, an immediate second run on the same objects",
                  caught_by="EvaluationLimiter as interrupt source with budgets 1..29, second run on the same sampler and target (added after this seed was first missed)"),
    "C09_2": dict(change="animated leapfrog of HMC_visual draws the step-size factor unconditionally",
                  needs="HMC_visual, animate_proposals=True, randomize_stepsize=False, compared with a non-animated run",
                  caught_by="visual samplers with and without animation in the differential runs"),
    "C10_2": dict(change="combine_samples culls only columns that are NaN in every row (all instead of any)",
                  needs="an input chain with a partially NaN column",
                  caught_by="combine_samples cases with NaN columns; container model co-execution"),
    "C11_2": dict(change="failed-start clean-up closes the samples file only when the raw file name matches the normalised one",
                  needs="HDF5, a file name given without extension, a start failing after the file was opened, then a run on the same path",
                  caught_by="extensionless file names in the operation grammar (added after this seed was first missed)"),
    "C12_2": dict(change="paired chains forward their misfit and use the received one instead of evaluating their own target",
                  needs="exchange with distinct per-chain targets",
                  caught_by="own-misfit and swap-rule oracles on hash / tempered targets; network correspondence"),
    "C13_2": dict(change="CompositeDistribution.corrector walks blocks with a running slice that is not advanced for unbounded parts",
                  needs="a composite without own bounds where an unbounded part precedes a bounded one, and a point leaving the box",
                  caught_by="block-wise corrector check on composites with mixed bounded / unbounded parts"),
    "C14_2": dict(change="Mixture.generate enumerates the counts of the components that were drawn, renumbering them from 0",
                  needs="a component (not the last) missing from the batch: zero / tiny weight or a very small batch",
                  caught_by="push-forward check of Mixture.generate against the generator's recorded choice (added after this seed was first missed)"),    "C15_2": dict(change="sparse-G / full-covariance back end caches the residual keyed on the identity of the coordinates array",
                  needs="the same ndarray evaluated, changed in place, evaluated again",
                  caught_by="in-place re-evaluation of the same array (added after this seed was first missed)"),
    "C16_2": dict(change="HMC caches the schedule weights (i+1)^(-learning_rate), rebuilt only when the number of proposals changes",
                  needs="the same HMC object making a second autotuned run with the same number of proposals and another learning rate",
                  caught_by="runs on a reused sampler object with another learning rate (added shortly before / for this seed)"),
    "C17_2": dict(change="constructors reshape (stations, events) input instead of transposing it",
                  needs="data or per-datum sigmas passed station-major with events != stations, both >= 2",
                  caught_by="station-major input layouts (added after this seed was first missed)"),
    "C18_2": dict(change="forward() caches the last model by reference and returns the cached travel-time array",
                  needs="forward(m), m changed in place, forward(m) again (or the caller changing the returned array)",
                  caught_by="repeated forward() on the same object and model array (added after this seed was first missed)"),
    "C19_2": dict(change="gradient_descent's NaN/inf guard tests the updated model instead of its misfit",
                  needs="strictly_monotonic=False and a step with finite coordinates but non-finite misfit (leaving a bounded target, overflow)",
                  caught_by="nonfinite-returned oracle and bit-exact co-execution (a statistics line of the harness crashed on the unexpected call order and was made robust)"),
    "C20_2": dict(change="controller shallow-copies the samplers and re-creates their generators from the seed sequence",
                  needs="a sampler whose generator has advanced (an earlier run) before being handed to the controller",
                  caught_by="samplers with an earlier run handed to the controller, compared with stand-alone runs of deep copies"),})

# third round: a mechanism, function and clause different from both earlier seeds was requested
SEEDS.update({
    "C01_3": dict(change="animated leapfrog of HMC_visual uses self.stepsize instead of the randomised local step size in its closing half drift",
                  needs="HMC_visual, animate_proposals=True with an open figure, randomize_stepsize=True",
                  caught_by="static schedule translator (fails closed on the unknown coefficient) and co-execution of the visual samplers; no failing input produced"),
    "C02_3": dict(change="initial model no longer cast to float64 + RWMH writes accepted proposals into the existing array",
                  needs="an integer-typed initial model",
                  caught_by="integer starting models in the sampler runs (added shortly before this seed arrived): accept-state, sampling-raised"),
    "C03_3": dict(change="4-stage integrator scales the derived coefficient a3 after a1, a2 were already multiplied by the step size",
                  needs="integrator 4s and a local step size other than 1",
                  caught_by="scaling-equivalence runs (step f*eps with M vs eps with M/f^2) over all integrators"),
    "C04_3": dict(change="Full mass matrix keeps cho_factor's unused triangle (np.tril removed); generate_momentum multiplies by the whole array",
                  needs="a non-diagonal Full mass matrix given with a dtype that cho_factor converts (integer, longdouble)",
                  caught_by="momentum-law hypothesis check on the real masses of the composition tie and integer-dtype Full matrices in C03/C04 (added after this seed was first missed)"),
    "C05_3": dict(change="Uniform returns one shared zero-gradient array; TransformToLogSpace.gradient modifies the wrapped gradient in place",
                  needs="TransformToLogSpace(Uniform) with gradient() evaluated at least twice",
                  caught_by="deterministic wrapper x leaf coverage (added after this seed was first missed) with the in-place / repeated evaluation check"),
    "C06_3": dict(change="base corrector computes the mirror image in place in the dtype of the bounds array",
                  needs="bounds with an integer dtype and an HMC trajectory crossing a wall",
                  caught_by="integer-dtype bounds (added after this seed was first missed): corrector-raised"),
    "C07_3": dict(change="write buffer of Samples capped at 1024 columns per flush while a flush is triggered by the 1025th column (newest column dropped)",
                  needs="more than 2057 stored columns written with flushes less than a second apart",
                  caught_by="one long quickly written chain per run in C07 and C10 (added after this seed was first missed)"),
    "C08_3": dict(change="deadline of a max_time run kept on the sampler object and cleared only after a complete loop",
                  needs="same sampler reused: run 1 with max_time ended early (limit, interrupt, exception), run 2 without max_time",
                  caught_by="second run on the same object after every injected fault (not-reusable-*)"),
    "C09_3": dict(change="RWMH.autotune clamps the step size only inside the diagnostic-mode block",
                  needs="autotuning, runs differing in diagnostic_mode, step size driven to zero or below",
                  caught_by="diagnostic-mode variant of the differential runs"),
    "C10_3": dict(change="Samples.append buffers the caller's array without copying it",
                  needs="the caller reusing / modifying the appended array while it is still in the buffer",
                  caught_by="one work column filled in place and appended every time (added after this seed was first missed)"),
    "C11_3": dict(change="NPY close() rewrites the sidecar for read-mode objects too (condition moved to the print)",
                  needs="NPY back end; load_results / with Samples(f) rewrites, print_details then truncates the sidecar",
                  caught_by="file-system machine: hashes of files and sidecars after every op incl. load_results"),
    "C12_3": dict(change="per-chain kwargs dict created once and updated in place (keys leak into later chains)",
                  needs="kwargs as a list of per-chain dicts with differing key sets",
                  caught_by="HMC/RWMH mixes with per-chain kwargs: chain-raised, deadlock, process-run-differs"),
    "C13_3": dict(change="Normal.normalize: determinant of a scalar covariance taken as prod(s) = s instead of s^n",
                  needs="Normal with scalar covariance, more than one dimension, normalisation (explicit or as a Mixture component)",
                  caught_by="scalar / per-dimension / diagonal-matrix encodings compared after normalize()"),
    "C14_3": dict(change="Uniform caches its widths; update_bounds (base class) does not refresh them",
                  needs="update_bounds with a box of another extent, then generate()",
                  caught_by="first only because a different generator method was called (an oracle that depended on the spelling of the draw -- corrected); now update_bounds before generate and a primitive-independent image check"),
    "C15_3": dict(change="dense-G / full-covariance back end treats covariances with |off-diagonal| <= 1e-8 as diagonal (allclose default atol)",
                  needs="a correlated covariance that is small in absolute terms (sigma ~ 1e-5)",
                  caught_by="covariances on other scales (added after this seed was first missed) with a direct statement oracle"),
    "C16_3": dict(change="_close_sampler_specific keeps max(current_proposal + 1, 1) history rows",
                  needs="autotuned run interrupted inside proposal 0",
                  caught_by="interrupts inside proposal 0 (added after this seed was first missed)"),
    "C17_3": dict(change="class-level distance cache keyed by the hypocentre bytes only",
                  needs="two instances with different station geometry evaluated at the same hypocentres",
                  caught_by="sibling instances evaluated at the same model (added after this seed was first missed; generalised to all distribution checks)"),
    "C18_3": dict(change="refraction skipped when neighbouring layer velocities are `isclose` (rtol 1e-5)",
                  needs="neighbouring layers with nearly but not exactly equal velocities (fine gradients)",
                  caught_by="finely layered velocity gradients (added after this seed was first missed)"),
    "C19_3": dict(change="gradient_descent pre-allocates its model history with the dtype of the starting model",
                  needs="a starting model that is not float64 (int64, float32)",
                  caught_by="integer-dtype starting models (added shortly before this seed arrived)"),
    "C20_3": dict(change="proposals rounded up to a multiple of exchange_interval before the exchange test",
                  needs="exchange=False with an exchange_interval that does not divide proposals",
                  caught_by="exchange_interval handed over with exchange off (added after this seed was first missed)"),})

# fourth round: a clause or a region of the quantifier that none of the three earlier seeds touched; triggers other than dtypes / in-place reuse / caches requested
SEEDS.update({
    "C01_4": dict(change="leapfrog skips the corrector when the target itself has no bounds (a CompositeDistribution carries them on its components)",
                  needs="integrator lf on a CompositeDistribution whose components are bounded and which has no box of its own",
                  caught_by="composite targets carrying the box on their components (added after this seed was first missed): bit-exact trajectory comparison, not-reflected"),
    "C02_4": dict(change="RWMH draws a proposal again (up to 10 times) when it falls outside the target's bounds",
                  needs="RWMH on a target with bounds of its own and a draw that overshoots a bound",
                  caught_by="bounded hash targets under RWMH (added after this seed was first missed): rwmh-proposal oracle on the first normal draw of the transition"),
    "C03_4": dict(change="BFGS mass matrix: the failure path of update() restores the metric from a backup taken before the previous successful update",
                  needs="an update refused for ill-conditioning after at least one applied update",
                  caught_by="refused ill-conditioned updates in the BFGS histories (added after this seed was first missed): bfgs-factor-stale"),
    "C04_4": dict(change="misfit_bounds: 'not any(x >= lower)' instead of 'not all(...)': +inf only if every coordinate violates a bound",
                  needs="a box-truncated target in two or more dimensions under RWMH (or HMC without corrector involvement)",
                  caught_by="forced truncated-target configurations under both samplers (added after this seed was first missed): moment search + misfit outside the box"),
    "C05_4": dict(change="AdditiveDistribution/BayesRule.gradient loops over a term list built in __init__; add_distribution only extends separate_distributions",
                  needs="a posterior extended with add_distribution() after construction",
                  caught_by="distgen builds 40% of the additive nodes through add_distribution (added after this seed was first missed): gradient-vs-misfit enclosure"),
    "C06_4": dict(change="base corrector rewritten as whole-vector mask arithmetic (0 * inf = nan for infinite bound entries)",
                  needs="an infinite entry in the bounds vector of the distribution itself and a call of the corrector",
                  caught_by="co-execution of the bounds model (boxes with infinite entries were generated already); the mirror oracle added afterwards names the failing point: corrector-not-mirror"),
    "C07_4": dict(change="default_rng(seed or None): seed 0 becomes an unseeded generator",
                  needs="seed=0 and a comparison of two runs with that seed",
                  caught_by="own-generator thinning cases with seed 0 in C07 and seed 0 among the C09 seeds (both added after this seed was first missed)"),})


def main():
    ids = sys.argv[1:] or sorted(SEEDS)
    for pid in ids:
        d = os.path.join("/verif/seeded", pid)
        if not os.path.isdir(d):
            continue
        meta = {"property": pid.split("_")[0], "files": sorted(f for f in os.listdir(d) if f != "meta.json")}
        meta.update(SEEDS.get(pid, {}))
        vt = os.path.join(d, "validation.txt")
        if os.path.exists(vt):
            t = open(vt).read()
            g = lambda pat: (re.search(pat, t).group(1) if re.search(pat, t) else None)
            meta["confirmed_in_scratch_copy"] = {
                "against": g(r"validated against (.*)"),
                "demo_on_modified_exit": g(r"demo on modified copy: exit (\d+)"),
                "demo_on_unmodified_exit": g(r"demo on unmodified /repo: exit (\d+)"),
                "pinned_suite_on_modified": g(r"suite on modified copy: (.*)"),
                "stable_tests_vs_BASELINE": g(r"(stable=.*)"),
                "baseline_compare_exit": g(r"baseline compare exit: (\d+)"),
                "how": "tools/validate_seed.sh: rsync of /repo HEAD to /var/tmp, patch applied, demo.py on both trees, pinned pytest command with junit compared to /root/.vp/BASELINE.json; copy removed",
            }
        lg = os.path.join("/verif/.work", f"seedtest_{pid}.final.log")
        if os.path.exists(lg):
            t = open(lg).read()
            vio = re.findall(r"^VIOLATION property=\S+ replay=\S+ key=(\S+)", t, re.M)
            summ = re.search(rf"^{pid.split('_')[0]}: tier=.*$", t, re.M)
            meta["check_on_seeded_tree"] = {"cmd": f"tools/seedtest.sh {pid.split('_')[0]} seeded/{pid}/patch.diff  (check.py {pid} --tier quick with HMCLAB_REPO=<scratch copy + patch>)",
                                            "exit": 1 if vio else 0, "violation_keys": sorted(set(vio)), "summary": summ.group(0) if summ else None}
            meta["detected"] = bool(vio)
        json.dump(meta, open(os.path.join(d, "meta.json"), "w"), indent=1)
        print(pid, "detected" if meta.get("detected") else "NOT DETECTED / not run")


if __name__ == "__main__":
    main()
