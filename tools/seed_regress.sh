#!/bin/bash
# Re-runs every seeded change under /verif/seeded against the current checks (quick tier) and reports the ones
# that are no longer detected (a file seeded/<id>/check_with names the check to run when the change is the subject of
# another property's check, e.g. C07_9: a stale misfit after a tempering exchange, which is C12's clause).  usage: tools/seed_regress.sh [parallelism]
P=${1:-5}
cd /verif
for suffix in ${SUFFIXES:-"" "_2" "_3" "_4" "_5" "_6" "_7" "_8" "_9"}; do
  ls -d seeded/C??$suffix 2>/dev/null | xargs -P $P -I{} bash -c 'd={}; id=$(basename $d); pid=${id:0:3}; if [ -f $d/check_with ]; then pid=$(cat $d/check_with); fi; out=$(tools/seedtest.sh $pid $d/patch.diff 2>&1); cp .work/seedtest_$pid.log .work/seedtest_$id.final.log; if grep -q "^VIOLATION" .work/seedtest_$id.final.log; then echo "$id detected"; else echo "$id NOT DETECTED"; fi'
done | sort
