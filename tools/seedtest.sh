#!/bin/bash
# usage: tools/seedtest.sh <pid> <patch> [tier]
# Runs the check for <pid> against a scratch copy of /repo's working tree with the seeded change applied
# (HMCLAB_REPO / HMCLAB_GEN / HMCLAB_EVIDENCE overrides): /repo, /verif/evidence and /verif/coq/gen are not touched,
# so several of these can run side by side.
pid=$1; patch=$(readlink -f "$2"); tier=${3:-quick}
S=$(mktemp -d /var/tmp/seedtest.XXXXXX)
trap 'rm -rf "$S"' EXIT
rsync -a --exclude .git /repo/ $S/repo/
cd $S/repo && git init -q . && git add -A >/dev/null && git -c user.email=a@b -c user.name=x commit -qm base
# (a seed written against an earlier HEAD whose code a later fix: commit rewrote is kept re-expressed on the current HEAD
#  as patch_on_head.diff beside it)
alt="$(dirname "$patch")/patch_on_head.diff"
if ! git apply "$patch" 2>/dev/null; then
  if ! { [ -f "$alt" ] && git apply "$alt" 2>/dev/null; }; then
    if ! git apply --3way "$patch" 2>/dev/null; then
      git checkout -q -- . 2>/dev/null
      if ! patch -p1 --fuzz=3 < "$patch" >/dev/null 2>&1; then echo "seed $pid: patch does not apply"; exit 2; fi
    fi
  fi
fi
V=${VERIF_DIR:-/verif}     # (a development copy of /verif can be tried out without touching runs in progress)
mkdir -p $S/gen $S/evidence $V/.work
cd $V
HMCLAB_GEN=$S/gen HMCLAB_EVIDENCE=$S/evidence HMCLAB_REPO=$S/repo PYTHONPATH=$S/repo PYTHONHASHSEED=0 /venv/bin/python check.py "$pid" --tier "$tier" > $V/.work/seedtest_$pid.log 2>&1
rc=$?
echo "seed $pid: check exit $rc"; grep -E "^VIOLATION|^KNOWN" $V/.work/seedtest_$pid.log | cut -c1-300 | head -5
exit 0
