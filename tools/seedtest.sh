#!/bin/bash
# usage: tools/seedtest.sh <pid> <patch> [tier]   -- apply a seeded change to /repo, run the check, undo
pid=$1; patch=$2; tier=${3:-quick}
cd /repo || exit 2
if [ -n "$(git status --porcelain --untracked-files=no)" ]; then echo "/repo not clean"; exit 2; fi
git apply "$patch" || { echo "patch does not apply"; exit 2; }
cd /verif
cp evidence/$pid.json .work/evidence_$pid.keep 2>/dev/null
PYTHONPATH=/repo PYTHONHASHSEED=0 /venv/bin/python check.py "$pid" --tier "$tier" > /verif/.work/seedtest_$pid.log 2>&1
rc=$?
git -C /repo reset -q --hard
cp .work/evidence_$pid.keep evidence/$pid.json 2>/dev/null   # evidence of the seeded tree is not evidence
echo "seed $pid: check exit $rc"; grep -E "^VIOLATION|^KNOWN" /verif/.work/seedtest_$pid.log | head -5
exit 0
