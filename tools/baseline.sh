#!/bin/bash
# Runs hmclab's pinned test suite with the verification guard OFF, in a scratch copy of /repo
# (the suite rewrites notebooks/tutorials/*.ipynb in place), compares with BASELINE.json
# (no stable_pass test may fail or error) and removes the copy afterwards.
set -u
# (a job started with & from a non-interactive shell inherits SIGINT ignored; tests/test_break.py relies on
#  _thread.interrupt_main(), which is then a no-op and every execution runs its 10000 proposals: the launcher below resets it)
unset HMCLAB_VERIF
S=$(mktemp -d /var/tmp/hmclab_baseline.XXXXXX)
trap 'rm -rf "$S"' EXIT
rsync -a --exclude .git /repo/ "$S/repo/"
J="${1:-$S/junit.xml}"
( cd "$S/repo" && OMP_NUM_THREADS=2 OPENBLAS_NUM_THREADS=2 /venv/bin/python -c 'import signal, os, sys; signal.signal(signal.SIGINT, signal.SIG_DFL); os.execv(sys.executable, [sys.executable, "-m", "pytest"] + sys.argv[1:])' -ra -q -p no:cacheprovider --timeout=900 --continue-on-collection-errors --junitxml="$J" 2>&1 | tail -8 )
python3 /verif/tools/baseline_compare.py "$J" /root/.vp/BASELINE.json
