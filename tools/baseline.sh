#!/bin/bash
# Runs hmclab's pinned test suite with the verification guard OFF, in a scratch copy of /repo
# (the suite rewrites notebooks/tutorials/*.ipynb in place), and removes the copy afterwards.
set -u
unset HMCLAB_VERIF
S=$(mktemp -d /var/tmp/hmclab_baseline.XXXXXX)
trap 'rm -rf "$S"' EXIT
rsync -a --exclude .git /repo/ "$S/repo/"
cd "$S/repo" && /venv/bin/python -m pytest -ra -q -p no:cacheprovider --timeout=900 --continue-on-collection-errors --junitxml="${1:-$S/junit.xml}" -x -q 2>&1 | tail -15
rc=${PIPESTATUS[0]}
exit $rc
