#!/bin/bash
# Runs every check against each behaviour-preserving refactoring under seeded/refactors (strict: bit-identical
# behaviour; loose: equivalent up to last bits / random stream).  Expected: no VIOLATION line that claims a failing
# input; lines ending in no-failing-input-found (a tie that no longer checks) are allowed.
P=${1:-4}
cd /verif
ls seeded/refactors/*.diff | xargs -P $P -I{} bash -c 'f={}; tools/alltest.sh $f $(basename $f .diff) >/dev/null 2>&1'
for f in seeded/refactors/*.diff; do
  l=$(basename $f .diff); log=.work/alltest/$l.log
  tot=$(grep -c '^VIOLATION' $log); claimed=$(grep '^VIOLATION' $log | grep -vc 'no-failing-input-found')
  echo "$l: checks=$(grep -c '^C[0-9]' $log) broken-ties=$((tot-claimed)) claimed-failing-inputs=$claimed"
done
