#!/bin/bash
# Runs every check against each behaviour-preserving refactoring under seeded/refactors (strict: bit-identical
# behaviour; loose: equivalent up to last bits / random stream).  Expected: no VIOLATION line that claims a failing
# input; lines ending in no-failing-input-found (a tie that no longer checks) are allowed.
# (a patch whose lines a later fix: commit rewrote is kept re-expressed on the current HEAD as <name>_on_head.diff)
P=${1:-4}
cd /verif
ls seeded/refactors/R?_strict.diff seeded/refactors/R?_loose.diff | xargs -P $P -I{} bash -c 'f={}; l=$(basename $f .diff); [ -f "${f%.diff}_on_head.diff" ] && f="${f%.diff}_on_head.diff"; tools/alltest.sh $f $l $PIDS >/dev/null 2>&1'
for f in seeded/refactors/R?_strict.diff seeded/refactors/R?_loose.diff; do
  l=$(basename $f .diff); log=.work/alltest/$l.log
  tot=$(grep -c '^VIOLATION' $log); claimed=$(grep '^VIOLATION' $log | grep -vc 'no-failing-input-found')
  echo "$l: checks=$(grep -c '^C[0-9]' $log) broken-ties=$((tot-claimed)) claimed-failing-inputs=$claimed"
done
