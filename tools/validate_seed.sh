#!/bin/bash
# validate_seed.sh <pid> [<srcdir>] : confirm a seeded change (patch.diff + demo.py [+ notes.md] in <srcdir>, default /tmp/seed_<pid>)
# against the CURRENT /repo HEAD in a scratch copy: patch applies, demo fails with it and passes
# without it, the pinned suite has no new failure.  Writes /verif/seeded/<pid>/{patch.diff,demo.py,notes.md,validation.txt}.
set -u
# (a job started with & from a non-interactive shell inherits SIGINT ignored; tests/test_break.py relies on
#  _thread.interrupt_main(), which is then a no-op and every execution runs its 10000 proposals: the launcher below resets it)
P=$1; SRC=${2:-/tmp/seed_$P}
OUT=/verif/seeded/${3:-$P}; mkdir -p $OUT
S=$(mktemp -d /var/tmp/seedval.XXXXXX)
trap 'rm -rf "$S"' EXIT
rsync -a --exclude .git /repo/ $S/repo/
cp $SRC/patch.diff $SRC/demo.py $OUT/ ; [ -f $SRC/notes.md ] && cp $SRC/notes.md $OUT/
cd $S/repo && git init -q . && git add -A >/dev/null && git -c user.email=a@b -c user.name=x commit -qm base
if ! git apply --3way $OUT/patch.diff 2>$S/apply.err; then
  if ! patch -p1 --fuzz=3 < $OUT/patch.diff > $S/apply.err 2>&1; then echo "APPLY-FAILED" | tee $OUT/validation.txt; cat $S/apply.err | tee -a $OUT/validation.txt; exit 2; fi
fi
git diff HEAD -- hmclab > $OUT/patch_on_head.diff
{
echo "validated against /repo HEAD $(git -C /repo rev-parse --short HEAD) on $(date -u +%FT%TZ)"
timeout 300 /venv/bin/python $OUT/demo.py $S/repo > $S/demo_mod.log 2>&1; echo "demo on modified copy: exit $?"
timeout 300 /venv/bin/python $OUT/demo.py /repo > $S/demo_orig.log 2>&1; echo "demo on unmodified /repo: exit $?"
tail -3 $S/demo_mod.log | sed 's/^/   modified> /'
( cd $S/repo && OMP_NUM_THREADS=2 OPENBLAS_NUM_THREADS=2 /venv/bin/python -c 'import signal, os, sys; signal.signal(signal.SIGINT, signal.SIG_DFL); os.execv(sys.executable, [sys.executable, "-m", "pytest"] + sys.argv[1:])' -q -p no:cacheprovider --timeout=900 --continue-on-collection-errors --junitxml=$S/junit.xml > $S/pytest.log 2>&1 )
echo "suite on modified copy: $(tail -1 $S/pytest.log)"
python3 /verif/tools/baseline_compare.py $S/junit.xml /root/.vp/BASELINE.json
echo "baseline compare exit: $?"
} 2>&1 | tee $OUT/validation.txt
