#!/bin/bash
# usage: tools/alltest.sh <patch> <label> [pids...]
# Runs the quick check of every property (or the given ones) against a scratch copy of /repo with <patch> applied.
# Own gen / evidence directories, so several of these can run side by side and /verif/evidence is not touched.
patch=$(readlink -f "$1"); label=$2; shift 2
pids=${@:-C01 C02 C03 C04 C05 C06 C07 C08 C09 C10 C11 C12 C13 C14 C15 C16 C17 C18 C19 C20}
S=$(mktemp -d /var/tmp/alltest.XXXXXX)
trap 'rm -rf "$S"' EXIT
rsync -a --exclude .git /repo/ $S/repo/
cd $S/repo && git init -q . && git add -A >/dev/null && git -c user.email=a@b -c user.name=x commit -qm base
if ! git apply "$patch" 2>$S/err; then echo "$label: patch does not apply: $(head -2 $S/err)"; exit 2; fi
mkdir -p $S/gen $S/evidence /verif/.work/alltest
cd /verif
out=/verif/.work/alltest/$label.log
: > $out
for p in $pids; do
  HMCLAB_GEN=$S/gen HMCLAB_EVIDENCE=$S/evidence HMCLAB_REPO=$S/repo PYTHONPATH=$S/repo PYTHONHASHSEED=0 timeout 3000 /venv/bin/python check.py $p --tier quick 2>&1 | grep -E "^VIOLATION|^C[0-9][0-9]:" | cut -c1-2000 >> $out
done
echo "$label: $(grep -c '^VIOLATION' $out) violation lines, $(grep '^VIOLATION' $out | grep -vc 'no-failing-input-found') with a claimed failing input"
