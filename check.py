#!/usr/bin/env python3
"""Driver of all /verif checks:  check.py <Cxx> [--tier quick|thorough] [--replay file]

Exit 0: property held on everything explored (known findings are printed as KNOWN-FINDING).
Exit 1: a line `VIOLATION property=<id> replay=<path>` was printed.
"""
import argparse
import fcntl
import importlib
import json
import os
import shutil
import subprocess
import sys
import time
import traceback

VERIF = os.path.dirname(os.path.abspath(__file__))
sys.path.insert(0, VERIF)
from harness import common  # noqa: E402


def locked_build():
    os.makedirs(os.path.join(VERIF, ".work"), exist_ok=True)
    with open(os.path.join(VERIF, ".work", "build.lock"), "w") as lk:
        fcntl.flock(lk, fcntl.LOCK_EX)
        try:
            return common.ensure_built()
        finally:
            fcntl.flock(lk, fcntl.LOCK_UN)


def fresh_build_and_coqchk(pid):
    """Thorough tier: rebuild the whole development from scratch in a private copy and run coqchk."""
    work = common.tmpdir(f"fresh_{pid}_")
    dst = os.path.join(work, "coq")
    shutil.copytree(os.path.join(common.COQ), dst,
                    ignore=shutil.ignore_patterns("*.vo", "*.vok", "*.vos", "*.glob", "*.aux", "gen", "Makefile*", ".*"))
    os.makedirs(os.path.join(dst, "gen"), exist_ok=True)
    t0 = time.time()
    subprocess.run(["coq_makefile", "-f", "_CoqProject", "-o", "Makefile"], cwd=dst, capture_output=True)
    p = subprocess.run(["timeout", "3000", "make", "-j16"], cwd=dst, capture_output=True, text=True)
    ok = p.returncode == 0
    info = {"fresh_build_ok": ok, "fresh_build_s": round(time.time() - t0, 1)}
    if ok:
        t1 = time.time()
        q = subprocess.run(["timeout", "1800", "coqchk", "-silent", "-o", "-Q", os.path.join(dst, "theories"), "HV",
                            f"HV.Props.{pid}"], cwd=dst, capture_output=True, text=True)
        info["coqchk_ok"] = q.returncode == 0
        info["coqchk_s"] = round(time.time() - t1, 1)
        info["coqchk_tail"] = (q.stdout + q.stderr)[-1500:]
    else:
        info["fresh_build_log"] = (p.stdout + p.stderr)[-2000:]
    shutil.rmtree(work, ignore_errors=True)
    return info


def main():
    ap = argparse.ArgumentParser()
    ap.add_argument("pid")
    ap.add_argument("--tier", default=os.environ.get("VERIF_TIER", "quick"), choices=["quick", "thorough"])
    ap.add_argument("--replay", default=None)
    args = ap.parse_args()
    pid = args.pid.upper()
    seed = int(os.environ.get("VERIF_SEED", "0"))
    tier = args.tier
    t0 = time.time()
    common.setup_env()
    mod = importlib.import_module(f"harness.{pid.lower()}")

    if args.replay:
        rc = mod.replay(json.load(open(args.replay)))
        sys.exit(rc)

    # (HMCLAB_EVIDENCE: where runs against scratch copies with seeded changes put their evidence, so that the evidence
    #  of the real tree is not touched)
    ev_path = os.path.join(os.environ.get("HMCLAB_EVIDENCE") or os.path.join(VERIF, "evidence"), f"{pid}.json")
    os.makedirs(os.path.dirname(ev_path), exist_ok=True)
    try:
        os.remove(ev_path)
    except OSError:
        pass

    violations = []      # (key, what, replay dict)
    notes = []

    # 1. proofs ---------------------------------------------------------------------
    built, blog = locked_build()
    forbidden = common.scan_forbidden()
    props = common.check_props(pid) if built else dict(obligations=0, discharged=0, axioms=[], ok=False,
                                                        log=blog, theorems=[], unexpected=[])
    proof_ok = built and props["ok"] and not forbidden
    thorough_info = {}
    if tier == "thorough":
        thorough_info = fresh_build_and_coqchk(pid)
        if not thorough_info.get("fresh_build_ok") or not thorough_info.get("coqchk_ok", False):
            proof_ok = False

    # 2. correspondence + spec oracle -----------------------------------------------
    try:
        res = mod.run(tier, seed)
    except Exception:
        res = dict(evaluations=0, distinct_nontrivial=0, rule="harness crashed", samples=[],
                   violations=[common.Violation("harness-crash", "harness raised: " + traceback.format_exc()[-1500:],
                                                {"traceback": traceback.format_exc()})])
    violations.extend(res.get("violations", []))

    # 2b. change-directed search: the tree differs from the one whose fingerprints are recorded (tools/fingerprint.py).
    #     That is no verdict; it only buys more search: further generator seeds until something fails.
    directed = None
    try:
        sys.path.insert(0, os.path.join(VERIF, "tools"))
        import fingerprint
        changed = fingerprint.changed_files(common.REPO)
    except Exception:
        changed = None
    if changed and os.environ.get("VERIF_NO_ESCALATION") != "1":
        extra = [seed + k for k in ((1, 2, 3) if tier == "quick" else (1,))]
        directed = {"changed_files": changed[:20], "extra_seeds_run": []}
        listed = common.load_known_findings().get(pid, {})
        for s in extra:
            if any(v.key not in listed for v in violations):
                break
            try:
                more = mod.run(tier, s)
            except Exception:
                more = dict(evaluations=0, violations=[common.Violation("harness-crash", "harness raised: " + traceback.format_exc()[-1500:],
                                                                        {"traceback": traceback.format_exc(), "seed": s})])
            directed["extra_seeds_run"].append(s)
            violations.extend(more.get("violations", []))
            for k in ("evaluations", "distinct_nontrivial", "traces_validated_against_impl"):
                if k in res or k in more:
                    res[k] = int(res.get(k, 0)) + int(more.get(k, 0))

    if not proof_ok and not violations:
        violations.append(common.Violation(
            "proof-broken",
            "a proof obligation no longer checks (no-failing-input-found)",
            {"theorems": props.get("theorems"), "build_ok": built, "forbidden": forbidden,
             "unexpected_axioms": props.get("unexpected"), "log": props.get("log", "")[-2000:],
             "thorough": thorough_info, "no_failing_input_found": True}))

    # 3. verdict --------------------------------------------------------------------
    known = common.load_known_findings().get(pid, {})
    seen_known = {}
    real = []
    for v in violations:
        if v.key in known:
            seen_known.setdefault(v.key, v)
        else:
            real.append(v)
    for key, v in seen_known.items():
        print(f"KNOWN-FINDING: property={pid} key={key} " + " ".join(str(v.what).split()))
    for key in known:
        if key not in seen_known:
            notes.append(f"known finding {key} was not reproduced by this run")
            print(f"NOTE: property={pid} known finding key={key} not reproduced in this run")
    os.makedirs(os.path.join(VERIF, "replays"), exist_ok=True)
    printed = set()
    for v in real:
        if v.key in printed:
            continue
        printed.add(v.key)
        rp = os.path.join(VERIF, "replays", f"{pid}_{common.case_hash([v.key, v.replay])}.json")
        with open(rp, "w") as f:
            json.dump({"property": pid, "key": v.key, "what": v.what, "replay": v.replay}, f, indent=1, default=str)
        tail = " no-failing-input-found" if (isinstance(v.replay, dict) and v.replay.get("no_failing_input_found")) else ""
        oneline = " ".join(str(v.what)[:300].split())          # one line, so that the marker is at the end of THE line
        print(f"VIOLATION property={pid} replay={rp} key={v.key} :: {oneline}{tail}")

    # 4. evidence -------------------------------------------------------------------
    cov = {
        "obligations": props["obligations"],
        "discharged": props["discharged"] if proof_ok or props["ok"] else 0,
        "checker_cmd": f"make -C coq -j16 && coqc -Q coq/theories HV coq/theories/Props/{pid}.v  (Print Assumptions per theorem)"
                       + (" ; fresh rebuild + coqchk -o HV.Props.%s" % pid if tier == "thorough" else ""),
        "trusted_base": [
            "Coq 8.16.1 kernel and vm_compute (no native_compute)",
            "axioms reported by Print Assumptions: " + (", ".join(props["axioms"]) if props["axioms"] else "none (closed under the global context)"),
            "correspondence harness /verif/harness (probes, float transport as hex literals, case writer, result parser)",
        ] + res.get("trusted_base", []),
        "theorems": props["theorems"],
        "evaluations": int(res.get("evaluations", 0)),
        "distinct_nontrivial": int(res.get("distinct_nontrivial", 0)),
        "rule": res.get("rule", ""),
        "samples": res.get("samples", [])[:5],
        "traces_validated_against_impl": int(res.get("traces_validated_against_impl", res.get("evaluations", 0))),
        "known_findings_reproduced": sorted(seen_known),
        "notes": notes + res.get("notes", []),
    }
    for k, v in res.get("coverage", {}).items():
        cov[k] = v
    if directed:
        cov["change_directed_search"] = directed
    if thorough_info:
        cov["thorough"] = thorough_info
    if forbidden:
        cov["forbidden_constructs"] = forbidden
    evidence = {
        "property_id": pid, "tier": tier, "seed": seed, "level": "proof", "coverage": cov,
        "assumptions": res.get("assumptions", []),
        "wall_s": round(time.time() - t0, 2), "violations": len(printed),
    }
    with open(ev_path, "w") as f:
        json.dump(evidence, f, indent=1, default=str)
    print(f"{pid}: tier={tier} seed={seed} obligations={props['obligations']} discharged={cov['discharged']} "
          f"evaluations={cov['evaluations']} nontrivial={cov['distinct_nontrivial']} violations={len(printed)} "
          f"known={len(seen_known)} wall={evidence['wall_s']}s")
    sys.exit(1 if printed else 0)


if __name__ == "__main__":
    main()
