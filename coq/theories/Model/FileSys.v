(* File-system level model of everything in hmclab that can touch a samples file (C11):
   sample() with validation stages before / after the file is opened, Samples(mode="w"),
   copy / deepcopy / pickle of samplers, load_results.  File contents are abstracted to
   version stamps: a write gives the path a fresh stamp, so "unchanged" = same stamp. *)
From Coq Require Import List Bool ZArith Arith Lia.
Import ListNotations.

Definition path := nat.

(* where in sample() an (in)valid argument set fails *)
Inductive stage :=
| Valid
| FailBeforeOpen      (* filename type, distribution, proposals, online_thinning, thinning | proposals *)
| FailAfterOpen.      (* initial model shape, NaN/inf initial misfit, max_time, sampler-specific checks *)

Inductive fop :=
| Sample (p : path) (overwrite : bool) (st : stage)
| OpenW (p : path) (overwrite : bool)
| CopyObj | DeepCopyObj | PickleObj | LoadResults.

Inductive res := Ok | FileExists | OtherError.

Record fs := { stamps : list (path * nat);   (* existing files with their version stamp *)
               next : nat;                   (* fresh stamp supply *)
               handles : nat }.              (* open handles left behind *)

Fixpoint lookup_stamp (l : list (path * nat)) (p : path) : option nat :=
  match l with
  | [] => None
  | (q, s) :: r => if Nat.eqb q p then Some s else lookup_stamp r p
  end.

Fixpoint set_stamp (l : list (path * nat)) (p : path) (s : nat) : list (path * nat) :=
  match l with
  | [] => [(p, s)]
  | (q, s') :: r => if Nat.eqb q p then (q, s) :: r else (q, s') :: set_stamp r p s
  end.

Definition exists_file (f : fs) (p : path) : bool :=
  match lookup_stamp (stamps f) p with Some _ => true | None => false end.

Definition write_file (f : fs) (p : path) : fs :=
  {| stamps := set_stamp (stamps f) p (next f); next := S (next f); handles := handles f |}.

Definition step (f : fs) (o : fop) : fs * res :=
  match o with
  | Sample p ow st =>
      match st with
      | FailBeforeOpen => (f, OtherError)
      | _ =>
          if exists_file f p && negb ow then (f, FileExists)
          else match st with
               | FailAfterOpen => (write_file f p, OtherError)   (* file created/truncated, then closed by sample() *)
               | _ => (write_file f p, Ok)
               end
      end
  | OpenW p ow =>
      if exists_file f p && negb ow then (f, FileExists) else (write_file f p, Ok)
  | CopyObj | DeepCopyObj | PickleObj | LoadResults => (f, Ok)
  end.

Definition consent (o : fop) : bool :=
  match o with Sample _ ow _ | OpenW _ ow => ow | _ => false end.

Fixpoint run (f : fs) (ops : list fop) : fs * list res :=
  match ops with
  | [] => (f, [])
  | o :: r => let '(f1, x) := step f o in let '(f2, xs) := run f1 r in (f2, x :: xs)
  end.
