(* Real-valued models of the distribution classes of hmclab.Distributions and of the wrappers that
   combine them (C05, C13, C14).  One syntax `dist`, with `misfit` and `gradient` by structural
   recursion; n-ary wrappers of the code are nested binary nodes (equal as real functions). *)
From Coq Require Import Reals List.
Import ListNotations.
Open Scope R_scope.

Fixpoint sumR (l : list R) : R := match l with [] => 0 | a :: r => a + sumR r end.
Fixpoint map2R {A B C} (f : A -> B -> C) (a : list A) (b : list B) : list C :=
  match a, b with x :: a', y :: b' => f x y :: map2R f a' b' | _, _ => [] end.
Lemma map2R_length_eq {A B C} (f : A -> B -> C) a : forall b, length a = length b -> length (map2R f a b) = length a.
Proof. induction a as [|x a IH]; intros [|y b] H; simpl in *; try discriminate; auto. Qed.
Definition dotR (a b : list R) : R := sumR (map2R Rmult a b).
Definition matvec (P : list (list R)) (v : list R) : list R := map (fun row => dotR row v) P.
Definition sq (x : R) : R := x * x.

(* separable functions sum_i phi_i(x_i) and their gradients *)
Fixpoint sep (phis : list (R -> R)) (x : list R) : R :=
  match phis, x with p :: ps, xi :: xs => p xi + sep ps xs | _, _ => 0 end.
Fixpoint sepg (dphis : list (R -> R)) (x : list R) : list R :=
  match dphis, x with p :: ps, xi :: xs => p xi :: sepg ps xs | _, _ => [] end.

Inductive dist :=
| DSep (phis dphis : list (R -> R)) (c : R)          (* sum_i phi_i(x_i) + c *)
| DQuad (mu : list R) (P : list (list R)) (c : R)    (* 1/2 (x-mu)^T P (x-mu) + c *)
| DHimmel (T : R)
| DAdd (a b : dist)                                  (* AdditiveDistribution / BayesRule *)
| DComp (na : nat) (a b : dist)                      (* CompositeDistribution: first na coordinates to a *)
| DMix (wa : R) (a : dist) (wb : R) (b : dist)       (* Mixture of (normalised) parts *)
| DLog (base : R) (d : dist)                         (* TransformToLogSpace *)
| DScale (s : R) (d : dist).                         (* temperature T: s = 1/T *)

(* the leaf classes of the code *)
Definition std_normal1d (T : R) : dist :=
  DSep [fun t => / 2 * sq t / T] [fun t => t / T] 0.
Definition normal_diag (mu ivar : list R) (c : R) : dist :=
  DSep (map2R (fun m iv => fun t => / 2 * (iv * sq (m - t))) mu ivar)
       (map2R (fun m iv => fun t => - (iv * (m - t))) mu ivar) c.
Definition laplace (mu ib : list R) (c : R) : dist :=
  DSep (map2R (fun m b => fun t => Rabs (t - m) * b) mu ib)
       (map2R (fun m b => fun t => (t - m) / Rabs (t - m) * b) mu ib) c.
Definition uniform (n : nat) : dist :=
  DSep (repeat (fun _ => 0) n) (repeat (fun _ => 0) n) 0.

Fixpoint misfit (d : dist) (x : list R) : R :=
  match d with
  | DSep phis _ c => sep phis x + c
  | DQuad mu P c => let r := map2R Rminus mu x in / 2 * dotR r (matvec P r) + c
  | DHimmel T =>
      match x with
      | [a; b] => (sq (sq a + b - 11) + sq (a + sq b - 7)) / T
      | _ => 0
      end
  | DAdd a b => misfit a x + misfit b x
  | DComp na a b => misfit a (firstn na x) + misfit b (skipn na x)
  | DMix wa a wb b => - ln (wa * exp (- misfit a x) + wb * exp (- misfit b x))
  | DLog base d =>
      misfit d (map (fun m => ln m / ln base) x) - sumR (map (fun m => ln (/ m / ln base)) x)
  | DScale s d => s * misfit d x
  end.

Fixpoint gradient (d : dist) (x : list R) : list R :=
  match d with
  | DSep _ dphis _ => sepg dphis x
  | DQuad mu P c => map Ropp (matvec P (map2R Rminus mu x))
  | DHimmel T =>
      match x with
      | [a; b] => [2 * (2 * a * (sq a + b - 11) + a + sq b - 7) / T;
                   2 * (sq a + 2 * b * (a + sq b - 7) + b - 11) / T]
      | _ => []
      end
  | DAdd a b => map2R Rplus (gradient a x) (gradient b x)
  | DComp na a b => gradient a (firstn na x) ++ gradient b (skipn na x)
  | DMix wa a wb b =>
      let pa := wa * exp (- misfit a x) in
      let pb := wb * exp (- misfit b x) in
      map2R (fun ga gb => (pa * ga + pb * gb) / (pa + pb)) (gradient a x) (gradient b x)
  | DLog base d =>
      map2R (fun g m => g * (/ m / ln base) + / m) (gradient d (map (fun m => ln m / ln base) x)) x
  | DScale s d => map (Rmult s) (gradient d x)
  end.

Fixpoint dim (d : dist) : nat :=
  match d with
  | DSep phis _ _ => length phis
  | DQuad mu _ _ => length mu
  | DHimmel _ => 2
  | DAdd a _ => dim a
  | DComp _ a b => dim a + dim b
  | DMix _ a _ _ => dim a
  | DLog _ d => dim d
  | DScale _ d => dim d
  end.
