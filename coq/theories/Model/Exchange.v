(* C12: the chains of ParallelSampleSMP as a process network (Model/Network.v).

   Each chain runs, for every proposal p = 0 .. P-1,
       one transition (propose + accept, local)            -- _propose / _evaluate_acceptance
       the exchange protocol if p mod I = 0 and the chain is in row p / I of the schedule
       the write of (model, misfit) to its samples file (local)
   The exchange protocol is the master / slave code of _sample_loop's "Parallel communication
   section" (slave = even position in the row, master = the odd position after it):

       slave :  send model;  recv model';  x' := misfit model';  send (x - x');  recv final;
                if final = model' then x := x';  model := final
       master:  recv model';  send model;  x' := misfit model';  recv ci;  u := rng.uniform;
                if u < exp ((x - x') + ci) then send model; (model, x) := (model', x')
                                           else send model'

   The transition, the targets, exp and the random generator are parameters.  *)
From Coq Require Import List Bool Arith Lia.
From HV Require Import Num Network.
Import ListNotations.

Section Exchange.
  Context {N : NumOps}.
  Variables (St G : Type).
  Variable steq : St -> St -> bool.          (* array_equal *)
  Variable misfit : nat -> St -> T N.        (* the chain's own target *)
  Variable expo : T N -> T N.
  Variable draw : G -> T N * G.              (* rng.uniform(0, 1) *)

  Record core := { k_model : St; k_x : T N; k_rng : G }.
  Variable trans : nat -> nat -> core -> core.   (* chain, proposal: one transition of the chain's sampler *)

  Record lst := { l_core : core; l_tmp : St; l_tx : T N; l_ci : T N; l_u : T N; l_out : list (St * T N) }.
  Inductive msg := MModel (m : St) | MImp (v : T N).

  Definition model_of (l : lst) (m : msg) : St := match m with MModel s => s | MImp _ => l_tmp l end.
  Definition imp_of (l : lst) (m : msg) : T N := match m with MImp v => v | MModel _ => l_ci l end.

  Definition set_core (l : lst) (c : core) : lst :=
    {| l_core := c; l_tmp := l_tmp l; l_tx := l_tx l; l_ci := l_ci l; l_u := l_u l; l_out := l_out l |}.
  Definition set_tmp (i : nat) (l : lst) (s : St) : lst :=
    {| l_core := l_core l; l_tmp := s; l_tx := misfit i s; l_ci := l_ci l; l_u := l_u l; l_out := l_out l |}.
  Definition set_ci (l : lst) (v : T N) : lst :=
    {| l_core := l_core l; l_tmp := l_tmp l; l_tx := l_tx l; l_ci := v; l_u := l_u l; l_out := l_out l |}.

  Definition improvement (l : lst) : T N := sub (k_x (l_core l)) (l_tx l).
  (* numpy.exp(mi + ci) > u *)
  Definition accept (l : lst) : bool := ltb (l_u l) (expo (add (improvement l) (l_ci l))).

  Definition do_draw (l : lst) : lst :=
    let '(u, g) := draw (k_rng (l_core l)) in
    {| l_core := {| k_model := k_model (l_core l); k_x := k_x (l_core l); k_rng := g |};
       l_tmp := l_tmp l; l_tx := l_tx l; l_ci := l_ci l; l_u := u; l_out := l_out l |}.

  Definition master_take (l : lst) : lst :=
    if accept l then set_core l {| k_model := l_tmp l; k_x := l_tx l; k_rng := k_rng (l_core l) |} else l.

  Definition slave_take (l : lst) (m : msg) : lst :=
    let nm := model_of l m in
    set_core l {| k_model := nm; k_x := (if steq nm (l_tmp l) then l_tx l else k_x (l_core l)); k_rng := k_rng (l_core l) |}.

  Definition act := action lst msg.

  Definition slave_actions (i j : nat) : list act :=
    [ ASend j (fun l => MModel (k_model (l_core l)));
      ARecv j (fun l m => set_tmp i l (model_of l m));
      ASend j (fun l => MImp (improvement l));
      ARecv j slave_take ].

  Definition master_actions (i j : nat) : list act :=
    [ ARecv j (fun l m => set_tmp i l (model_of l m));
      ASend j (fun l => MModel (k_model (l_core l)));
      ARecv j (fun l m => set_ci l (imp_of l m));
      ALocal do_draw;
      ASend j (fun l => if accept l then MModel (k_model (l_core l)) else MModel (l_tmp l));
      ALocal master_take ].

  (* the exchange as a function of the two local states (slave, master) *)
  Definition exch (s m : nat) (a b : lst) : lst * lst :=
    let b1 := set_tmp m b (k_model (l_core a)) in
    let a2 := set_tmp s a (k_model (l_core b1)) in
    let b3 := set_ci b1 (improvement a2) in
    let b4 := do_draw b3 in
    let msg5 := if accept b4 then MModel (k_model (l_core b4)) else MModel (l_tmp b4) in
    (slave_take a2 msg5, master_take b4).

  (* ---- schedule: rows of (slave, master) pairs ---- *)
  Definition row := list (nat * nat).

  Fixpoint role (r : row) (i : nat) : option (bool * nat) :=    (* (is master, partner) *)
    match r with
    | [] => None
    | (s, m) :: rest => if Nat.eqb i s then Some (false, m) else if Nat.eqb i m then Some (true, s) else role rest i
    end.

  Variable sched : list row.
  Variable I : nat.                        (* exchange interval, >= 1 *)
  Variable exchange : bool.

  (* exchange_schedule[int(p / I), :] -- None is the IndexError of a schedule with too few rows *)
  Definition row_at (p : nat) : option row :=
    if exchange && Nat.eqb (p mod I) 0 then nth_error sched (p / I) else Some [].
  Definition row_of (p : nat) : row := match row_at p with Some r => r | None => [] end.

  (* a chain that raised never sends or receives again: it waits on a queue nobody writes to *)
  Definition crash (i : nat) : list act := [ARecv i (fun l _ => l)].

  Definition comm (i p : nat) : list act :=
    match row_at p with
    | None => crash i
    | Some r =>
        match role r i with
        | Some (false, j) => slave_actions i j
        | Some (true, j) => master_actions i j
        | None => []
        end
    end.

  Definition do_trans (i p : nat) (l : lst) : lst := set_core l (trans i p (l_core l)).
  Definition do_record (l : lst) : lst :=
    {| l_core := l_core l; l_tmp := l_tmp l; l_tx := l_tx l; l_ci := l_ci l; l_u := l_u l;
       l_out := l_out l ++ [(k_model (l_core l), k_x (l_core l))] |}.

  Definition round_prog (i p : nat) : list act := ALocal (do_trans i p) :: comm i p ++ [ALocal do_record].

  (* program of chain i for the proposals p, p+1, ..., p+k-1 *)
  Fixpoint progs_from (i p k : nat) : list act :=
    match k with O => [] | S k' => round_prog i p ++ progs_from i (S p) k' end.

  Definition init_net (ls : list lst) (P : nat) : net lst msg :=
    {| procs := map (fun il => {| loc := snd il; prog := progs_from (fst il) 0 P |}) (combine (seq 0 (length ls)) ls);
       qs := fun _ _ => [] |}.

  (* ---- the sequential reading of the same run: all transitions, then the pairs of the row in order,
          then all writes ---- *)
  Definition do_pair (ps : list (proc lst msg)) (sm : nat * nat) : list (proc lst msg) :=
    let '(s, m) := sm in
    match nth_error ps s, nth_error ps m with
    | Some a, Some b =>
        let '(la, lb) := exch s m (loc a) (loc b) in
        updp _ _ (updp _ _ ps s {| loc := la; prog := skipn 4 (prog a) |}) m {| loc := lb; prog := skipn 6 (prog b) |}
    | _, _ => ps
    end.

  Definition round_fn (p : nat) (ps : list (proc lst msg)) : list (proc lst msg) :=
    map (adv lst msg) (fold_left do_pair (row_of p) (map (adv lst msg) ps)).

  Fixpoint rounds (p k : nat) (ps : list (proc lst msg)) : list (proc lst msg) :=
    match k with O => ps | S k' => rounds (S p) k' (round_fn p ps) end.

  Definition final_procs (ls : list lst) (P : nat) := rounds 0 P (procs (init_net ls P)).

  (* number of steps of the whole run; c = steps of one exchange (10 with buffered pipes, 6 with synchronous ones) *)
  Fixpoint total_steps (c n p k : nat) : nat :=
    match k with O => 0 | S k' => (n + c * length (row_of p) + n) + total_steps c n (S p) k' end.

  (* well-formed schedule: in every row the chains are distinct and exist *)
  Fixpoint flat (r : row) : list nat := match r with [] => [] | (s, m) :: t => s :: m :: flat t end.
  Definition wf_row (n : nat) (r : row) : Prop := NoDup (flat r) /\ Forall (fun i => i < n) (flat r).
  (* the guard under which the run is defined: every row that is looked up exists and is well formed *)
  Definition sched_ok (n P : nat) : Prop := forall p, p < P -> exists r, row_at p = Some r /\ wf_row n r.
  (* ... and the interval is at least one (p % 0 raises) *)
  Definition run_defined (n P : nat) : Prop := (exchange = true -> 1 <= I) /\ sched_ok n P.

  (* the same guards, computable *)
  Fixpoint nodupb (l : list nat) : bool :=
    match l with [] => true | x :: r => negb (existsb (Nat.eqb x) r) && nodupb r end.
  Definition wf_rowb (n : nat) (r : row) : bool := nodupb (flat r) && forallb (fun i => Nat.ltb i n) (flat r).
  Definition sched_okb (n P : nat) : bool :=
    forallb (fun p => match row_at p with Some r => wf_rowb n r | None => false end) (seq 0 P).
  Definition run_definedb (n P : nat) : bool := (negb exchange || Nat.leb 1 I) && sched_okb n P.

  (* the send / receive events of a program: (is send, partner) *)
  Fixpoint skeleton (l : list act) : list (bool * nat) :=
    match l with
    | [] => []
    | ALocal _ :: r => skeleton r
    | ASend j _ :: r => (true, j) :: skeleton r
    | ARecv j _ :: r => (false, j) :: skeleton r
    end.
End Exchange.

Arguments k_model {N St G}. Arguments k_x {N St G}. Arguments k_rng {N St G}.
Arguments l_core {N St G}. Arguments l_tmp {N St G}. Arguments l_tx {N St G}. Arguments l_ci {N St G}.
Arguments l_u {N St G}. Arguments l_out {N St G}.
