(* ParallelSampleSMP (C20, C12): routing of per-chain arguments, and the per-chain loop with an optional
   exchange section.  With exchange disabled the loop is literally the sequential loop of Sampler.v. *)
From Coq Require Import List Bool Arith.
From HV Require Import Num Integrators Sampler.
Import ListNotations.

Section Routing.
  Variables (M K : Type).          (* initial models, keyword-argument dictionaries *)

  Inductive shared_or_list (A : Type) := Shared (a : A) | PerChain (l : list A).
  Arguments Shared {A}. Arguments PerChain {A}.

  Definition pick {A} (s : shared_or_list A) (i : nat) (d : A) : A :=
    match s with Shared a => a | PerChain l => nth i l d end.

  (* kwargs: None -> empty dictionary for every chain *)
  Definition route (initial_model : shared_or_list M) (kwargs : option (shared_or_list K)) (empty : K)
             (dm : M) (i : nat) : M * K :=
    (pick initial_model i dm, match kwargs with None => empty | Some k => pick k i empty end).
End Routing.

Arguments Shared {A}. Arguments PerChain {A}.

Section Loop.
  Context {N : NumOps}.
  Notation V := (@vec N).
  Variables (misfit : V -> T N) (grad : V -> V) (corr : V -> V -> V * V) (kin : V -> T N)
            (kgrad genmom : V -> V) (expf : T N -> T N) (powf : nat -> T N).

  (* the per-chain loop of _sample_loop: after the transition of proposal i an exchange action may
     replace the chain state (parallel tempering); `exch = None` is exchange_interval = None *)
  Fixpoint par_loop (sm : @sampler N) (t : nat) (exch : option (nat -> @st N -> @st N)) (i : nat) (s : @st N) (evs : list (@ev N))
    : @st N * list (V * T N) * list bool :=
    match evs with
    | [] => (s, [], [])
    | e :: evs' =>
        let '(s1, b) := trans misfit grad corr kin kgrad genmom expf powf sm i s e in
        let s2 := match exch with None => s1 | Some x => x i s1 end in
        let '(sf, cols, bs) := par_loop sm t exch (S i) s2 evs' in
        (sf, (if Nat.eqb (i mod t) 0 then column s2 :: cols else cols), b :: bs)
    end.
End Loop.
