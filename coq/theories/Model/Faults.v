(* Fault model of the sampling loop (C08): a run is stopped by a KeyboardInterrupt or another
   exception raised at a call boundary, at the entry/exit of the sample store, or by the
   max_time check after a proposal.  The try/except/finally block of _sample_loop and the
   metadata arithmetic of _close_sampler are transcribed; the transitions are those of Sampler.v. *)
From Coq Require Import List Bool ZArith Arith Lia.
From HV Require Import Num Integrators Sampler.
Import ListNotations.

Inductive fkind := FInterrupt | FTimeout | FExn (e : nat) | FBase (e : nat).
Inductive outcome := Returned | Raised (e : nat).

Inductive fsite :=
| InCall (k : nat)         (* raised inside the k-th external call of the run (0 = initial misfit) *)
| AppendEntry (i : nat)    (* raised on entry of samples.append in proposal i *)
| AppendExit (i : nat)     (* raised on exit of samples.append in proposal i *)
| AfterProposal (i : nat). (* the time check at the end of proposal i *)

(* except KeyboardInterrupt: current_proposal -= 1 / time-out: pass /
   anything else: current_proposal -= 1; raise  -- then `finally` closes the sampler *)
Definition handler (f : fkind) (cp : Z) : Z * outcome :=
  match f with
  | FInterrupt => ((cp - 1)%Z, Returned)
  | FTimeout => (cp, Returned)
  | FExn e => ((cp - 1)%Z, Raised e)
  | FBase e => ((cp - 1)%Z, Raised e)
  end.

(* _close_sampler: acceptance_rate = accepted / max(current_proposal + 1, 1) *)
Definition rate_den (cp : Z) : Z := Z.max (cp + 1) 1.

Section Faults.
  Context {N : NumOps}.
  Notation V := (@vec N).
  Variables (misfit : V -> T N) (grad : V -> V) (corr : V -> V -> V * V) (kin : V -> T N)
            (kgrad genmom : V -> V) (expf : T N -> T N) (powf : nat -> T N).
  Notation trans := (trans misfit grad corr kin kgrad genmom expf powf).
  Notation run := (run misfit grad corr kin kgrad genmom expf powf).

  (* proposals that are complete before external call number k is made *)
  Fixpoint completed_before (sm : @sampler N) (i : nat) (s : @st N) (evs : list (@ev N)) (k : nat) : nat :=
    match evs with
    | [] => 0
    | e :: evs' =>
        let s1 := fst (trans sm i s e) in
        if Nat.leb (length (trace s1)) k then S (completed_before sm (S i) s1 evs' k) else 0
    end.

  Definition fault_proposal (sm : @sampler N) (m0 : V) (step0 : T N) (evs : list (@ev N)) (site : fsite) : nat :=
    match site with
    | InCall k => completed_before sm 0 (init_state misfit m0 step0) evs k
    | AppendEntry i | AppendExit i | AfterProposal i => i
    end.

  (* proposals whose store step has been executed when the fault strikes *)
  Definition stored_upto sm m0 step0 evs (site : fsite) : nat :=
    match site with
    | InCall _ | AppendEntry _ => fault_proposal sm m0 step0 evs site
    | AppendExit i | AfterProposal i => S i
    end.

  Record result := { r_cols : list (V * T N); r_outcome : outcome; r_cp : Z; r_acc : nat }.

  Definition run_faulty sm (t : nat) m0 step0 evs (site : fsite) (f : fkind) : result :=
    let n := stored_upto sm m0 step0 evs site in
    let r := run sm t m0 step0 (firstn n evs) in
    let '(cp, out) := handler f (Z.of_nat (fault_proposal sm m0 step0 evs site)) in
    {| r_cols := snd (fst r); r_outcome := out; r_cp := cp; r_acc := acc (fst (fst r)) |}.
End Faults.
