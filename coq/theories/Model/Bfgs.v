(* History machine of the adaptive BFGS mass matrix (C03): which metric (version) the momentum
   factor LTinv and the backup belong to, over any history of in-trajectory updates, acceptances
   and rejections.  Metric values are abstracted to version numbers: a successful update with
   s.y > 0 creates a fresh version. *)
From Coq Require Import List Bool Arith Lia.
Import ListNotations.

Inductive bop :=
| Update (curv_pos chol_ok : bool)   (* _update: s.y > 0 ?  Cholesky of the new metric succeeds ? *)
| Accept
| Reject.

Record bstate := {
  minv : nat;        (* version of the current inverse metric Minv *)
  lt_of : nat;       (* version of the metric whose factor LTinv currently is *)
  bk_minv : nat;     (* backup: metric version at the last save *)
  bk_lt : nat;       (* backup: factor version at the last save *)
  refp : nat;        (* version of the reference pair (m, g) the next update takes its differences from *)
  bk_ref : nat;      (* backup: reference pair at the last save *)
  fresh : nat
}.

Definition binit : bstate := {| minv := 0; lt_of := 0; bk_minv := 0; bk_lt := 0; refp := 0; bk_ref := 0; fresh := 1 |}.

Definition bstep (s : bstate) (o : bop) : bstate :=
  match o with
  | Update pos ok =>
      let cand := if pos then fresh s else minv s in
      let fr := S (fresh s) in
      (* every update moves the reference pair to the point it was called with, curvature or not *)
      if ok then {| minv := cand; lt_of := cand; bk_minv := bk_minv s; bk_lt := bk_lt s; refp := fresh s; bk_ref := bk_ref s; fresh := fr |}
      else (* LinAlgError: metric and reference pair restored to their values before this update, factor untouched *)
        {| minv := minv s; lt_of := lt_of s; bk_minv := bk_minv s; bk_lt := bk_lt s; refp := refp s; bk_ref := bk_ref s; fresh := fr |}
  | Accept => {| minv := minv s; lt_of := lt_of s; bk_minv := minv s; bk_lt := lt_of s; refp := refp s; bk_ref := refp s; fresh := fresh s |}
  | Reject => {| minv := bk_minv s; lt_of := bk_lt s; bk_minv := bk_minv s; bk_lt := bk_lt s; refp := bk_ref s; bk_ref := bk_ref s; fresh := fresh s |}
  end.

Definition brun (ops : list bop) : bstate := fold_left bstep ops binit.

(* the factor used by generate_momentum belongs to the metric used by kinetic_energy *)
Definition consistent (s : bstate) : Prop := lt_of s = minv s.
