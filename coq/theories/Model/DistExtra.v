(* Real-valued models of LinearMatrix (C15) and SourceLocation2D/3D (C17). *)
From Coq Require Import Reals List.
From HV Require Import Dist.
Import ListNotations.
Open Scope R_scope.

(* ---------- LinearMatrix: 1/2 (G m - d)^T W (G m - d), W = inverse data covariance ---------- *)
Definition transpose (n : nat) (M : list (list R)) : list (list R) :=   (* n = number of columns *)
  map (fun k => map (fun row => nth k row 0) M) (seq 0 n).

Definition lin_residual (G : list (list R)) (d x : list R) : list R := map2R Rminus (matvec G x) d.
Definition lin_misfit (G : list (list R)) (d : list R) (W : list (list R)) (x : list R) : R :=
  let r := lin_residual G d x in / 2 * dotR r (matvec W r).
Definition lin_gradient (G : list (list R)) (d : list R) (W : list (list R)) (x : list R) : list R :=
  matvec (transpose (length x) G) (matvec W (lin_residual G d x)).
Definition lin_forward (G : list (list R)) (x : list R) : list R := matvec G x.

(* premultiplied form used by the code: 1/2 (m^T (GtWG m - 2 GtWd) + dtWd) *)
Definition lin_misfit_premult (GtG : list (list R)) (Gtd : list R) (dtd : R) (x : list R) : R :=
  / 2 * (dotR x (map2R Rminus (matvec GtG x) (map (Rmult 2) Gtd)) + dtd).

(* ---------- SourceLocation: events (x, y, z, T), stations (rx, ry, rz), data with optional gaps ---------- *)
Definition dist3 (e s : R * R * R) : R :=
  let '(x, y, z) := e in let '(rx, ry, rz) := s in sqrt (sq (x - rx) + sq (y - ry) + sq (z - rz)).

Definition tt (e : R * R * R) (T v : R) (s : R * R * R) : R := T + dist3 e s / v.

(* one datum: observed time (None = missing pick) and its standard deviation *)
Definition datum_misfit (e : R * R * R) (T v : R) (s : R * R * R) (ob : option R) (sd : R) : R :=
  match ob with Some o => / 2 * sq ((o - tt e T v s) / sd) | None => 0 end.

Fixpoint event_misfit (e : R * R * R) (T v : R) (stations : list (R * R * R)) (obs : list (option R)) (sds : list R) : R :=
  match stations, obs, sds with
  | s :: ss, o :: os, sd :: sdr => datum_misfit e T v s o sd + event_misfit e T v ss os sdr
  | _, _, _ => 0
  end.

(* events: ((x,y,z),T) with their observation rows *)
Fixpoint src_misfit (events : list ((R * R * R) * R)) (v : R) (stations : list (R * R * R))
         (obs : list (list (option R))) (sds : list (list R)) : R :=
  match events, obs, sds with
  | (e, T) :: es, o :: os, sd :: sdr => event_misfit e T v stations o sd + src_misfit es v stations os sdr
  | _, _, _ => 0
  end.

(* gradient pieces of one datum: d/dx, d/dy, d/dz, d/dT, d/dv *)
Definition datum_grad (e : R * R * R) (T v : R) (s : R * R * R) (ob : option R) (sd : R) : R * R * R * R * R :=
  match ob with
  | None => (0, 0, 0, 0, 0)
  | Some o =>
      let '(x, y, z) := e in let '(rx, ry, rz) := s in
      let d := dist3 e s in
      let w := (tt e T v s - o) / sq sd in
      (w * ((x - rx) / (v * d)), w * ((y - ry) / (v * d)), w * ((z - rz) / (v * d)), w, w * (- d / (v * v)))
  end.

Definition add5 (a b : R * R * R * R * R) : R * R * R * R * R :=
  let '(a1, a2, a3, a4, a5) := a in let '(b1, b2, b3, b4, b5) := b in (a1 + b1, a2 + b2, a3 + b3, a4 + b4, a5 + b5).

Fixpoint event_grad (e : R * R * R) (T v : R) (stations : list (R * R * R)) (obs : list (option R)) (sds : list R) : R * R * R * R * R :=
  match stations, obs, sds with
  | s :: ss, o :: os, sd :: sdr => add5 (datum_grad e T v s o sd) (event_grad e T v ss os sdr)
  | _, _, _ => (0, 0, 0, 0, 0)
  end.

(* parameter layout: x, [y,] z, T per event, followed by the optional velocity *)
Fixpoint src_gradient (three_d : bool) (events : list ((R * R * R) * R)) (v : R) (stations : list (R * R * R))
         (obs : list (list (option R))) (sds : list (list R)) : list R * R :=
  match events, obs, sds with
  | (e, T) :: es, o :: os, sd :: sdr =>
      let '(gx, gy, gz, gT, gv) := event_grad e T v stations o sd in
      let '(rest, gvr) := src_gradient three_d es v stations os sdr in
      ((if three_d then [gx; gy; gz; gT] else [gx; gz; gT]) ++ rest, gv + gvr)
  | _, _, _ => ([], 0)
  end.
