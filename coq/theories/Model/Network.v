(* A Kahn-style process network (C12): sequential processes with a fixed program of local actions,
   sends and (blocking) receives over one FIFO queue per ordered pair of processes.  The chains of
   ParallelSampleSMP are an instance (Model/Exchange.v): their communication pattern is fixed by the
   pre-communicated exchange schedule and does not depend on data. *)
From Coq Require Import List Bool Arith Lia FunctionalExtensionality.
Import ListNotations.

Section Net.
  Variables (L M : Type).      (* local states, messages *)
  Variable cap : option nat.   (* capacity of every queue, in messages (a full queue blocks the sender); None = unbounded *)

  Inductive action :=
  | ALocal (f : L -> L)
  | ASend (dst : nat) (g : L -> M)
  | ARecv (src : nat) (h : L -> M -> L).

  Record proc := { loc : L; prog : list action }.
  Definition queues := nat -> nat -> list M.       (* queue src dst, oldest message first *)
  Record net := { procs : list proc; qs : queues }.

  Definition updq (q : queues) (a b : nat) (v : list M) : queues :=
    fun x y => if Nat.eqb x a && Nat.eqb y b then v else q x y.

  Fixpoint updp (ps : list proc) (i : nat) (p : proc) : list proc :=
    match ps, i with
    | [], _ => []
    | _ :: r, O => p :: r
    | x :: r, S j => x :: updp r j p
    end.

  Definition room (q : list M) : bool :=
    match cap with None => true | Some c => Nat.ltb (length q) c end.

  (* process i executes its next action, if it can *)
  Definition fire (s : net) (i : nat) : option net :=
    match nth_error (procs s) i with
    | None => None
    | Some p =>
        match prog p with
        | [] => None
        | ALocal f :: r => Some {| procs := updp (procs s) i {| loc := f (loc p); prog := r |}; qs := qs s |}
        | ASend j g :: r =>
            if room (qs s i j)
            then Some {| procs := updp (procs s) i {| loc := loc p; prog := r |};
                         qs := updq (qs s) i j (qs s i j ++ [g (loc p)]) |}
            else None
        | ARecv j h :: r =>
            match qs s j i with
            | [] => None
            | m :: rest => Some {| procs := updp (procs s) i {| loc := h (loc p) m; prog := r |};
                                   qs := updq (qs s) j i rest |}
            end
        end
    end.

  Definition step (s : net) (i : nat) (t : net) : Prop := fire s i = Some t.
  Definition finished (s : net) : Prop := Forall (fun p => prog p = []) (procs s).
  Definition terminal (s : net) : Prop := forall i t, ~ step s i t.

  (* synchronous (rendezvous) pipes -- a message larger than any buffer: a send and the matching receive
     happen together, as one step of the sender; the queues are not used *)
  Definition sfire (s : net) (i : nat) : option net :=
    match nth_error (procs s) i with
    | None => None
    | Some p =>
        match prog p with
        | [] => None
        | ALocal f :: r => Some {| procs := updp (procs s) i {| loc := f (loc p); prog := r |}; qs := qs s |}
        | ASend j g :: r =>
            if Nat.eqb i j then None else
            match nth_error (procs s) j with
            | Some pj =>
                match prog pj with
                | ARecv k h :: rj =>
                    if Nat.eqb k i
                    then Some {| procs := updp (updp (procs s) i {| loc := loc p; prog := r |}) j
                                               {| loc := h (loc pj) (g (loc p)); prog := rj |};
                                 qs := qs s |}
                    else None
                | _ => None
                end
            | None => None
            end
        | ARecv _ _ :: _ => None
        end
    end.
  Definition sstep (s : net) (i : nat) (t : net) : Prop := sfire s i = Some t.

  Inductive path : net -> nat -> net -> Prop :=
  | path0 s : path s 0 s
  | pathS s i t n u : step s i t -> path t n u -> path s (S n) u.

  (* executable scheduler: try the processes in the given order, repeatedly *)
  Section Sched.
    Variable f : net -> nat -> option net.
    Fixpoint try_order_with (s : net) (order : list nat) : option net :=
      match order with
      | [] => None
      | i :: r => match f s i with Some t => Some t | None => try_order_with s r end
      end.

    Fixpoint run_sched_with (fuel : nat) (order : list nat) (s : net) : net * nat :=
      match fuel with
      | O => (s, 0)
      | S k => match try_order_with s order with
               | None => (s, 0)
               | Some t => let '(u, n) := run_sched_with k order t in (u, S n)
               end
      end.
  End Sched.
  Definition try_order := try_order_with fire.
  Definition run_sched := run_sched_with fire.
  Definition srun_sched := run_sched_with sfire.

  (* a process whose next action is local executes it *)
  Definition adv (pr : proc) : proc :=
    match prog pr with ALocal f :: r => {| loc := f (loc pr); prog := r |} | _ => pr end.

  Definition all_done (s : net) : bool := forallb (fun p => match prog p with [] => true | _ => false end) (procs s).
End Net.

Arguments ALocal {L M}. Arguments ASend {L M}. Arguments ARecv {L M}.
Arguments loc {L M}. Arguments prog {L M}. Arguments procs {L M}. Arguments qs {L M}.
