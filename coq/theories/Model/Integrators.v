(* Model of the HMC integrators of hmclab.Samplers.HMC (C01): each integrator is a straight-line
   program of Drift/Kick instructions; a Drift is followed by the target's corrector, exactly as
   in the code.  Generic in the arithmetic; the oracles kgrad (kinetic_energy_gradient), grad
   (distribution.gradient) and corr (distribution.corrector) are parameters. *)
From Coq Require Import List Bool ZArith.
From HV Require Import Num.
Import ListNotations.

Section Integ.
  Context {N : NumOps} (VO : VecOps N).
  Notation V := (VV VO).

  Inductive instr := Drift (c : T N) | Kick (c : T N).

  Inductive call :=
  | CMisfit (q : V) | CGrad (q : V) | CKGrad (p : V) | CKin (p : V)
  | CCorr (q p : V) | CExp (x : T N) | CGenMom | CAccept | CReject.

  Variable kgrad : V -> V.
  Variable grad : V -> V.
  Variable corr : V -> V -> V * V.

  Definition exec1 (i : instr) (s : V * V * list call) : V * V * list call :=
    let '(q, p, tr) := s in
    match i with
    | Drift c =>
        let q1 := vo_add VO q (vo_scale VO c (kgrad p)) in
        let '(q2, p2) := corr q1 p in
        (q2, p2, CCorr q1 p :: CKGrad p :: tr)
    | Kick c =>
        (q, vo_sub VO p (vo_scale VO c (grad q)), CGrad q :: tr)
    end.

  Definition exec (prog : list instr) (s : V * V * list call) : V * V * list call :=
    fold_left (fun s i => exec1 i s) prog s.

  (* the same semantics without the call trace *)
  Definition step_qp (i : instr) (s : V * V) : V * V :=
    let '(q, p) := s in
    match i with
    | Drift c => corr (vo_add VO q (vo_scale VO c (kgrad p))) p
    | Kick c => (q, vo_sub VO p (vo_scale VO c (grad q)))
    end.
  Definition run_qp (prog : list instr) (s : V * V) : V * V := fold_left (fun s i => step_qp i s) prog s.

  Lemma exec_qp prog : forall q p tr, fst (exec prog (q, p, tr)) = run_qp prog (q, p).
  Proof.
    induction prog as [|i prog IH]; intros q p tr; [reflexivity|].
    unfold exec, run_qp in *. cbn [fold_left]. destruct i as [c|c]; cbn [exec1 step_qp].
    - destruct (corr _ p) as [q2 p2]. apply IH.
    - apply IH.
  Qed.

  (* repetition of a body n times *)
  Fixpoint repeat_prog (n : nat) (body : list instr) : list instr :=
    match n with O => [] | S n' => body ++ repeat_prog n' body end.

  Definition half := div (ofZ 1) (ofZ 2) : T N.

  (* leapfrog: D(0.5 ls) [K ls; D ls]^(n-1) K ls D(0.5 ls) *)
  Definition lf_prog (n : nat) (ls : T N) : list instr :=
    [Drift (mul half ls)] ++ repeat_prog (n - 1) [Kick ls; Drift ls] ++ [Kick ls; Drift (mul half ls)].

  (* three stage: a2 = 1/2 - a1, b2 = 1 - 2 b1, each multiplied by ls *)
  Definition s3_body (a1 b1 ls : T N) : list instr :=
    let a2 := sub half a1 in
    let b2 := sub (ofZ 1) (mul (ofZ 2) b1) in
    let A1 := mul a1 ls in let A2 := mul a2 ls in let B1 := mul b1 ls in let B2 := mul b2 ls in
    [Drift A1; Kick B1; Drift A2; Kick B2; Drift A2; Kick B1; Drift A1].
  Definition s3_prog (a1 b1 : T N) (n : nat) (ls : T N) := repeat_prog n (s3_body a1 b1 ls).

  (* four stage: a3 = 1 - 2 a1 - 2 a2, b2 = 1/2 - b1 *)
  Definition s4_body (a1 a2 b1 ls : T N) : list instr :=
    let a3 := sub (sub (ofZ 1) (mul (ofZ 2) a1)) (mul (ofZ 2) a2) in
    let b2 := sub half b1 in
    let A1 := mul a1 ls in let A2 := mul a2 ls in let A3 := mul a3 ls in
    let B1 := mul b1 ls in let B2 := mul b2 ls in
    [Drift A1; Kick B1; Drift A2; Kick B2; Drift A3; Kick B2; Drift A2; Kick B1; Drift A1].
  Definition s4_prog (a1 a2 b1 : T N) (n : nat) (ls : T N) := repeat_prog n (s4_body a1 a2 b1 ls).

  Inductive integ := LF | S3 (a1 b1 : T N) | S4 (a1 a2 b1 : T N).

  Definition prog_of (ig : integ) (n : nat) (ls : T N) : list instr :=
    match ig with
    | LF => lf_prog n ls
    | S3 a1 b1 => s3_prog a1 b1 n ls
    | S4 a1 a2 b1 => s4_prog a1 a2 b1 n ls
    end.

  (* the randomisation factor (if any) is applied to the step size first, then the whole
     program runs with the scaled step:  local_stepsize = factor * stepsize *)
  Definition local_step (factor : option (T N)) (stepsize : T N) : T N :=
    match factor with Some f => mul f stepsize | None => stepsize end.

  Definition propagate (ig : integ) (n : nat) (stepsize : T N) (factor : option (T N))
             (q p : V) (tr : list call) : V * V * list call :=
    exec (prog_of ig n (local_step factor stepsize)) (q, p, tr).
End Integ.

Arguments Drift {N}. Arguments Kick {N}.
Arguments LF {N}. Arguments S3 {N}. Arguments S4 {N}.
Arguments CMisfit {N VO}. Arguments CGrad {N VO}. Arguments CKGrad {N VO}. Arguments CKin {N VO}.
Arguments CCorr {N VO}. Arguments CExp {N VO}. Arguments CGenMom {N VO}. Arguments CAccept {N VO}. Arguments CReject {N VO}.
