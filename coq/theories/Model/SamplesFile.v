(* Model of hmclab.Samples (write mode with adaptive RAM buffer, read mode with burn-in) for
   both back ends (C10; reused by C07/C08).  Columns are opaque payloads of type A.
   Clock values are `option Z` in units of 1/1024 s (None = NaN, the initial last-append time). *)
From Coq Require Import List Bool ZArith Arith Lia.
Import ListNotations.

Inductive backend := HDF5 | NPY.

Section File.
  Variable A : Type.

  Record wstate := {
    buf : list A;            (* RAM buffer, oldest first *)
    interval : nat;          (* _buffer_interval (always a power of two >= 1) *)
    last : option Z;         (* _last_append_time *)
    file : list A;           (* columns on disk, oldest first *)
    widx : Z;                (* attribute write_index *)
    lws : Z;                 (* attribute last_written_sample *)
    attrs : list (nat * Z);  (* other attributes, newest binding first *)
    closed : bool
  }.

  Definition init_w : wstate :=
    {| buf := []; interval := 1; last := None; file := []; widx := 0; lws := -1; attrs := []; closed := false |}.

  Definition flush (be : backend) (s : wstate) : wstate :=
    match buf s with
    | [] => s
    | _ =>
        let n := Z.of_nat (length (buf s)) in
        let f' := file s ++ buf s in
        {| buf := []; interval := interval s; last := last s; file := f';
           widx := match be with HDF5 => Z.of_nat (length f') | NPY => widx s + n end;
           lws := match be with HDF5 => Z.of_nat (length f') - 1 | NPY => lws s + n end;
           attrs := attrs s; closed := closed s |}
    end.

  (* delta = t1 - last (NaN if last is NaN): doubles below 1 s, halves above 10 s *)
  Definition new_interval (iv : nat) (lastt t1 : option Z) : nat :=
    match lastt, t1 with
    | Some l, Some t =>
        let d := (t - l)%Z in
        if (d <? 1024)%Z then 2 * iv
        else if (10240 <? d)%Z then Nat.max (iv / 2) 1
        else iv
    | _, _ => iv
    end.

  (* returns the new state and the unread rest of the clock script *)
  Definition append (be : backend) (s : wstate) (c : A) (clock : list (option Z)) : wstate * list (option Z) :=
    let b' := buf s ++ [c] in
    if Nat.ltb (interval s) (length b') then
      let '(t1, t2, rest) := match clock with
                             | a :: b :: r => (a, b, r)
                             | [a] => (a, None, [])
                             | [] => (None, None, [])
                             end in
      let s1 := {| buf := b'; interval := new_interval (interval s) (last s) t1; last := t2;
                   file := file s; widx := widx s; lws := lws s; attrs := attrs s; closed := closed s |} in
      (flush be s1, rest)
    else
      ({| buf := b'; interval := interval s; last := last s; file := file s; widx := widx s;
          lws := lws s; attrs := attrs s; closed := closed s |}, clock).

  Definition write_attr (s : wstate) (k : nat) (v : Z) : wstate :=
    {| buf := buf s; interval := interval s; last := last s; file := file s; widx := widx s;
       lws := lws s; attrs := (k, v) :: attrs s; closed := closed s |}.

  Definition close (be : backend) (s : wstate) : wstate :=
    let s1 := flush be s in
    {| buf := buf s1; interval := interval s1; last := last s1; file := file s1; widx := widx s1;
       lws := lws s1; attrs := attrs s1; closed := true |}.

  Inductive op := Append (c : A) | Flush | WriteAttr (k : nat) (v : Z) | Close.

  Definition step_op (be : backend) (sc : wstate * list (option Z)) (o : op) : wstate * list (option Z) :=
    let '(s, clock) := sc in
    match o with
    | Append c => append be s c clock
    | Flush => (flush be s, clock)
    | WriteAttr k v => (write_attr s k v, clock)
    | Close => (close be s, clock)
    end.

  Definition run_ops (be : backend) (ops : list op) (clock : list (option Z)) : wstate * list (option Z) :=
    fold_left (step_op be) ops (init_w, clock).

  (* the columns handed to append, in order *)
  Fixpoint appended (ops : list op) : list A :=
    match ops with
    | [] => []
    | Append c :: r => c :: appended r
    | _ :: r => appended r
    end.

  (* ---- read mode ---- *)
  (* opening with burn-in b: refused when write_index <= b *)
  Definition ropen (s : wstate) (b : nat) : option (list A) :=
    if (widx s <=? Z.of_nat b)%Z then None else Some (skipn b (file s)).

  (* samples.numpy, samples[:, lo:hi], samples.samples / misfits (column-wise they are the same columns) *)
  Definition rnumpy (s : wstate) (b : nat) : list A := skipn b (file s).
  Definition rgetitem (s : wstate) (b lo hi : nat) : list A := firstn (hi - lo) (skipn lo (skipn b (file s))).

  (* combine_samples: concatenation without NaN-containing columns *)
  Definition combine (hasnan : A -> bool) (parts : list (list A)) : list A :=
    filter (fun c => negb (hasnan c)) (concat parts).
End File.

Arguments buf {A}. Arguments interval {A}. Arguments last {A}. Arguments file {A}.
Arguments widx {A}. Arguments lws {A}. Arguments attrs {A}. Arguments closed {A}.
Arguments Append {A}. Arguments Flush {A}. Arguments WriteAttr {A}. Arguments Close {A}.
