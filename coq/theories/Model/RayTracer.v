(* Model of the down-going ray of hmclab.Distributions.LayeredRayTracing2D._tracerays (C18), as it
   is used by the forward model: source at (x0, z0) on top of the first layer, keep_upgoing = False.
   Angles are carried as (sin, cos): sin_k = v_k * p (Snell), cos_k = sqrt(1 - sin_k^2); the code's
   arcsin followed by sin/cos is the same value (sin_asin, cos_asin).  Layers = (bottom depth, velocity). *)
From Coq Require Import List Bool ZArith.
From HV Require Import Num.
Import ListNotations.

Section Ray.
  Context {N : NumOps}.
  Notation R := (T N).

  Record seg := { g_layer : nat; g_x0 : R; g_z0 : R; g_x1 : R; g_z1 : R; g_len : R; g_vel : R; g_sin : R }.

  Inductive outcome := Reached | Turned | OutBottom.

  Record ray := { r_out : outcome; r_x : R; r_z : R; r_tt : R; r_dist : R; r_segs : list seg }.   (* segments newest first *)

  Definition seglen (x0 z0 x1 z1 : R) : R :=
    nsqrt (add (mul (sub x1 x0) (sub x1 x0)) (mul (sub z1 z0) (sub z1 z0))).

  Fixpoint trace (layers : list (R * R)) (k : nat) (p X x z tt dist : R) (segs : list seg) : ray :=
    match layers with
    | [] => {| r_out := OutBottom; r_x := x; r_z := z; r_tt := tt; r_dist := dist; r_segs := segs |}
    | (bot, v) :: rest =>
        let s := mul v p in
        if leb (ofZ 1) s then {| r_out := Turned; r_x := x; r_z := z; r_tt := tt; r_dist := dist; r_segs := segs |}
        else
          let c := nsqrt (sub (ofZ 1) (mul s s)) in
          let m := div c s in
          let xr := div (sub (add bot (mul m x)) z) m in
          if ltb X xr then
            let zend := add (sub (mul m X) (mul m x)) z in
            let len := seglen x z X zend in
            {| r_out := Reached; r_x := X; r_z := zend; r_tt := add tt (div len v); r_dist := add dist len;
               r_segs := {| g_layer := k; g_x0 := x; g_z0 := z; g_x1 := X; g_z1 := zend; g_len := len; g_vel := v; g_sin := s |} :: segs |}
          else
            let len := seglen x z xr bot in
            trace rest (S k) p X xr bot (add tt (div len v)) (add dist len)
                  ({| g_layer := k; g_x0 := x; g_z0 := z; g_x1 := xr; g_z1 := bot; g_len := len; g_vel := v; g_sin := s |} :: segs)
    end.

  (* ray parameter from the take-off sine and the velocity of the first layer *)
  Definition trace_from (layers : list (R * R)) (sin0 X : R) : ray :=
    match layers with
    | [] => {| r_out := OutBottom; r_x := ofZ 0; r_z := ofZ 0; r_tt := ofZ 0; r_dist := ofZ 0; r_segs := [] |}
    | (_, v0) :: _ => trace layers 0 (div sin0 v0) X (ofZ 0) (ofZ 0) (ofZ 0) (ofZ 0) []
    end.
End Ray.
