(* C08: the library's interrupting wrapper (EvaluationLimiter_ClassConstructor).  A counter of target
   evaluations; a call made when the counter exceeds the limit raises KeyboardInterrupt instead of
   evaluating, and puts the counter back to zero. *)
From Coq Require Import List Bool Arith.
Import ListNotations.

Record limiter := { lim_limit : nat; lim_gcount : nat; lim_throw : bool; lim_evals : nat }.

(* limit = 0 switches the interrupt off *)
Definition lim_make (limit gcount : nat) (throw : bool) : limiter :=
  {| lim_limit := limit; lim_gcount := gcount; lim_throw := (if Nat.eqb limit 0 then false else throw); lim_evals := 0 |}.

Inductive lim_op := LMisfit | LGradient.

(* (new state, raised?) *)
Definition lim_step (s : limiter) (o : lim_op) : limiter * bool :=
  if lim_throw s && Nat.ltb (lim_limit s) (lim_evals s)
  then ({| lim_limit := lim_limit s; lim_gcount := lim_gcount s; lim_throw := lim_throw s; lim_evals := 0 |}, true)
  else ({| lim_limit := lim_limit s; lim_gcount := lim_gcount s; lim_throw := lim_throw s;
           lim_evals := lim_evals s + (match o with LMisfit => 1 | LGradient => lim_gcount s end) |}, false).

Fixpoint lim_run (s : limiter) (ops : list lim_op) : limiter * list bool :=
  match ops with
  | [] => (s, [])
  | o :: r => let '(s1, b) := lim_step s o in let '(s2, bs) := lim_run s1 r in (s2, b :: bs)
  end.
