(* Model of the bounds handling of hmclab.Distributions._AbstractDistribution (C06, C01):
   misfit_bounds, corrector (mirror + momentum sign flip), update_bounds (atomic), and the
   collapsed bounds of AdditiveDistribution.  Generic in the arithmetic; executable on binary64. *)
From Coq Require Import List Bool ZArith.
From HV Require Import Num.
Import ListNotations.

Section Bounds.
  Context {N : NumOps}.
  Notation V := (@vec N).

  (* lower correction: coordinates[too_low] += 2*(lower - coordinates); momentum[too_low] *= -1 *)
  Fixpoint reflect_low (l q p : V) : V * V :=
    match l, q, p with
    | li :: l', qi :: q', pi :: p' =>
        let '(qs, ps) := reflect_low l' q' p' in
        if ltb qi li then (add qi (mul (ofZ 2) (sub li qi)) :: qs, mul pi (ofZ (-1)) :: ps)
        else (qi :: qs, pi :: ps)
    | _, _, _ => ([], [])
    end.

  Fixpoint reflect_high (u q p : V) : V * V :=
    match u, q, p with
    | ui :: u', qi :: q', pi :: p' =>
        let '(qs, ps) := reflect_high u' q' p' in
        if ltb ui qi then (add qi (mul (ofZ 2) (sub ui qi)) :: qs, mul pi (ofZ (-1)) :: ps)
        else (qi :: qs, pi :: ps)
    | _, _, _ => ([], [])
    end.

  Definition corrector (lo hi : option V) (q p : V) : V * V :=
    let '(q1, p1) := match lo with Some l => reflect_low l q p | None => (q, p) end in
    match hi with Some u => reflect_high u q1 p1 | None => (q1, p1) end.

  Fixpoint any2 (f : T N -> T N -> bool) (a b : V) : bool :=
    match a, b with x :: a', y :: b' => f x y || any2 f a' b' | _, _ => false end.

  (* true = outside the box: misfit_bounds returns +inf *)
  Definition outside (lo hi : option V) (q : V) : bool :=
    match lo with Some l => any2 ltb q l | None => false end
    || match hi with Some u => any2 (fun x y => ltb y x) q u | None => false end.

  (* update_bounds(lower, upper) with the shape / compatibility checks; None = rejected (bounds unchanged) *)
  Definition update_bounds (dim : nat) (old : option V * option V) (lo hi : option V)
    : (option V * option V) * bool :=
    let shape_ok := match lo with Some l => Nat.eqb (length l) dim | None => true end
                    && match hi with Some u => Nat.eqb (length u) dim | None => true end in
    let compatible := match lo, hi with Some l, Some u => negb (any2 leb u l) | _, _ => true end in
    if shape_ok && compatible then ((lo, hi), true) else (old, false).

  (* AdditiveDistribution.collapse_bounds: elementwise max of lower, min of upper bounds *)
  Definition vmax (a b : V) : V := map2 (fun x y => if ltb x y then y else x) a b.
  Definition vmin (a b : V) : V := map2 (fun x y => if ltb y x then y else x) a b.
  Definition merge_lo (acc b : option V) : option V :=
    match b, acc with Some l, Some a => Some (vmax a l) | Some l, None => Some l | None, a => a end.
  Definition merge_hi (acc b : option V) : option V :=
    match b, acc with Some u, Some a => Some (vmin a u) | Some u, None => Some u | None, a => a end.
  Definition collapse (parts : list (option V * option V)) (own : option V * option V) : option V * option V :=
    fold_left (fun acc b => (merge_lo (fst acc) (fst b), merge_hi (snd acc) (snd b))) parts own.

  (* the misfit of a bounded distribution: misfit_bounds(q) + unbounded misfit *)
  Definition inf_or_zero (lo hi : option V) (pinf : T N) (q : V) : T N := if outside lo hi q then pinf else ofZ 0.
End Bounds.
