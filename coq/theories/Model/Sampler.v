(* Model of one Markov transition of hmclab.Samplers.RWMH / HMC, of step-size autotuning and
   of the sampling loop with online thinning (C02, C07, C16; reused by C04, C06, C08, C12, C20).
   Generic in the arithmetic.  External calls are oracle functions; random draws are inputs. *)
From Coq Require Import List Bool ZArith Arith.
From HV Require Import Num Integrators.
Import ListNotations.

Section Sampler.
  Context {N : NumOps}.
  Notation V := (@vec N).
  Notation call := (@call N (ListVec N)).
  Notation CMisfit := (@CMisfit N (ListVec N)).
  Notation CKin := (@CKin N (ListVec N)).
  Notation CExp := (@CExp N (ListVec N)).
  Notation CGenMom := (@CGenMom N (ListVec N)).
  Notation CAccept := (@CAccept N (ListVec N)).
  Notation CReject := (@CReject N (ListVec N)).

  Variable misfit : V -> T N.
  Variable grad : V -> V.
  Variable corr : V -> V -> V * V.
  Variable kin : V -> T N.
  Variable kgrad : V -> V.
  Variable genmom : V -> V.         (* generate_momentum as a function of the normal draw *)
  Variable expf : T N -> T N.       (* numpy.exp *)
  Variable powf : nat -> T N.       (* (i+1) ** (-learning_rate) *)

  Record tuning := { t_on : bool; t_target : T N; t_min : T N }.

  Record st := {
    cur : V; cur_x : T N; acc : nat; step : T N;
    hist_a : list (T N); hist_s : list (T N);   (* newest first *)
    trace : list call                           (* newest first *)
  }.

  Record ev := { e_z : V; e_factor : option (T N); e_u : T N }.

  (* Python's min(a, 1) and max(s, minimal): the first argument unless the second is smaller/larger *)
  Definition pymin (a b : T N) : T N := if ltb b a then b else a.
  Definition pymax (a b : T N) : T N := if ltb a b then b else a.

  Definition autotune_step (tu : tuning) (i : nat) (a : T N) (s : T N) : T N :=
    let a' := if isnan a then ofZ 0 else a in
    let s1 := sub s (mul (powf i) (sub (t_target tu) (pymin a' (ofZ 1)))) in
    if leb s1 (ofZ 0) then pymax s1 (t_min tu) else s1.

  Definition tune (tu : tuning) (i : nat) (a : T N) (s : st) : st :=
    if t_on tu then
      {| cur := cur s; cur_x := cur_x s; acc := acc s; step := autotune_step tu i a (step s);
         hist_a := a :: hist_a s; hist_s := step s :: hist_s s; trace := trace s |}
    else s.

  (* the Metropolis decision shared by both samplers: accept iff u < a, i.e. `a > u` in the code *)
  Definition accepts (a u : T N) : bool := ltb u a.

  (* ---- RWMH ---- *)
  Record rwmh_cfg := { r_nsp : V; r_stepvec : option V; r_tune : tuning }.

  Definition rwmh_coefs (c : rwmh_cfg) (s : T N) : V :=
    match r_stepvec c with Some v => v | None => map (mul s) (r_nsp c) end.

  Definition rwmh_proposal (c : rwmh_cfg) (s : st) (z : V) : V :=
    vadd (cur s) (vmul (rwmh_coefs c (step s)) z).

  Definition rwmh_step (c : rwmh_cfg) (i : nat) (s : st) (e : ev) : st * bool :=
    let prop := rwmh_proposal c s (e_z e) in
    let px := misfit prop in
    let d := sub (cur_x s) px in
    let a := expf d in
    let s1 := tune (r_tune c) i a s in
    let tr := CExp d :: CMisfit prop :: trace s in
    if accepts a (e_u e) then
      ({| cur := prop; cur_x := px; acc := S (acc s1); step := step s1;
          hist_a := hist_a s1; hist_s := hist_s s1; trace := tr |}, true)
    else
      ({| cur := cur s; cur_x := cur_x s; acc := acc s1; step := step s1;
          hist_a := hist_a s1; hist_s := hist_s s1; trace := tr |}, false).

  (* ---- HMC ---- *)
  Record hmc_cfg := { h_integ : @integ N; h_steps : nat; h_tune : tuning }.

  Definition hmc_energies (cq cp pq pp : V) : T N * T N * T N * T N :=
    (misfit cq, kin cp, misfit pq, kin pp).

  Definition hmc_step (c : hmc_cfg) (i : nat) (s : st) (e : ev) : st * bool :=
    let p0 := genmom (e_z e) in
    let '(pq, pp, tr1) := propagate (ListVec N) kgrad grad corr (h_integ c) (h_steps c) (step s) (e_factor e)
                                    (cur s) p0 (CGenMom :: trace s) in
    let cx := misfit (cur s) in
    let ck := kin p0 in
    let ch := add cx ck in
    let px := misfit pq in
    let pk := kin pp in
    let ph := add px pk in
    let d := sub ch ph in
    let a := expf d in
    let s1 := tune (h_tune c) i a s in
    let tr := CExp d :: CKin pp :: CMisfit pq :: CKin p0 :: CMisfit (cur s) :: tr1 in
    if accepts a (e_u e) then
      ({| cur := pq; cur_x := px; acc := S (acc s1); step := step s1;
          hist_a := hist_a s1; hist_s := hist_s s1; trace := CAccept :: tr |}, true)
    else
      ({| cur := cur s; cur_x := cx; acc := acc s1; step := step s1;
          hist_a := hist_a s1; hist_s := hist_s s1; trace := CReject :: tr |}, false).

  (* ---- the loop with online thinning ---- *)
  Inductive sampler := Rw (c : rwmh_cfg) | Hm (c : hmc_cfg).

  Definition trans (sm : sampler) (i : nat) (s : st) (e : ev) : st * bool :=
    match sm with Rw c => rwmh_step c i s e | Hm c => hmc_step c i s e end.

  Definition column (s : st) : V * T N := (cur s, cur_x s).

  (* returns final state, stored columns (oldest first) and accept decisions *)
  Fixpoint run_from (sm : sampler) (t : nat) (i : nat) (s : st) (evs : list ev)
    : st * list (V * T N) * list bool :=
    match evs with
    | [] => (s, [], [])
    | e :: evs' =>
        let '(s1, b) := trans sm i s e in
        let '(sf, cols, bs) := run_from sm t (S i) s1 evs' in
        (sf, (if Nat.eqb (i mod t) 0 then column s1 :: cols else cols), b :: bs)
    end.

  Definition init_state (m0 : V) (stepsize : T N) : st :=
    {| cur := m0; cur_x := misfit m0; acc := 0; step := stepsize; hist_a := []; hist_s := [];
       trace := [CMisfit m0] |}.

  Definition run (sm : sampler) (t : nat) (m0 : V) (stepsize : T N) (evs : list ev) :=
    run_from sm t 0 (init_state m0 stepsize) evs.
End Sampler.
