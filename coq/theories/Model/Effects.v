(* Effect table of hmclab (C09): for every function the ambient sources it reads and the functions it
   may call.  The table itself is GENERATED from the source on every run (coq/gen/Effects_gen.v);
   this file holds the vocabulary, the policy and the soundness theorem of the checker. *)
From Coq Require Import List Bool Arith Lia.
Import ListNotations.

Inductive effect :=
| SelfRng            (* the sampler's / object's own generator (self.rng, mass_matrix.rng) *)
| ParamRng           (* a generator passed as argument `rng` *)
| GlobalNumpyRandom  (* numpy.random.<fn>: NumPy's global stream *)
| FreshUnseeded      (* numpy.random.default_rng() with no seed *)
| Clock.             (* time() / datetime.now() *)

Definition effect_eqb (a b : effect) : bool :=
  match a, b with
  | SelfRng, SelfRng | ParamRng, ParamRng | GlobalNumpyRandom, GlobalNumpyRandom
  | FreshUnseeded, FreshUnseeded | Clock, Clock => true
  | _, _ => false
  end.

Record entry := { fn : nat; effects : list effect; callees : list nat }.

Definition lookup (tbl : list entry) (f : nat) : option entry := find (fun e => Nat.eqb (fn e) f) tbl.
Definition callees_of (tbl : list entry) (f : nat) : list nat :=
  match lookup tbl f with Some e => callees e | None => [] end.
Definition effects_of (tbl : list entry) (f : nat) : list effect :=
  match lookup tbl f with Some e => effects e | None => [] end.

(* reachability in the call graph *)
Inductive reach (tbl : list entry) (roots : list nat) : nat -> Prop :=
| reach_root f : In f roots -> reach tbl roots f
| reach_call f g : reach tbl roots f -> In g (callees_of tbl f) -> reach tbl roots g.

Definition mem (x : nat) (l : list nat) : bool := existsb (Nat.eqb x) l.
Definition has (x : effect) (l : list effect) : bool := existsb (effect_eqb x) l.

(* the checker: a candidate closed set C containing the roots, on which `allowed` holds *)
Definition check (tbl : list entry) (roots C : list nat) (allowed : list effect -> bool) : bool :=
  forallb (fun r => mem r C) roots
  && forallb (fun f => forallb (fun g => mem g C) (callees_of tbl f)) C
  && forallb (fun f => allowed (effects_of tbl f)) C.

(* policy for everything reachable from a sampling transition: randomness only through the object's own
   generator, no clock *)
Definition transition_policy (effs : list effect) : bool :=
  negb (has GlobalNumpyRandom effs) && negb (has FreshUnseeded effs) && negb (has Clock effs).
(* policy for generate(): only the generator passed in *)
Definition generate_policy (effs : list effect) : bool :=
  negb (has GlobalNumpyRandom effs) && negb (has FreshUnseeded effs) && negb (has Clock effs) && negb (has SelfRng effs).
