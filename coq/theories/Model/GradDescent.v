(* Model of hmclab.Optimizers.gradient_descent (C19), generic in the arithmetic. *)
From Coq Require Import List Bool ZArith.
From HV Require Import Num.
Import ListNotations.

Section GD.
  Context {N : NumOps}.
  Variable misfit : @vec N -> T N.
  Variable grad : @vec N -> @vec N.

  Inductive gd_req := ReqMisfit (m : @vec N) | ReqGrad (m : @vec N).

  (* row i of diag(p): p_i at position i, zeros elsewhere; then the dot product with g,
     as in `numpy.diag(1/(diag(g g^T)+reg)) @ g` *)
  Fixpoint diag_row (i : nat) (p : @vec N) (pi : T N) : @vec N :=
    match p with
    | [] => []
    | _ :: p' => match i with
                 | O => pi :: map (fun _ => ofZ 0) p'
                 | S i' => ofZ 0 :: diag_row i' p' pi
                 end
    end.

  Fixpoint rows_from (i : nat) (p rest : @vec N) : list (@vec N) :=
    match rest with
    | [] => []
    | pi :: rest' => diag_row i p pi :: rows_from (S i) p rest'
    end.

  Definition precondition (reg : option (T N)) (g : @vec N) : @vec N :=
    match reg with
    | None => g
    | Some r =>
        let p := map (fun gi => div (ofZ 1) (add (mul gi gi) r)) g in
        map (fun row => vdot row g) (rows_from 0 p p)
    end.

  Record gd_state := { gm : @vec N; gx : T N; gms : list (@vec N); gxs : list (T N);
                       greqs : list gd_req }.

  (* histories and requests are kept newest first *)
  Fixpoint gd_loop (eps : T N) (reg : option (T N)) (mono : bool) (n : nat) (s : gd_state) : gd_state :=
    match n with
    | O => s
    | S n' =>
        let g := precondition reg (grad (gm s)) in
        let m' := vsub (gm s) (vscale eps g) in
        let x' := misfit m' in
        let reqs' := ReqMisfit m' :: ReqGrad (gm s) :: greqs s in
        let stop := {| gm := gm s; gx := gx s; gms := gms s; gxs := gxs s; greqs := reqs' |} in
        if isnan x' || isinf x' then stop
        else if ltb (gx s) x' && mono then stop
        else gd_loop eps reg mono n'
               {| gm := m'; gx := x'; gms := m' :: gms s; gxs := x' :: gxs s; greqs := reqs' |}
    end.

  Definition gd_init (m0 : @vec N) : gd_state :=
    let x0 := misfit m0 in
    {| gm := m0; gx := x0; gms := [m0]; gxs := [x0]; greqs := [ReqMisfit m0] |}.

  Definition gradient_descent (m0 : @vec N) (eps : T N) (iterations : nat)
             (reg : option (T N)) (mono : bool) : gd_state :=
    gd_loop eps reg mono iterations (gd_init m0).
End GD.
