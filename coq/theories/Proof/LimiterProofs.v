From Coq Require Import List Bool Arith Lia.
From HV Require Import Limiter.
Import ListNotations.

(* an interrupt leaves a full budget behind, whichever call raised it *)
Lemma lim_raise_resets s o : snd (lim_step s o) = true -> lim_evals (fst (lim_step s o)) = 0.
Proof. unfold lim_step. destruct (lim_throw s && Nat.ltb (lim_limit s) (lim_evals s)); simpl; [reflexivity|discriminate]. Qed.

(* a call raises exactly when the interrupt is armed and the budget is exceeded; otherwise it is counted *)
Lemma lim_raise_iff s o : snd (lim_step s o) = true <-> (lim_throw s = true /\ lim_limit s < lim_evals s).
Proof.
  unfold lim_step. destruct (lim_throw s) eqn:T; simpl.
  - destruct (Nat.ltb_spec (lim_limit s) (lim_evals s)) as [Hlt|Hge]; simpl.
    + split; auto.
    + split; [discriminate|]. intros [_ H0]. lia.
  - split; [discriminate|]. intros [H0 _]. discriminate.
Qed.

(* after any history: if the last call raised, the next call does not (with a positive limit at least
   limit + 1 further evaluations are possible), so a run started right after an interrupted one gets its first
   evaluation *)
Theorem lim_after_interrupt_next_call_passes s ops o :
  let '(s1, bs) := lim_run s ops in
  last bs false = true -> snd (lim_step s1 o) = false.
Proof.
  revert s. induction ops as [|o1 r IH]; intros s; simpl; [discriminate|].
  destruct (lim_step s o1) as [s1 b] eqn:E1. specialize (IH s1).
  destruct (lim_run s1 r) as [s2 bs] eqn:E2.
  destruct bs as [|b2 bs'].
  - simpl. intros Hb. subst b.
    destruct r; [|simpl in E2; destruct (lim_step s1 l); destruct (lim_run l0 r); discriminate].
    simpl in E2. inversion E2; subst s2.
    assert (H0 : lim_evals s1 = 0) by (rewrite <- (lim_raise_resets s o1); rewrite E1; reflexivity).
    unfold lim_step. rewrite H0. destruct (lim_throw s1); simpl; [|reflexivity].
    destruct (Nat.ltb_spec (lim_limit s1) 0); [lia|reflexivity].
  - intros Hb. apply IH. exact Hb.
Qed.

(* the limit and the settings never change *)
Lemma lim_step_settings s o : lim_limit (fst (lim_step s o)) = lim_limit s /\ lim_gcount (fst (lim_step s o)) = lim_gcount s
  /\ lim_throw (fst (lim_step s o)) = lim_throw s.
Proof. unfold lim_step. destruct (lim_throw s && Nat.ltb (lim_limit s) (lim_evals s)); simpl; auto. Qed.
