(* C15: LinearMatrix.  Residual, premultiplied and Cholesky forms agree; gradient is the derivative. *)
From Coq Require Import Reals List Lia Lra.
From Coquelicot Require Import Coquelicot.
From HV Require Import Dist DistExtra LinAlg DistDeriv AlgebraProofs.
Import ListNotations.
Open Scope R_scope.

Lemma dotR_add_r a b c : length b = length c -> dotR a (vaddR b c) = dotR a b + dotR a c.
Proof. intros H. rewrite (dotR_comm a), dotR_add_l by exact H. rewrite !(dotR_comm a). reflexivity. Qed.

Lemma dotR_scale_r s a c : dotR a (vscaleR s c) = s * dotR a c.
Proof. rewrite (dotR_comm a), dotR_scale_l, (dotR_comm a). reflexivity. Qed.

Lemma dotR_zeros e n : dotR e (repeat 0 n) = 0.
Proof. rewrite dotR_comm. apply dotR_zero_l. Qed.

Lemma map_nth_seq (row : list R) : map (fun k => nth k row 0) (seq 0 (length row)) = row.
Proof.
  induction row as [|a row IH]; [reflexivity|].
  simpl. f_equal. rewrite <- seq_shift, map_map. exact IH.
Qed.

Definition rect (n : nat) (M : list (list R)) : Prop := List.Forall (fun row => length row = n) M.

(* the adjoint relation that defines the transpose: e . (M^T w) = (M e) . w *)
Lemma transpose_adjoint n M : rect n M -> forall w e, length e = n -> length w = length M ->
  dotR e (matvec (transpose n M) w) = dotR (matvec M e) w.
Proof.
  induction 1 as [|row M Hrow HM IH]; intros w e He Hw.
  - destruct w; [|discriminate].
    assert (Z : forall s, matvec (map (fun k : nat => map (fun row : list R => nth k row 0) []) (seq s n)) [] = repeat 0 n).
    { clear. induction n as [|n IHn]; intros s; [reflexivity|]. unfold matvec in *. simpl. f_equal. apply IHn. }
    unfold transpose. rewrite Z, dotR_zeros. reflexivity.
  - destruct w as [|w0 w]; [discriminate|]. simpl in Hw.
    assert (E : matvec (transpose n (row :: M)) (w0 :: w) = vaddR (vscaleR w0 row) (matvec (transpose n M) w)).
    { assert (Er : row = map (fun k => nth k row 0) (seq 0 n)) by (rewrite <- Hrow; symmetry; apply map_nth_seq).
      rewrite Er at 2. unfold transpose, matvec, vaddR, vscaleR. rewrite !map_map.
      generalize (seq 0 n) as l. clear. induction l as [|k l IHl]; simpl; [reflexivity|].
      f_equal; [rewrite dotR_cons; ring|exact IHl]. }
    rewrite E. rewrite dotR_add_r.
    + rewrite dotR_scale_r. rewrite (IH w e He ltac:(lia)). unfold matvec. simpl. rewrite dotR_cons.
      rewrite (dotR_comm e row). ring.
    + unfold vscaleR, matvec, transpose. rewrite !map_length, seq_length. exact Hrow.
Qed.

Lemma nth_transpose_matvec n M w i : rect n M -> length w = length M -> (i < n)%nat ->
  nth i (matvec (transpose n M) w) 0 = dotR (matvec M (unitv n i)) w.
Proof.
  intros Hr Hw Hi. rewrite <- (transpose_adjoint n M Hr w (unitv n i)) by (try apply unitv_length; exact Hw).
  rewrite dotR_unit; [reflexivity| |exact Hi].
  unfold matvec, transpose. rewrite !map_length, seq_length. reflexivity.
Qed.

Lemma minus_as_add a : forall b, length a = length b -> map2R Rminus a b = vaddR a (vscaleR (-1) b).
Proof.
  unfold vaddR, vscaleR. induction a as [|u a IH]; intros [|v b] H; simpl in *; try discriminate; auto.
  f_equal; [ring|apply IH; lia].
Qed.

Lemma dotR_minus_twice x : forall a b, length a = length b ->
  dotR x (map2R Rminus a (map (Rmult 2) b)) = dotR x a - 2 * dotR x b.
Proof.
  induction x as [|x0 x IH]; intros [|u a] [|v b] H; simpl in *; try discriminate; try (unfold dotR; simpl; ring).
  rewrite !dotR_cons, IH by lia. ring.
Qed.

(* ---------- the three algebraic forms of the misfit ---------- *)
Section Forms.
  Variables (G W : list (list R)) (d : list R).
  Variable n : nat.                       (* model dimension *)
  Hypothesis G_rect : rect n G.
  Hypothesis W_sym : symmetricP W (length G).
  Hypothesis d_len : length d = length G.

  Lemma residual_len x : length (lin_residual G d x) = length G.
  Proof. unfold lin_residual. rewrite map2R_length_eq; rewrite matvec_length; auto. Qed.

  (* premultiplied form: given GtG, Gtd, dtd with their defining properties *)
  Variables (GtG : list (list R)) (Gtd : list R) (dtd : R).
  Hypothesis GtG_def : forall x, length x = n -> dotR x (matvec GtG x) = qform W (matvec G x).
  Hypothesis Gtd_def : forall x, length x = n -> dotR x Gtd = dotR (matvec G x) (matvec W d).
  Hypothesis dtd_def : dtd = qform W d.
  Hypothesis GtG_len : length GtG = length Gtd.

  Lemma residual_as_sum x : lin_residual G d x = vaddR (matvec G x) (vscaleR (-1) d).
  Proof. unfold lin_residual. apply minus_as_add. rewrite matvec_length; auto. Qed.

  Theorem premult_eq_residual x : length x = n ->
    lin_misfit_premult GtG Gtd dtd x = lin_misfit G d W x.
  Proof.
    intros Hx. unfold lin_misfit_premult, lin_misfit. destruct W_sym as [HW Hs].
    rewrite residual_as_sum. change (dotR ?v (matvec W ?v)) with (qform W v).
    rewrite qform_expand by (rewrite ?matvec_length; auto).
    rewrite (Hs d (matvec G x)) by (rewrite ?matvec_length; auto).
    rewrite <- (GtG_def x Hx), dtd_def.
    assert (E : dotR x (map2R Rminus (matvec GtG x) (map (Rmult 2) Gtd)) = dotR x (matvec GtG x) - 2 * dotR x Gtd).
    { apply dotR_minus_twice. rewrite matvec_length. exact GtG_len. }
    rewrite E, (Gtd_def x Hx). ring.
  Qed.
End Forms.

(* Cholesky form: W = U^T U  =>  r^T W r = |U r|^2 *)
Theorem cholesky_form U W r : (forall v, length v = length r -> matvec W v = matvec (transpose (length r) U) (matvec U v)) ->
  rect (length r) U -> qform W r = dotR (matvec U r) (matvec U r).
Proof.
  intros HW HU. unfold qform. rewrite HW by reflexivity.
  rewrite (transpose_adjoint (length r) U HU (matvec U r) r eq_refl); [reflexivity|apply matvec_length].
Qed.

(* ---------- gradient = derivative ---------- *)
Lemma matvec_updR G x i xi t : nth_error x i = Some xi ->
  matvec G (updR x i t) = vaddR (matvec G x) (vscaleR (t - xi) (matvec G (unitv (length x) i))).
Proof.
  intros Hx. rewrite (updR_unit x i xi t Hx). rewrite matvec_add by (unfold vscaleR; rewrite map_length, unitv_length; reflexivity).
  rewrite matvec_scale. reflexivity.
Qed.

Theorem linear_gradient_is_derivative G W d x i xi :
  rect (length x) G -> symmetricP W (length G) -> length d = length G -> nth_error x i = Some xi ->
  is_derive (fun t => lin_misfit G d W (upd x i t)) xi (nth i (lin_gradient G d W x) 0).
Proof.
  intros HG [HW Hsym] Hd Hx.
  assert (Hi : (i < length x)%nat) by (eapply nth_error_lt; eauto).
  set (r := lin_residual G d x). set (g := matvec G (unitv (length x) i)).
  assert (Hr : length r = length G) by (unfold r, lin_residual; rewrite map2R_length_eq; rewrite matvec_length; auto).
  assert (Hg : length g = length G) by (unfold g; apply matvec_length).
  apply (is_derive_ext (fun t => / 2 * (qform W r + (t - xi) * (dotR g (matvec W r) + dotR r (matvec W g)) + (t - xi) * (t - xi) * qform W g))).
  { intros t. unfold lin_misfit. rewrite upd_updR.
    assert (E : lin_residual G d (updR x i t) = vaddR r (vscaleR (t - xi) g)).
    { unfold lin_residual. rewrite (matvec_updR G x i xi t Hx). fold g. unfold r, lin_residual.
      assert (L1 : length (matvec G x) = length G) by apply matvec_length.
      revert L1 Hg Hd. generalize (matvec G x) as a. generalize g as b. generalize (length G) as m. clear.
      intros m b a. revert b d m. induction a as [|u a IH]; intros [|v b] [|w d] m L1 Hg Hd; simpl in *; try (subst; discriminate); auto.
      unfold vaddR, vscaleR in *. simpl. f_equal; [ring|]. destruct m; [discriminate|]. apply (IH b d m); lia. }
    rewrite E. change (dotR ?v (matvec W ?v)) with (qform W v).
    rewrite qform_expand by (rewrite ?Hr, ?Hg; auto). reflexivity. }
  evar_last. auto_derive; [exact I|reflexivity].
  rewrite (Hsym r g) by (rewrite ?Hr, ?Hg; reflexivity).
  unfold lin_gradient. rewrite nth_transpose_matvec; [|exact HG|rewrite matvec_length; exact HW|exact Hi].
  fold g. fold r. field.
Qed.
