(* C03, matrix identities (mathcomp): the momentum factor of every mass matrix squares to the matrix
   it reports; the BFGS update keeps the metric symmetric and positive definite when s.y > 0. *)
From mathcomp Require Import all_ssreflect all_algebra.
Set Implicit Arguments. Unset Strict Implicit. Unset Printing Implicit Defensive.
Import GRing.Theory Num.Theory.
Local Open Scope ring_scope.

Section Factor.
  Variable (F : fieldType) (n : nat).
  (* BFGS: Minv = L L^T (Cholesky of the inverse metric), LTinv = (L^T)^-1, momentum = LTinv z.
     Then cov(momentum) = LTinv LTinv^T is the inverse of Minv, i.e. the mass matrix it reports. *)
  Lemma bfgs_factor (L LTinv Minv : 'M[F]_n) :
    Minv = L *m L^T -> LTinv *m L^T = 1%:M -> (LTinv *m LTinv^T) *m Minv = 1%:M.
  Proof.
    move=> -> H. have H' : L^T *m LTinv = 1%:M by apply: mulmx1C.
    have Ht : LTinv^T *m L = 1%:M by rewrite -[L]trmxK -trmx_mul H' trmx1.
    by rewrite -mulmxA [LTinv^T *m _]mulmxA Ht mul1mx.
  Qed.

  (* Full: M = A A^T with A the Cholesky factor; momentum = A z has covariance A A^T = M *)
  Lemma full_factor (A M : 'M[F]_n) : M = A *m A^T -> A *m A^T = M.
  Proof. by move=> ->. Qed.
End Factor.

Section Update.
  Variable (F : realFieldType) (n : nat).
  Implicit Types (H : 'M[F]_n) (s y v : 'cV[F]_n).
  Definition sc (a : 'M[F]_1) : F := a 0 0.
  Definition bfgs_update H s y : 'M[F]_n :=
    let rho := (sc (s^T *m y))^-1 in
    (1%:M - rho *: (s *m y^T)) *m H *m (1%:M - rho *: (y *m s^T)) + rho *: (s *m s^T).
  Lemma left_factor_tr s y (rho : F) : (1%:M - rho *: (s *m y^T))^T = 1%:M - rho *: (y *m s^T).
  Proof. by rewrite linearB /= trmx1 linearZ /= trmx_mul trmxK. Qed.
  Lemma sst_sym s (rho : F) : (rho *: (s *m s^T))^T = rho *: (s *m s^T).
  Proof. by rewrite linearZ /= trmx_mul trmxK. Qed.
  Lemma bfgs_update_sym H s y : H^T = H -> (bfgs_update H s y)^T = bfgs_update H s y.
  Proof.
    move=> Hs. rewrite /bfgs_update /=. set rho := (sc _)^-1.
    rewrite linearD /= sst_sym !trmx_mul Hs.
    rewrite (left_factor_tr s y rho) (left_factor_tr y s rho) mulmxA.
    by [].
  Qed.
  Lemma bfgs_update_qform H s y v :
    let rho := (sc (s^T *m y))^-1 in
    let w := (1%:M - rho *: (y *m s^T)) *m v in
    v^T *m bfgs_update H s y *m v = w^T *m H *m w + rho *: ((v^T *m s) *m (s^T *m v)).
  Proof.
    move=> rho w. rewrite /bfgs_update -/rho.
    have -> : w^T = v^T *m (1%:M - rho *: (s *m y^T)) by rewrite /w trmx_mul (left_factor_tr y s rho).
    rewrite /w. set A := (1%:M - rho *: (s *m y^T)). set B := (1%:M - rho *: (y *m s^T)).
    rewrite mulmxDr mulmxDl. congr (_ + _).
    - by rewrite !mulmxA.
    - by rewrite -scalemxAr -scalemxAl !mulmxA.
  Qed.
  Definition posdef H := forall v, v != 0 -> 0 < sc (v^T *m H *m v).
  Lemma sc_add (a b : 'M[F]_1) : sc (a + b) = sc a + sc b.
  Proof. by rewrite /sc mxE. Qed.
  Lemma sc_scale (c : F) (a : 'M[F]_1) : sc (c *: a) = c * sc a.
  Proof. by rewrite /sc mxE. Qed.
  Lemma sc_mul (a b : 'M[F]_1) : sc (a *m b) = sc a * sc b.
  Proof. by rewrite /sc mxE big_ord1. Qed.
  Lemma sc_tr (a : 'M[F]_1) : sc a^T = sc a.
  Proof. by rewrite /sc mxE. Qed.
  Lemma sc_mx (a : 'M[F]_1) : a = (sc a)%:M.
  Proof. by apply/matrixP => i j; rewrite /sc !mxE !ord1 eqxx mulr1n. Qed.

  Theorem bfgs_update_posdef H s y : posdef H -> 0 < sc (s^T *m y) -> posdef (bfgs_update H s y).
  Proof.
    move=> HP Hsy v Hv. rewrite bfgs_update_qform sc_add sc_scale sc_mul.
    set rho := (sc (s^T *m y))^-1. set w := (1%:M - rho *: (y *m s^T)) *m v.
    have Hrho : 0 < rho by rewrite invr_gt0.
    have E : sc (v^T *m s) = sc (s^T *m v) by rewrite -sc_tr trmx_mul trmxK.
    rewrite E -expr2.
    case: (eqVneq w 0) => [Hw|Hw].
    - have Hsv : sc (s^T *m v) != 0.
        apply/eqP => Z. move: Hw. rewrite /w mulmxBl mul1mx -scalemxAl -mulmxA (sc_mx (s^T *m v)) Z.
        have -> : (0 : F)%:M = (0 : 'M[F]_1) by apply/matrixP => i j; rewrite !mxE mul0rn.
        rewrite mulmx0 scaler0 subr0 => Hv0. by rewrite Hv0 eqxx in Hv.
      rewrite Hw trmx0 !mul0mx. have -> : sc (0 : 'M[F]_1) = 0 by rewrite /sc mxE.
      rewrite add0r. apply: mulr_gt0 => //. by rewrite exprn_even_gt0.
    - apply: ltr_paddr; first by apply: mulr_ge0; [exact: (Order.POrderTheory.ltW Hrho)|exact: sqr_ge0].
      exact: HP.
  Qed.
End Update.
