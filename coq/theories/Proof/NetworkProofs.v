(* Determinacy of process networks: steps of distinct processes commute (diamond), hence every maximal
   execution from a state that has SOME terminating execution has the same length and ends in the same
   state -- for every interleaving.  (Kahn's principle, proved here for the network of Model/Network.v.) *)
From Coq Require Import List Bool Arith Lia FunctionalExtensionality.
From HV Require Import Network.
Import ListNotations.

(* ---------- generic: deterministic labelled steps + diamond => unique terminal state ---------- *)
Section Diamond.
  Variables (S L : Type) (stp : S -> L -> S -> Prop).
  Hypothesis det : forall s l t t', stp s l t -> stp s l t' -> t = t'.
  Hypothesis Leq_dec : forall a b : L, {a = b} + {a <> b}.
  Hypothesis diamond : forall s l1 l2 t1 t2, l1 <> l2 -> stp s l1 t1 -> stp s l2 t2 ->
    exists u, stp t1 l2 u /\ stp t2 l1 u.
  Definition gterminal s := forall l t, ~ stp s l t.
  Inductive gpath : S -> nat -> S -> Prop :=
  | gp0 s : gpath s 0 s
  | gpS s l t n u : stp s l t -> gpath t n u -> gpath s (Datatypes.S n) u.

  Lemma shift n : forall s t, gpath s n t -> gterminal t -> forall l v, stp s l v ->
    exists n', n = Datatypes.S n' /\ gpath v n' t.
  Proof.
    induction n as [|n IH]; intros s t Hp Ht l v Hs.
    - inversion Hp; subst. exfalso; eapply Ht; eauto.
    - inversion Hp as [|s0 l0 s1 n0 u Hs0 Hp1]; subst.
      exists n; split; [reflexivity|].
      destruct (Leq_dec l l0) as [->|Hne].
      + rewrite (det _ _ _ _ Hs Hs0); exact Hp1.
      + destruct (diamond _ _ _ _ _ Hne Hs Hs0) as (w & Hvw & Hs1w).
        destruct (IH _ _ Hp1 Ht _ _ Hs1w) as (n' & -> & Hw).
        econstructor; eauto.
  Qed.

  Lemma gpath_app a n b : gpath a n b -> forall m c, gpath b m c -> gpath a (n + m) c.
  Proof. induction 1 as [|s l t n u Hs Hp IH]; intros m c Hc; simpl; [exact Hc|]. econstructor; eauto. Qed.

  Theorem unique_terminal : forall m n s t u, gpath s n t -> gterminal t -> gpath s m u ->
    m <= n /\ (gterminal u -> m = n /\ u = t).
  Proof.
    induction m as [|m IH]; intros n s t u Hn Ht Hm.
    - inversion Hm; subst. split; [lia|]. intros Hu.
      destruct n as [|n]; [inversion Hn; subst; auto|].
      inversion Hn; subst. exfalso; eapply Hu; eauto.
    - inversion Hm as [|s0 l v m0 u0 Hs Hm1]; subst.
      destruct (shift _ _ _ Hn Ht _ _ Hs) as (n' & -> & Hv).
      destruct (IH _ _ _ _ Hv Ht Hm1) as [Hle Hfin].
      split; [lia|]. intros Hu. destruct (Hfin Hu) as [-> ->]. auto.
  Qed.
End Diamond.

(* ---------- the network satisfies the hypotheses ---------- *)
Section NetP.
  Variables (L M : Type).
  Variable cap : option nat.
  Notation net := (net L M).
  Notation proc := (proc L M).

  Lemma step_det (s : net) i t t' : step L M cap s i t -> step L M cap s i t' -> t = t'.
  Proof. unfold step. intros H1 H2. rewrite H1 in H2. inversion H2. reflexivity. Qed.

  Lemma nth_updp_same (ps : list proc) : forall i p, i < length ps -> nth_error (updp L M ps i p) i = Some p.
  Proof. induction ps as [|x ps IH]; intros [|i] p H; simpl in *; try lia; auto. apply IH. lia. Qed.

  Lemma nth_updp_other (ps : list proc) : forall i j p, i <> j -> nth_error (updp L M ps i p) j = nth_error ps j.
  Proof.
    induction ps as [|x ps IH]; intros [|i] [|j] p H; simpl; try reflexivity; try lia.
    apply IH. lia.
  Qed.

  Lemma updp_comm (ps : list proc) : forall i j p q, i <> j ->
    updp L M (updp L M ps i p) j q = updp L M (updp L M ps j q) i p.
  Proof.
    induction ps as [|x ps IH]; intros [|i] [|j] p q H; simpl; try reflexivity; try lia.
    f_equal. apply IH. lia.
  Qed.

  Lemma nth_error_lt_len {A} (l : list A) i x : nth_error l i = Some x -> i < length l.
  Proof. intros H. apply nth_error_Some. congruence. Qed.

  Lemma updq_comm (q : queues M) a b c d v w : (a, b) <> (c, d) ->
    updq M (updq M q a b v) c d w = updq M (updq M q c d w) a b v.
  Proof.
    intros H. extensionality x. extensionality y. unfold updq.
    destruct (Nat.eqb_spec x a), (Nat.eqb_spec y b), (Nat.eqb_spec x c), (Nat.eqb_spec y d); simpl; try reflexivity.
    subst. exfalso. apply H. reflexivity.
  Qed.

  Lemma updq_get (q : queues M) a b v : updq M q a b v a b = v.
  Proof. unfold updq. rewrite !Nat.eqb_refl. reflexivity. Qed.

  Lemma updq_other (q : queues M) a b v x y : (x, y) <> (a, b) -> updq M q a b v x y = q x y.
  Proof.
    intros H. unfold updq. destruct (Nat.eqb_spec x a), (Nat.eqb_spec y b); simpl; try reflexivity.
    subst. exfalso. apply H. reflexivity.
  Qed.

  Lemma updq_twice (q : queues M) a b v w : updq M (updq M q a b v) a b w = updq M q a b w.
  Proof.
    extensionality x. extensionality y. unfold updq.
    destruct (Nat.eqb x a && Nat.eqb y b); reflexivity.
  Qed.
End NetP.

Section NetDiamond.
  Variables (L M : Type).
  Variable cap : option nat.
  Notation net := (net L M).

  Ltac inv H := inversion H; subst; clear H.

  Lemma pair_neq_l (a b c d : nat) : a <> c -> (a, b) <> (c, d).
  Proof. intros H E. inversion E. contradiction. Qed.
  Lemma pair_neq_r (a b c d : nat) : b <> d -> (a, b) <> (c, d).
  Proof. intros H E. inversion E. contradiction. Qed.

  Ltac qsolve :=
    let x := fresh "x" in let y := fresh "y" in
    extensionality x; extensionality y; unfold updq;
    repeat match goal with |- context [Nat.eqb ?a ?b] => destruct (Nat.eqb_spec a b); subst end;
    simpl; try reflexivity; try congruence; try (exfalso; congruence).

  Ltac fin Hne := eexists; split; [reflexivity|];
    apply f_equal; apply f_equal2; [symmetry; apply updp_comm; exact Hne | try reflexivity; try qsolve].

  Lemma room_tl (m : M) rest : room M cap (m :: rest) = true -> room M cap rest = true.
  Proof. unfold room. destruct cap as [c|]; [|reflexivity]. simpl. intros H. apply Nat.ltb_lt in H. apply Nat.ltb_lt. lia. Qed.

  Theorem net_diamond (s : net) i1 i2 t1 t2 : i1 <> i2 -> step L M cap s i1 t1 -> step L M cap s i2 t2 ->
    exists u, step L M cap t1 i2 u /\ step L M cap t2 i1 u.
  Proof.
    unfold step, fire. intros Hne H1 H2.
    destruct (nth_error (procs s) i1) as [p1|] eqn:E1; [|discriminate].
    destruct (nth_error (procs s) i2) as [p2|] eqn:E2; [|discriminate].
    destruct (prog p1) as [|a1 r1] eqn:P1; [discriminate|].
    destruct (prog p2) as [|a2 r2] eqn:P2; [discriminate|].
    assert (N12 : forall p, nth_error (updp L M (procs s) i1 p) i2 = Some p2) by (intros; rewrite nth_updp_other by exact Hne; exact E2).
    assert (N21 : forall p, nth_error (updp L M (procs s) i2 p) i1 = Some p1) by (intros; rewrite nth_updp_other by (intro; apply Hne; auto); exact E1).
    destruct a1 as [f1|j1 g1|j1 h1], a2 as [f2|j2 g2|j2 h2].
    - inv H1. inv H2. simpl. rewrite N12, N21, P1, P2. fin Hne.
    - destruct (room M cap (qs s i2 j2)) eqn:R2; [|discriminate].
      inv H1. inv H2. simpl. rewrite N12, N21, P1, P2, R2. fin Hne.
    - destruct (qs s j2 i2) as [|m rest] eqn:Q2; [discriminate|].
      inv H1. inv H2. simpl. rewrite N12, N21, P1, P2, Q2. fin Hne.
    - destruct (room M cap (qs s i1 j1)) eqn:R1; [|discriminate].
      inv H1. inv H2. simpl. rewrite N12, N21, P1, P2, R1. fin Hne.
    - (* send, send: different source, hence different queues *)
      destruct (room M cap (qs s i1 j1)) eqn:R1; [|discriminate].
      destruct (room M cap (qs s i2 j2)) eqn:R2; [|discriminate].
      inv H1. inv H2. simpl. rewrite N12, N21, P1, P2.
      rewrite (updq_other M (qs s) i1 j1 _ i2 j2) by (apply pair_neq_l; auto).
      rewrite (updq_other M (qs s) i2 j2 _ i1 j1) by (apply pair_neq_l; auto).
      rewrite R1, R2. fin Hne.
    - (* send by i1 to j1, recv by i2 from j2 *)
      destruct (room M cap (qs s i1 j1)) eqn:R1; [|discriminate].
      destruct (qs s j2 i2) as [|m rest] eqn:Q2; [discriminate|].
      inv H1. inv H2. simpl. rewrite N12, N21, P1, P2.
      destruct (Nat.eq_dec j2 i1) as [->|Hj]; [destruct (Nat.eq_dec j1 i2) as [->|Hj1]|].
      + (* same queue i1 -> i2: append at the tail, pop at the head; popping leaves room *)
        rewrite !updq_get, Q2. simpl. rewrite Q2 in R1. rewrite (room_tl _ _ R1). fin Hne.
      + rewrite (updq_other M (qs s) i1 j1 _ i1 i2) by (apply pair_neq_r; auto). rewrite Q2.
        rewrite (updq_other M (qs s) i1 i2 _ i1 j1) by (apply pair_neq_r; auto). rewrite R1. fin Hne.
      + rewrite (updq_other M (qs s) i1 j1 _ j2 i2) by (apply pair_neq_l; auto). rewrite Q2.
        rewrite (updq_other M (qs s) j2 i2 _ i1 j1) by (apply pair_neq_l; auto). rewrite R1. fin Hne.
    - destruct (qs s j1 i1) as [|m rest] eqn:Q1; [discriminate|].
      inv H1. inv H2. simpl. rewrite N12, N21, P1, P2, Q1. fin Hne.
    - (* recv by i1 from j1, send by i2 to j2 *)
      destruct (qs s j1 i1) as [|m rest] eqn:Q1; [discriminate|].
      destruct (room M cap (qs s i2 j2)) eqn:R2; [|discriminate].
      inv H1. inv H2. simpl. rewrite N12, N21, P1, P2.
      destruct (Nat.eq_dec j1 i2) as [->|Hj]; [destruct (Nat.eq_dec j2 i1) as [->|Hj2]|].
      + rewrite !updq_get, Q1. simpl. rewrite Q1 in R2. rewrite (room_tl _ _ R2). fin Hne.
      + rewrite (updq_other M (qs s) i2 j2 _ i2 i1) by (apply pair_neq_r; auto). rewrite Q1.
        rewrite (updq_other M (qs s) i2 i1 _ i2 j2) by (apply pair_neq_r; auto). rewrite R2. fin Hne.
      + rewrite (updq_other M (qs s) i2 j2 _ j1 i1) by (apply pair_neq_l; auto). rewrite Q1.
        rewrite (updq_other M (qs s) j1 i1 _ i2 j2) by (apply pair_neq_l; auto). rewrite R2. fin Hne.
    - (* recv, recv: different destination, hence different queues *)
      destruct (qs s j1 i1) as [|m1 rest1] eqn:Q1; [discriminate|].
      destruct (qs s j2 i2) as [|m2 rest2] eqn:Q2; [discriminate|].
      inv H1. inv H2. simpl. rewrite N12, N21, P1, P2.
      rewrite (updq_other M (qs s) j1 i1 _ j2 i2) by (apply pair_neq_r; auto).
      rewrite (updq_other M (qs s) j2 i2 _ j1 i1) by (apply pair_neq_r; auto).
      rewrite Q1, Q2. fin Hne.
  Qed.

  (* Kahn determinacy: if SOME execution from s terminates in t after n steps, then EVERY execution from s
     has at most n steps, and every execution that cannot be continued has exactly n steps and ends in t *)
  Theorem kahn_unique (s t u : net) n m :
    gpath net nat (step L M cap) s n t -> gterminal net nat (step L M cap) t -> gpath net nat (step L M cap) s m u ->
    m <= n /\ (gterminal net nat (step L M cap) u -> m = n /\ u = t).
  Proof.
    apply (unique_terminal net nat (step L M cap)).
    - intros s0 l a b. apply step_det.
    - apply Nat.eq_dec.
    - intros s0 l1 l2 a b Hne. apply net_diamond. exact Hne.
  Qed.

  (* the executable scheduler only takes real steps (for any firing function) *)
  Lemma try_order_with_step (f : net -> nat -> option net) (s : net) order t :
    try_order_with L M f s order = Some t -> exists i, f s i = Some t.
  Proof.
    induction order as [|i r IH]; simpl; [discriminate|].
    destruct (f s i) eqn:E; [intros H; inversion H; subst; exists i; exact E|exact IH].
  Qed.

  Lemma run_sched_with_path (f : net -> nat -> option net) fuel order : forall (s : net),
    gpath net nat (fun a i b => f a i = Some b) s (snd (run_sched_with L M f fuel order s)) (fst (run_sched_with L M f fuel order s)).
  Proof.
    induction fuel as [|k IH]; intros s; simpl; [constructor|].
    destruct (try_order_with L M f s order) as [t|] eqn:E; [|constructor].
    destruct (try_order_with_step f s order t E) as [i Hi].
    specialize (IH t). destruct (run_sched_with L M f k order t) as [u n]. simpl in *.
    econstructor; eauto.
  Qed.

  Lemma run_sched_path fuel order (s : net) :
    gpath net nat (step L M cap) s (snd (run_sched L M cap fuel order s)) (fst (run_sched L M cap fuel order s)).
  Proof. exact (run_sched_with_path (fire L M cap) fuel order s). Qed.

  Lemma srun_sched_path fuel order (s : net) :
    gpath net nat (sstep L M) s (snd (srun_sched L M fuel order s)) (fst (srun_sched L M fuel order s)).
  Proof. exact (run_sched_with_path (sfire L M) fuel order s). Qed.

  (* a state in which every program is empty is terminal *)
  Lemma all_done_terminal (s : net) : all_done L M s = true -> gterminal net nat (step L M cap) s.
  Proof.
    unfold all_done, gterminal, step, fire. intros H i t.
    destruct (nth_error (procs s) i) as [p|] eqn:E; [|discriminate].
    rewrite forallb_forall in H. specialize (H p (nth_error_In _ _ E)).
    destruct (prog p); [discriminate|discriminate].
  Qed.

  (* instance-level corollary: if the (computed) round-robin run from s finishes all programs, then NO
     interleaving deadlocks and EVERY maximal interleaving ends in that same final state *)
  Theorem scheduler_witness (s : net) fuel order :
    all_done L M (fst (run_sched L M cap fuel order s)) = true ->
    forall m u, gpath net nat (step L M cap) s m u ->
      m <= snd (run_sched L M cap fuel order s) /\
      (gterminal net nat (step L M cap) u -> u = fst (run_sched L M cap fuel order s)).
  Proof.
    intros Hd m u Hp.
    destruct (kahn_unique s _ u _ m (run_sched_path fuel order s) (all_done_terminal _ Hd) Hp) as [Hle Hf].
    split; [exact Hle|]. intros Hu. destruct (Hf Hu) as [_ E]. exact E.
  Qed.

  (* ---------- synchronous (rendezvous) pipes ---------- *)
  Lemma sstep_det (s : net) i t t' : sstep L M s i t -> sstep L M s i t' -> t = t'.
  Proof. unfold sstep. intros H1 H2. rewrite H1 in H2. inversion H2. reflexivity. Qed.

  Lemma nth_updp (ps : list (proc L M)) : forall i p k,
    nth_error (updp L M ps i p) k = if Nat.eqb k i then match nth_error ps i with Some _ => Some p | None => None end else nth_error ps k.
  Proof.
    induction ps as [|x ps IH]; intros [|i] p [|k]; simpl; try reflexivity.
    - destruct (Nat.eqb k i); reflexivity.
    - apply IH.
  Qed.

  Lemma list_ext (a : list (proc L M)) : forall b, (forall k, nth_error a k = nth_error b k) -> a = b.
  Proof.
    induction a as [|x a IH]; intros [|y b] H.
    - reflexivity.
    - specialize (H 0). discriminate.
    - specialize (H 0). discriminate.
    - pose proof (H 0) as H0. simpl in H0. inversion H0. subst. f_equal. apply IH. intros k. exact (H (S k)).
  Qed.

  (* normal form of a looked-up, updated list; closes goals once all comparisons are decided *)
  Ltac upd_solve :=
    repeat rewrite nth_updp;
    repeat match goal with
           | |- context [Nat.eqb ?a ?b] => destruct (Nat.eqb_spec a b); subst
           | H : nth_error ?l ?i = _ |- context [nth_error ?l ?i] => rewrite H
           end;
    try reflexivity; try congruence; try (exfalso; congruence).

  Ltac simp_eqb :=
    repeat (rewrite Nat.eqb_refl ||
            match goal with
            | H : ?a <> ?b |- context [Nat.eqb ?a ?b] => rewrite (proj2 (Nat.eqb_neq a b) H)
            | H : ?a <> ?b |- context [Nat.eqb ?b ?a] => rewrite (proj2 (Nat.eqb_neq b a) (fun e => H (eq_sym e)))
            end).

  Ltac sync_finish :=
    eexists; split; [reflexivity|]; f_equal; f_equal; apply list_ext; intros k; upd_solve.

  Theorem sync_diamond (s : net) i1 i2 t1 t2 : i1 <> i2 -> sstep L M s i1 t1 -> sstep L M s i2 t2 ->
    exists u, sstep L M t1 i2 u /\ sstep L M t2 i1 u.
  Proof.
    unfold sstep, sfire. intros Hne H1 H2.
    destruct (nth_error (procs s) i1) as [p1|] eqn:E1; [|discriminate].
    destruct (nth_error (procs s) i2) as [p2|] eqn:E2; [|discriminate].
    destruct (prog p1) as [|a1 r1] eqn:P1; [discriminate|].
    destruct (prog p2) as [|a2 r2] eqn:P2; [discriminate|].
    destruct a1 as [f1|j1 g1|j1 h1]; [| |discriminate]; destruct a2 as [f2|j2 g2|j2 h2]; try discriminate.
    - (* local, local *)
      inv H1. inv H2. simpl.
      repeat progress (rewrite ?nth_updp; simp_eqb; rewrite ?E1, ?E2, ?P1, ?P2; simpl).
      sync_finish.
    - (* local i1, send i2 -> j2 *)
      destruct (Nat.eqb_spec i2 j2) as [|Nij2]; [discriminate|].
      destruct (nth_error (procs s) j2) as [q2|] eqn:F2; [|discriminate].
      destruct (prog q2) as [|[ | |k2 h2] rq2] eqn:Q2; try discriminate.
      destruct (Nat.eqb_spec k2 i2) as [->|]; [|discriminate].
      assert (N1 : j2 <> i1) by (intro; subst; rewrite F2 in E1; inversion E1; subst; rewrite Q2 in P1; discriminate).
      inv H1. inv H2. simpl.
      repeat progress (rewrite ?nth_updp; simp_eqb; rewrite ?E1, ?E2, ?F2, ?P1, ?P2, ?Q2; simpl).
      sync_finish.
    - (* send i1 -> j1, local i2 *)
      destruct (Nat.eqb_spec i1 j1) as [|Nij1]; [discriminate|].
      destruct (nth_error (procs s) j1) as [q1|] eqn:F1; [|discriminate].
      destruct (prog q1) as [|[ | |k1 h1] rq1] eqn:Q1; try discriminate.
      destruct (Nat.eqb_spec k1 i1) as [->|]; [|discriminate].
      assert (N1 : j1 <> i2) by (intro; subst; rewrite F1 in E2; inversion E2; subst; rewrite Q1 in P2; discriminate).
      inv H1. inv H2. simpl.
      repeat progress (rewrite ?nth_updp; simp_eqb; rewrite ?E1, ?E2, ?F1, ?P1, ?P2, ?Q1; simpl).
      sync_finish.
    - (* send i1 -> j1, send i2 -> j2: four different processes *)
      destruct (Nat.eqb_spec i1 j1) as [|Nij1]; [discriminate|].
      destruct (Nat.eqb_spec i2 j2) as [|Nij2]; [discriminate|].
      destruct (nth_error (procs s) j1) as [q1|] eqn:F1; [|discriminate].
      destruct (nth_error (procs s) j2) as [q2|] eqn:F2; [|discriminate].
      destruct (prog q1) as [|[ | |k1 h1] rq1] eqn:Q1; try discriminate.
      destruct (prog q2) as [|[ | |k2 h2] rq2] eqn:Q2; try discriminate.
      destruct (Nat.eqb_spec k1 i1) as [->|]; [|discriminate].
      destruct (Nat.eqb_spec k2 i2) as [->|]; [|discriminate].
      assert (N1 : j1 <> i2) by (intro; subst; rewrite F1 in E2; inversion E2; subst; rewrite Q1 in P2; discriminate).
      assert (N2 : j2 <> i1) by (intro; subst; rewrite F2 in E1; inversion E1; subst; rewrite Q2 in P1; discriminate).
      assert (N3 : j1 <> j2) by (intro; subst; rewrite F1 in F2; inversion F2; subst; rewrite Q1 in Q2; inversion Q2; auto).
      inv H1. inv H2. simpl.
      repeat progress (rewrite ?nth_updp; simp_eqb; rewrite ?E1, ?E2, ?F1, ?F2, ?P1, ?P2, ?Q1, ?Q2; simpl).
      sync_finish.
  Qed.

  Theorem kahn_unique_sync (s t u : net) n m :
    gpath net nat (sstep L M) s n t -> gterminal net nat (sstep L M) t -> gpath net nat (sstep L M) s m u ->
    m <= n /\ (gterminal net nat (sstep L M) u -> m = n /\ u = t).
  Proof.
    apply (unique_terminal net nat (sstep L M)).
    - intros s0 l a b. apply sstep_det.
    - apply Nat.eq_dec.
    - intros s0 l1 l2 a b Hne. apply sync_diamond. exact Hne.
  Qed.

  Lemma all_done_terminal_sync (s : net) : all_done L M s = true -> gterminal net nat (sstep L M) s.
  Proof.
    unfold all_done, gterminal, sstep, sfire. intros H i t.
    destruct (nth_error (procs s) i) as [p|] eqn:E; [|discriminate].
    rewrite forallb_forall in H. specialize (H p (nth_error_In _ _ E)).
    destruct (prog p); [discriminate|discriminate].
  Qed.
End NetDiamond.
