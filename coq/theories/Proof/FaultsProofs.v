From Coq Require Import List Bool ZArith Arith Lia.
From HV Require Import Num Integrators Sampler SamplerProofs Faults.
Import ListNotations.

Section FP.
  Context {N : NumOps}.
  Notation V := (@vec N).
  Variables (misfit : V -> T N) (grad : V -> V) (corr : V -> V -> V * V) (kin : V -> T N)
            (kgrad genmom : V -> V) (expf : T N -> T N) (powf : nat -> T N).
  Notation run_from := (run_from misfit grad corr kin kgrad genmom expf powf).
  Notation run := (run misfit grad corr kin kgrad genmom expf powf).
  Notation trans := (trans misfit grad corr kin kgrad genmom expf powf).

  (* the columns of a run over a prefix of the event stream are a prefix of the columns of the full run *)
  Lemma cols_prefix sm t evs : forall n i s, exists rest,
    cols (run_from sm t i s evs) = cols (run_from sm t i s (firstn n evs)) ++ rest.
  Proof.
    induction evs as [|e evs IH]; intros n i s.
    - exists []. destruct n; reflexivity.
    - destruct n as [|n].
      + cbn [firstn]. eexists. reflexivity.
      + cbn [firstn]. rewrite !run_from_unfold, !cols_mk.
        destruct (IH n (S i) (fst (trans sm i s e))) as [rest Hr]. exists rest.
        destruct (Nat.eqb (i mod t) 0); rewrite Hr; reflexivity.
  Qed.

  Lemma prefix_firstn {A} (l l1 rest : list A) : l = l1 ++ rest -> l1 = firstn (length l1) l.
  Proof. intros ->. rewrite firstn_app, Nat.sub_diag, firstn_all. simpl. rewrite app_nil_r. reflexivity. Qed.

  (* C08: whatever the fault, the stored columns are exactly the leading columns of the fault-free run *)
  Theorem faulty_prefix sm t m0 step0 evs site f :
    let r := run_faulty misfit grad corr kin kgrad genmom expf powf sm t m0 step0 evs site f in
    r_cols r = firstn (length (r_cols r)) (cols (run sm t m0 step0 evs)).
  Proof.
    cbv zeta. unfold run_faulty. destruct (handler f _) as [cp out]. cbn [r_cols].
    destruct (cols_prefix sm t evs (stored_upto misfit grad corr kin kgrad genmom expf powf sm m0 step0 evs site) 0
                          (init_state misfit m0 step0)) as [rest Hr].
    eapply prefix_firstn. exact Hr.
  Qed.

  (* ... and they include every proposal completed before the stop: as many columns as the
     fault-free run stores in its first `stored_upto` proposals *)
  Theorem faulty_includes_completed sm t m0 step0 evs site f :
    let r := run_faulty misfit grad corr kin kgrad genmom expf powf sm t m0 step0 evs site f in
    r_cols r = cols (run sm t m0 step0 (firstn (stored_upto misfit grad corr kin kgrad genmom expf powf sm m0 step0 evs site) evs)).
  Proof. cbv zeta. unfold run_faulty. destruct (handler f _). reflexivity. Qed.
End FP.

(* outcome: interrupts and time-outs return, anything else re-raises the same exception *)
Theorem handler_outcome f cp :
  snd (handler f cp) = match f with FInterrupt | FTimeout => Returned | FExn e | FBase e => Raised e end.
Proof. destruct f; reflexivity. Qed.

(* close never divides by zero, and after an interrupt in the very first proposal the rate is accepted/1 *)
Theorem rate_den_pos cp : (1 <= rate_den cp)%Z.
Proof. unfold rate_den. lia. Qed.

Theorem handler_cp f i : (-1 <= fst (handler f (Z.of_nat i)))%Z.
Proof. destruct f; simpl; lia. Qed.
