(* C06: bounds.  Misfit of bounded targets, atomic bounds update, mirror corrector and kinetic
   energy, chains never leave the box (sampler model at the extended-real instance). *)
From Coq Require Import List Bool ZArith Reals Lra Lia.
From HV Require Import Num XReal NumR Integrators Bounds Sampler SamplerProofs XSamplerProofs.
Import ListNotations.
Open Scope R_scope.

(* ---- misfit: +inf outside, unchanged inside (extended reals) ---- *)
Lemma bounded_misfit_outside lo hi q (x : R) :
  @outside NumX lo hi q = true -> xadd (@inf_or_zero NumX lo hi XPInf q) (XF x) = XPInf.
Proof. unfold inf_or_zero. intros ->. reflexivity. Qed.

Lemma bounded_misfit_inside lo hi q (x : xreal) :
  @outside NumX lo hi q = false -> x <> XNaN -> xadd (@inf_or_zero NumX lo hi XPInf q) x = x.
Proof.
  unfold inf_or_zero. intros -> Hx. simpl. destruct x; simpl; auto; try contradiction. f_equal; lra.
Qed.

(* ---- update_bounds is atomic ---- *)
Lemma update_atomic {N : NumOps} dim old lo hi :
  let '(b, ok) := @update_bounds N dim old lo hi in
  (ok = false -> b = old) /\ (ok = true -> b = (lo, hi)).
Proof.
  unfold update_bounds. destruct (_ && _); split; intros H; try discriminate; reflexivity.
Qed.

Lemma any2_false_R (f : R -> R -> bool) a : forall b, length a = length b ->
  @any2 NumR f a b = false -> forall i x y, nth_error a i = Some x -> nth_error b i = Some y -> f x y = false.
Proof.
  induction a as [|x0 a IH]; intros b Hl H i x y Hx Hy.
  - destruct i; discriminate Hx.
  - destruct b as [|y0 b]; [discriminate Hl|]. simpl in Hl. injection Hl as Hl'. simpl in H. apply orb_false_iff in H. destruct H as [H0 H1].
    destruct i as [|i]; simpl in Hx, Hy.
    + inversion Hx; inversion Hy; subst. exact H0.
    + apply (IH b Hl' H1 i x y Hx Hy).
Qed.

Lemma update_success_ordered dim old l u :
  snd (@update_bounds NumR dim old (Some l) (Some u)) = true ->
  forall i x y, nth_error l i = Some x -> nth_error u i = Some y -> x < y.
Proof.
  unfold update_bounds.
  destruct (Nat.eqb (length l) dim) eqn:El; [|simpl; discriminate].
  destruct (Nat.eqb (length u) dim) eqn:Eu; [|simpl; discriminate].
  apply Nat.eqb_eq in El, Eu. cbn [andb negb].
  destruct (any2 leb u l) eqn:E; [simpl; discriminate|]. intros _ i x y Hx Hy.
  pose proof (any2_false_R Rleb u l ltac:(lia) E i y x Hy Hx) as H. apply Rleb_false in H. lra.
Qed.

(* ---- the corrector, coordinate by coordinate (real arithmetic) ---- *)
Definition mirror_low (l q p : R) : R * R := if Rltb q l then (2 * l - q, - p) else (q, p).
Definition mirror_high (u q p : R) : R * R := if Rltb u q then (2 * u - q, - p) else (q, p).

Lemma reflect_low_nth l q p : length l = length q -> length q = length p ->
  forall i li qi pi, nth_error l i = Some li -> nth_error q i = Some qi -> nth_error p i = Some pi ->
  nth_error (fst (@reflect_low NumR l q p)) i = Some (fst (mirror_low li qi pi)) /\
  nth_error (snd (@reflect_low NumR l q p)) i = Some (snd (mirror_low li qi pi)).
Proof.
  revert q p. induction l as [|l0 l IH]; intros [|q0 q] [|p0 p] H1 H2 i li qi pi Hl Hq Hp; simpl in *; try discriminate.
  - destruct i; discriminate.
  - destruct (@reflect_low NumR l q p) as [qs ps] eqn:E. destruct i as [|i]; simpl in *.
    + inversion Hl; inversion Hq; inversion Hp; subst. unfold mirror_low.
      destruct (Rltb qi li); simpl; split; f_equal; lra.
    + specialize (IH q p ltac:(lia) ltac:(lia) i li qi pi Hl Hq Hp). rewrite E in IH. simpl in IH.
      destruct (Rltb q0 l0); simpl; exact IH.
Qed.

Lemma reflect_high_nth u q p : length u = length q -> length q = length p ->
  forall i ui qi pi, nth_error u i = Some ui -> nth_error q i = Some qi -> nth_error p i = Some pi ->
  nth_error (fst (@reflect_high NumR u q p)) i = Some (fst (mirror_high ui qi pi)) /\
  nth_error (snd (@reflect_high NumR u q p)) i = Some (snd (mirror_high ui qi pi)).
Proof.
  revert q p. induction u as [|u0 u IH]; intros [|q0 q] [|p0 p] H1 H2 i ui qi pi Hu Hq Hp; simpl in *; try discriminate.
  - destruct i; discriminate.
  - destruct (@reflect_high NumR u q p) as [qs ps] eqn:E. destruct i as [|i]; simpl in *.
    + inversion Hu; inversion Hq; inversion Hp; subst. unfold mirror_high.
      destruct (Rltb ui qi); simpl; split; f_equal; lra.
    + specialize (IH q p ltac:(lia) ltac:(lia) i ui qi pi Hu Hq Hp). rewrite E in IH. simpl in IH.
      destruct (Rltb u0 q0); simpl; exact IH.
Qed.

(* every momentum component keeps its square: kinetic energy is conserved for unit / diagonal masses *)
Fixpoint ksum (m p : list R) : R :=
  match m, p with mi :: m', pi :: p' => pi * pi / mi + ksum m' p' | _, _ => 0 end.

Lemma reflect_low_ksum m l q p : length l = length q -> length q = length p ->
  ksum m (snd (@reflect_low NumR l q p)) = ksum m p.
Proof.
  revert m q p. induction l as [|l0 l IH]; intros m [|q0 q] [|p0 p] H1 H2; simpl in *; try discriminate; auto.
  destruct (@reflect_low NumR l q p) as [qs ps] eqn:E.
  specialize (IH (tl m) q p ltac:(lia) ltac:(lia)). rewrite E in IH. simpl in IH.
  destruct m as [|m0 m]; simpl in *; [destruct (Rltb q0 l0); reflexivity|].
  destruct (Rltb q0 l0); simpl; rewrite IH; lra.
Qed.

Lemma reflect_high_ksum m u q p : length u = length q -> length q = length p ->
  ksum m (snd (@reflect_high NumR u q p)) = ksum m p.
Proof.
  revert m q p. induction u as [|u0 u IH]; intros m [|q0 q] [|p0 p] H1 H2; simpl in *; try discriminate; auto.
  destruct (@reflect_high NumR u q p) as [qs ps] eqn:E.
  specialize (IH (tl m) q p ltac:(lia) ltac:(lia)). rewrite E in IH. simpl in IH.
  destruct m as [|m0 m]; simpl in *; [destruct (Rltb u0 q0); reflexivity|].
  destruct (Rltb u0 q0); simpl; rewrite IH; lra.
Qed.

Lemma reflect_low_length l q p : length l = length q -> length q = length p ->
  length (fst (@reflect_low NumR l q p)) = length q /\ length (snd (@reflect_low NumR l q p)) = length q.
Proof.
  revert q p. induction l as [|l0 l IH]; intros [|q0 q] [|p0 p] H1 H2; simpl in *; try discriminate; auto.
  destruct (@reflect_low NumR l q p) as [qs ps] eqn:E. specialize (IH q p ltac:(lia) ltac:(lia)). rewrite E in IH. simpl in IH.
  destruct (Rltb q0 l0); simpl; lia.
Qed.

Theorem corrector_conserves_kinetic m lo hi q p :
  match lo with Some l => length l = length q | None => True end ->
  match hi with Some u => length u = length q | None => True end -> length q = length p ->
  ksum m (snd (@corrector NumR lo hi q p)) = ksum m p.
Proof.
  intros Hl Hu Hp. unfold corrector.
  destruct lo as [l|].
  - destruct (@reflect_low NumR l q p) as [q1 p1] eqn:E.
    pose proof (reflect_low_ksum m l q p Hl Hp) as K1. pose proof (reflect_low_length l q p Hl Hp) as [L1 L2].
    rewrite E in *. simpl in *.
    destruct hi as [u|]; simpl in *; [|exact K1].
    rewrite (reflect_high_ksum m u q1 p1 (eq_trans Hu (eq_sym L1)) (eq_trans L1 (eq_sym L2))). exact K1.
  - destruct hi as [u|]; simpl; [|reflexivity]. apply reflect_high_ksum; assumption.
Qed.

(* ---- chains never leave the box (extended reals; any integrator, mass matrix, step size) ---- *)
Section Chain.
  Notation V := (@vec NumX).
  Variable Inside : V -> Prop.
  Variable misfit : V -> xreal.
  Variables (grad : V -> V) (corr : V -> V -> V * V) (kin : V -> xreal) (kgrad genmom : V -> V) (powf : nat -> xreal).
  (* a bounded target: finite misfit inside the box, +inf outside *)
  Hypothesis bounded_target : forall q, (Inside q /\ exists r, misfit q = XF r) \/ (~ Inside q /\ misfit q = XPInf).
  Notation trans := (@trans NumX misfit grad corr kin kgrad genmom xexp powf).
  Notation run_from := (@run_from NumX misfit grad corr kin kgrad genmom xexp powf).

  Definition ok_state (s : @st NumX) : Prop := Inside (cur s) /\ exists r, cur_x s = XF r.
  Definition ok_event (e : @ev NumX) : Prop := exists r, e_u e = XF r /\ 0 <= r.

  Lemma accepted_inside Ecur x k u : 0 <= u -> x = XPInf ->
    @accepts NumX (xexp (xsub Ecur (xadd x k))) (XF u) = false.
  Proof.
    intros Hu ->. apply nonfinite_rejected; [|exact Hu].
    destruct k; simpl; auto.
  Qed.

  Lemma trans_ok sm i s e : ok_state s -> ok_event e -> ok_state (fst (trans sm i s e)).
  Proof.
    intros [Hin [r Hr]] [u [Hu Hu0]]. destruct sm as [c|c]; simpl.
    - destruct (snd (rwmh_step misfit xexp powf c i s e)) eqn:E.
      + pose proof (rwmh_accept_state misfit xexp powf c i s e E) as (Hc & Hx & _).
        rewrite rwmh_decision in E. unfold rwmh_prop_x in E. rewrite Hu in E.
        destruct (bounded_target (rwmh_proposal c s (e_z e))) as [[Hi [r' Hm]]|[Hn Hm]].
        * split; [rewrite Hc; exact Hi|exists r'; rewrite Hx; exact Hm].
        * exfalso. rewrite Hm in E. rewrite nonfinite_rejected in E; [discriminate|auto|exact Hu0].
      + pose proof (rwmh_reject_state misfit xexp powf c i s e E) as (Hc & Hx & _).
        split; [rewrite Hc; exact Hin|exists r; rewrite Hx; exact Hr].
    - destruct (snd (hmc_step misfit grad corr kin kgrad genmom xexp powf c i s e)) eqn:E.
      + pose proof (hmc_accept_state misfit grad corr kin kgrad genmom xexp powf c i s e E) as (Hc & Hx & _).
        rewrite hmc_decision in E. unfold hmc_Eprop in E. rewrite Hu in E.
        destruct (bounded_target (hmc_pq grad corr kgrad genmom c s e)) as [[Hi [r' Hm]]|[Hn Hm]].
        * split; [rewrite Hc; exact Hi|exists r'; rewrite Hx; exact Hm].
        * exfalso. change (@add NumX) with xadd in E. change (@sub NumX) with xsub in E.
          rewrite (accepted_inside _ _ _ u Hu0 Hm) in E. discriminate.
      + pose proof (hmc_reject_state misfit grad corr kin kgrad genmom xexp powf c i s e E) as (Hc & Hx & _).
        destruct (bounded_target (cur s)) as [[_ [r' Hm]]|[Hn _]]; [|contradiction].
        split; [rewrite Hc; exact Hin|exists r'; rewrite Hx; exact Hm].
  Qed.

  Theorem chain_stays_inside sm t evs : Forall ok_event evs -> forall i s, ok_state s ->
    Forall (fun c => Inside (fst c) /\ exists r, snd c = XF r) (cols (run_from sm t i s evs)).
  Proof.
    intros Hev. induction Hev as [|e evs He Hev IH]; intros i s Hs; [constructor|].
    rewrite run_from_unfold, cols_mk. pose proof (trans_ok sm i s e Hs He) as H1.
    specialize (IH (S i) _ H1). destruct (Nat.eqb (i mod t) 0); [constructor; [exact H1|exact IH]|exact IH].
  Qed.
End Chain.
