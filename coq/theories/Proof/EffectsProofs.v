From Coq Require Import List Bool Arith Lia.
From HV Require Import Effects.
Import ListNotations.

Lemma mem_In x l : mem x l = true <-> In x l.
Proof.
  unfold mem. rewrite existsb_exists. split.
  - intros (y & Hy & E). apply Nat.eqb_eq in E. subst. exact Hy.
  - intros H. exists x. split; [exact H|apply Nat.eqb_refl].
Qed.

(* soundness of the checker: if it accepts, every function reachable from the roots satisfies the policy *)
Theorem check_sound tbl roots C allowed : check tbl roots C allowed = true ->
  forall f, reach tbl roots f -> allowed (effects_of tbl f) = true.
Proof.
  unfold check. rewrite !andb_true_iff. intros [[Hr Hc] Ha].
  rewrite forallb_forall in Hr, Hc, Ha.
  assert (HC : forall f, reach tbl roots f -> In f C).
  { induction 1 as [f Hf|f g Hf IH Hg].
    - apply mem_In. apply Hr. exact Hf.
    - specialize (Hc f IH). rewrite forallb_forall in Hc. apply mem_In. apply Hc. exact Hg. }
  intros f Hf. apply Ha. apply HC. exact Hf.
Qed.
