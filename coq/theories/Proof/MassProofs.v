(* C03 (static part): Unit / Diagonal / Full kinetic energies, their gradients and momentum factors;
   the documented equivalence (f * eps, M) ~ (eps, M / f^2). *)
From Coq Require Import Reals List Lia Lra FunctionalExtensionality.
From Coquelicot Require Import Coquelicot.
From HV Require Import Num XReal NumR Integrators Dist LinAlg DistDeriv IntegratorProofs.
Import ListNotations.
Open Scope R_scope.

(* Diagonal (Unit = all ones): K(p) = 1/2 sum p_i^2 / d_i, gradient p_i / d_i, factor sqrt d_i *)
Definition kin_diag (d : list R) : dist := normal_diag (map (fun _ => 0) d) (map Rinv d) 0.

Lemma kin_diag_value d : forall p, length d = length p ->
  misfit (kin_diag d) p = / 2 * sumR (map2R (fun di pi => pi * pi / di) d p).
Proof.
  unfold kin_diag. induction d as [|d0 d IH]; intros [|p0 p] H; simpl in *; try discriminate; [ring|].
  specialize (IH p ltac:(lia)). simpl in IH. rewrite Rplus_0_r in IH |- *. rewrite IH. unfold sq, Rdiv. ring.
Qed.

Lemma kin_diag_gradient d : forall p, length d = length p ->
  gradient (kin_diag d) p = map2R (fun di pi => pi / di) d p.
Proof.
  unfold kin_diag. induction d as [|d0 d IH]; intros [|p0 p] H; simpl in *; try discriminate; [reflexivity|].
  f_equal; [unfold Rdiv; ring|apply IH; lia].
Qed.

Theorem kin_diag_derivative d p : length d = length p ->
  PDeriv (misfit (kin_diag d)) (gradient (kin_diag d)) p.
Proof.
  intros H. apply gradient_is_derivative. unfold kin_diag. apply ok_normal_diag; rewrite map_length; auto.
Qed.

Lemma diag_factor d : List.Forall (fun a => 0 < a) d -> map2R Rmult (map sqrt d) (map sqrt d) = d.
Proof. induction 1 as [|a d Ha Hd IH]; simpl; [reflexivity|]. rewrite IH, sqrt_sqrt by lra. reflexivity. Qed.

(* Full: K(p) = 1/2 p^T P p with P = M^-1 symmetric; gradient P p is its derivative *)
Definition kin_full (P : list (list R)) : dist := DQuad (map (fun _ => 0) P) P 0.

Theorem kin_full_derivative P p : symmetricP P (length p) ->
  PDeriv (misfit (kin_full P)) (gradient (kin_full P)) p.
Proof.
  intros [HP Hs]. apply gradient_is_derivative. simpl. split; [rewrite map_length; exact HP|split; assumption].
Qed.

(* ---------- (f * eps, M) and (eps, M / f^2) give the same trajectories ---------- *)
Definition scale_instr (f : R) (i : @instr NumR) : @instr NumR :=
  match i with Drift c => @Drift NumR (f * c) | Kick c => @Kick NumR (f * c) end.

Lemma repeat_prog_map (g : @instr NumR -> @instr NumR) n body :
  map g (repeat_prog n body) = repeat_prog n (map g body).
Proof. induction n as [|n IH]; simpl; [reflexivity|]. rewrite map_app, IH. reflexivity. Qed.

Lemma prog_scaled ig n f ls : @prog_of NumR ig n (f * ls) = map (scale_instr f) (@prog_of NumR ig n ls).
Proof.
  destruct ig as [|a1 b1|a1 a2 b1]; cbn [prog_of].
  - unfold lf_prog. rewrite !map_app, repeat_prog_map. cbn [map scale_instr].
    assert (E : @mul NumR (@half NumR) (f * ls) = f * @mul NumR (@half NumR) ls) by (unfold half; simpl; field).
    rewrite E. reflexivity.
  - unfold s3_prog. rewrite repeat_prog_map. f_equal. unfold s3_body. cbn [map scale_instr].
    repeat match goal with |- ?c :: _ = _ :: _ => f_equal end; f_equal; simpl; unfold half; simpl; field.
  - unfold s4_prog. rewrite repeat_prog_map. f_equal. unfold s4_body. cbn [map scale_instr].
    repeat match goal with |- ?c :: _ = _ :: _ => f_equal end; f_equal; simpl; unfold half; simpl; field.
Qed.

Section Scaling.
  Variable I : Type.
  Notation V := (I -> R).
  Variables (K G : V -> V) (f : R).
  Hypothesis f_nz : f <> 0.
  Hypothesis K_homog : forall c p, K (fun i => c * p i) = (fun i => c * K p i).
  Let idc (q p : V) := (q, p).
  Let K' (p : V) : V := fun i => f * f * K p i.       (* inverse of the mass matrix M / f^2 *)

  Lemma step_scaled i q p :
    let '(q1, p1) := step_qp (FunVec I) K G idc (scale_instr f i) (q, p) in
    step_qp (FunVec I) K' G idc i (q, fun j => p j / f) = (q1, fun j => p1 j / f).
  Proof.
    destruct i as [c|c]; simpl; unfold idc, K'.
    - f_equal. extensionality j.
      replace (fun j0 : I => p j0 / f) with (fun j0 : I => / f * p j0) by (extensionality k; unfold Rdiv; ring).
      rewrite K_homog. field. exact f_nz.
    - f_equal. extensionality j. field. exact f_nz.
  Qed.

  Theorem scaling_equivalence prog : forall q p,
    let '(q1, p1) := run_qp (FunVec I) K G idc (map (scale_instr f) prog) (q, p) in
    run_qp (FunVec I) K' G idc prog (q, fun j => p j / f) = (q1, fun j => p1 j / f).
  Proof.
    induction prog as [|i prog IH]; intros q p; [reflexivity|].
    unfold run_qp in *. cbn [map fold_left].
    pose proof (step_scaled i q p) as Hs.
    destruct (step_qp (FunVec I) K G idc (scale_instr f i) (q, p)) as [q1 p1]. rewrite Hs. apply IH.
  Qed.

  (* for the integrators of the code: step f*eps with K equals step eps with f^2 K, momenta divided by f *)
  Corollary scaling_integrators ig n eps q p :
    let '(q1, p1) := run_qp (FunVec I) K G idc (@prog_of NumR ig n (f * eps)) (q, p) in
    run_qp (FunVec I) K' G idc (@prog_of NumR ig n eps) (q, fun j => p j / f) = (q1, fun j => p1 j / f).
  Proof. rewrite prog_scaled. apply scaling_equivalence. Qed.
End Scaling.
