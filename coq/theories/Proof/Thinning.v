(* Arithmetic of online thinning: picking the proposals whose index is a multiple of t (C07). *)
From Coq Require Import List Arith Lia.
Import ListNotations.

Fixpoint pick (t : nat) (i : nat) {A} (l : list A) : list A :=
  match l with
  | [] => []
  | x :: l' => if Nat.eqb (i mod t) 0 then x :: pick t (S i) l' else pick t (S i) l'
  end.

Lemma mod_block t q r : r < t -> (q * t + r) mod t = r.
Proof. intros H. rewrite Nat.add_comm, Nat.mod_add by lia. apply Nat.mod_small; exact H. Qed.

Lemma pick_skip t q {A} (l : list A) : forall l' r, 0 < r -> r + length l <= t ->
  pick t (q * t + r) (l ++ l') = pick t (q * t + r + length l) l'.
Proof.
  induction l as [|x l IH]; intros l' r Hr Hle; simpl.
  - rewrite Nat.add_0_r. reflexivity.
  - simpl in Hle. rewrite mod_block by lia. destruct r as [|r]; [lia|]. simpl.
    replace (S (q * t + S r)) with (q * t + S (S r)) by lia.
    rewrite IH by lia. f_equal. lia.
Qed.

Lemma pick_block t q {A} (x : A) (l l' : list A) : 0 < t -> S (length l) = t ->
  pick t (q * t) (x :: l ++ l') = x :: pick t (S q * t) l'.
Proof.
  intros Ht Hl. simpl pick.
  replace (q * t) with (q * t + 0) at 1 by lia. rewrite mod_block by lia. simpl.
  f_equal. replace (S (q * t)) with (q * t + 1) by lia.
  rewrite pick_skip by lia. f_equal. lia.
Qed.

Lemma split_block {A} (l : list A) t k : 0 < t -> length l = S k * t ->
  exists x l0 l', l = x :: l0 ++ l' /\ S (length l0) = t /\ length l' = k * t.
Proof.
  intros Ht Hl. destruct l as [|x l]; [simpl in Hl; lia|].
  exists x, (firstn (t - 1) l), (skipn (t - 1) l). simpl in Hl.
  rewrite firstn_skipn. split; [reflexivity|]. rewrite firstn_length, skipn_length. lia.
Qed.

(* number of stored columns: P = k*t proposals with thinning t give k columns *)
Lemma pick_length t {A} : 0 < t -> forall k q (l : list A), length l = k * t -> length (pick t (q * t) l) = k.
Proof.
  intros Ht. induction k as [|k IH]; intros q l Hl.
  - destruct l; [reflexivity|simpl in Hl; lia].
  - destruct (split_block l t k Ht Hl) as (x & l0 & l' & -> & H0 & H').
    rewrite pick_block by assumption. cbn [length]. f_equal. apply (IH (S q)). exact H'.
Qed.

(* column j is the entry of proposal j*t *)
Lemma pick_nth t {A} : 0 < t -> forall j k q (l : list A), length l = k * t -> j < k ->
  nth_error (pick t (q * t) l) j = nth_error l (j * t).
Proof.
  intros Ht. induction j as [|j IH]; intros k q l Hl Hj.
  - destruct k as [|k]; [lia|].
    destruct (split_block l t k Ht Hl) as (x & l0 & l' & -> & H0 & H').
    rewrite pick_block by assumption. reflexivity.
  - destruct k as [|k]; [lia|].
    destruct (split_block l t k Ht Hl) as (x & l0 & l' & -> & H0 & H').
    rewrite pick_block by assumption. cbn [nth_error].
    rewrite (IH k (S q) l' H') by lia.
    change (x :: l0 ++ l') with ((x :: l0) ++ l').
    rewrite nth_error_app2 by (simpl; nia). f_equal. simpl. nia.
Qed.
