From Coq Require Import List Bool ZArith Arith Lia.
From HV Require Import SamplesFile.
Import ListNotations.

Section FP.
  Variable A : Type.
  Variable be : backend.
  Notation wstate := (wstate A).

  (* invariant: disk ++ buffer = everything appended so far; write index = columns on disk *)
  Record Inv (done : list A) (s : wstate) : Prop := {
    inv_data : file s ++ buf s = done;
    inv_widx : widx s = Z.of_nat (length (file s));
    inv_lws : lws s = (Z.of_nat (length (file s)) - 1)%Z;
    inv_iv : 1 <= interval s
  }.

  Lemma inv_init : Inv [] (init_w A).
  Proof. constructor; simpl; auto; lia. Qed.

  Lemma flush_inv done s : Inv done s -> Inv done (flush A be s).
  Proof.
    intros [Hd Hw Hl Hi]. unfold flush. destruct (buf s) as [|x b] eqn:Eb.
    - constructor; auto. rewrite Eb. exact Hd.
    - constructor; simpl; auto.
      + rewrite app_nil_r. exact Hd.
      + destruct be; [reflexivity|]. rewrite Hw, app_length. simpl. lia.
      + destruct be; [reflexivity|]. rewrite Hl, app_length. simpl. lia.
  Qed.

  Lemma flush_buf s : buf (flush A be s) = [].
  Proof. unfold flush. destruct (buf s) eqn:E; simpl; auto. Qed.

  Lemma new_interval_pos iv l t : 1 <= iv -> 1 <= new_interval iv l t.
  Proof.
    intros H. unfold new_interval. destruct l, t; auto.
    destruct (_ <? _)%Z; [lia|]. destruct (_ <? _)%Z; [|auto]. apply Nat.le_max_r.
  Qed.

  Lemma append_inv done s c clock : Inv done s -> Inv (done ++ [c]) (fst (append A be s c clock)).
  Proof.
    intros [Hd Hw Hl Hi]. unfold append.
    destruct (Nat.ltb (interval s) (length (buf s ++ [c]))).
    - destruct clock as [|a [|b r]]; simpl fst; apply flush_inv; constructor; simpl; auto;
        try (rewrite app_assoc, Hd; reflexivity); apply new_interval_pos; exact Hi.
    - simpl. constructor; simpl; auto. rewrite app_assoc, Hd. reflexivity.
  Qed.

  Lemma step_inv done sc o : Inv done (fst sc) ->
    Inv (done ++ appended A [o]) (fst (step_op A be sc o)).
  Proof.
    destruct sc as [s clock]. simpl fst. intros I. destruct o; simpl.
    - apply append_inv. exact I.
    - rewrite app_nil_r. apply flush_inv. exact I.
    - rewrite app_nil_r. destruct I; constructor; simpl; auto.
    - rewrite app_nil_r. destruct (flush_inv done s I); constructor; simpl; auto.
  Qed.

  Lemma appended_app a b : appended A (a ++ b) = appended A a ++ appended A b.
  Proof. induction a as [|[c| |k v|] a IH]; simpl; auto. rewrite IH. reflexivity. Qed.

  Lemma run_inv ops : forall done sc, Inv done (fst sc) ->
    Inv (done ++ appended A ops) (fst (fold_left (step_op A be) ops sc)).
  Proof.
    induction ops as [|o ops IH]; intros done sc I.
    - cbn [fold_left appended]. rewrite app_nil_r. exact I.
    - cbn [fold_left]. change (o :: ops) with ([o] ++ ops). rewrite appended_app, app_assoc.
      apply (IH (done ++ appended A [o]) (step_op A be sc o)). apply step_inv. exact I.
  Qed.

  Lemma close_state s : buf (close A be s) = [] /\ closed (close A be s) = true.
  Proof. unfold close. simpl. split; [apply flush_buf|reflexivity]. Qed.

  (* ---- the C10 statements ---- *)
  Theorem roundtrip ops clock :
    let s := fst (run_ops A be (ops ++ [Close]) clock) in
    file s = appended A ops /\ buf s = [] /\ widx s = Z.of_nat (length (appended A ops)) /\ closed s = true.
  Proof.
    cbv zeta. unfold run_ops. rewrite fold_left_app. simpl fold_left.
    set (sc := fold_left (step_op A be) ops (init_w A, clock)).
    assert (I : Inv (appended A ops) (fst sc)) by (apply (run_inv ops [] (init_w A, clock)), inv_init).
    destruct sc as [s ck]. simpl in *. pose proof (flush_inv _ _ I) as [Hd Hw Hl Hi].
    rewrite flush_buf in *. rewrite app_nil_r in Hd. rewrite Hd in *. repeat split; auto.
  Qed.

  Theorem policy_irrelevant ops clock clock' :
    file (fst (run_ops A be (ops ++ [Close]) clock)) = file (fst (run_ops A be (ops ++ [Close]) clock')).
  Proof.
    destruct (roundtrip ops clock) as [H _]. destruct (roundtrip ops clock') as [H' _].
    cbv zeta in *. rewrite H, H'. reflexivity.
  Qed.

  Theorem burn_in ops clock b :
    let s := fst (run_ops A be (ops ++ [Close]) clock) in
    (b < length (appended A ops) -> ropen A s b = Some (skipn b (appended A ops)) /\ rnumpy A s b = skipn b (appended A ops)) /\
    (length (appended A ops) <= b -> ropen A s b = None).
  Proof.
    cbv zeta. destruct (roundtrip ops clock) as (Hf & _ & Hw & _). cbv zeta in *.
    unfold ropen, rnumpy. rewrite Hf, Hw. split; intros H.
    - destruct (Z.leb_spec (Z.of_nat (length (appended A ops))) (Z.of_nat b)); [lia|auto].
    - destruct (Z.leb_spec (Z.of_nat (length (appended A ops))) (Z.of_nat b)); [auto|lia].
  Qed.

  Theorem getitem_spec ops clock b lo hi :
    let s := fst (run_ops A be (ops ++ [Close]) clock) in
    rgetitem A s b lo hi = firstn (hi - lo) (skipn lo (skipn b (appended A ops))).
  Proof. cbv zeta. destruct (roundtrip ops clock) as (Hf & _). cbv zeta in Hf. unfold rgetitem. rewrite Hf. reflexivity. Qed.
End FP.
