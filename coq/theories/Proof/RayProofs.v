(* C18: Snell invariant, monotone depth, travel-time and length accounting of the layered ray model. *)
From Coq Require Import Reals List Lia Lra.
From HV Require Import Num XReal NumR RayTracer.
Import ListNotations.
Open Scope R_scope.

Notation seg := (@seg NumR).
Notation trace := (@trace NumR).

Fixpoint sum_len (l : list seg) : R := match l with [] => 0 | g :: r => g_len g + sum_len r end.
Fixpoint sum_tt (l : list seg) : R := match l with [] => 0 | g :: r => g_len g / g_vel g + sum_tt r end.

(* ---- accounting: travel time = sum len/velocity, length = sum len, over the segments ---- *)
Lemma trace_accounting layers : forall k p X x z tt dist segs,
  tt = sum_tt segs -> dist = sum_len segs ->
  let r := trace layers k p X x z tt dist segs in
  r_tt r = sum_tt (r_segs r) /\ r_dist r = sum_len (r_segs r).
Proof.
  induction layers as [|[bot v] rest IH]; intros k p X x z tt dist segs Ht Hd; cbv zeta.
  - simpl. auto.
  - cbn [RayTracer.trace]. destruct (leb _ _); [simpl; auto|].
    destruct (ltb X _).
    + simpl. rewrite Ht, Hd. split; ring.
    + apply IH; simpl; rewrite ?Ht, ?Hd; ring.
Qed.

(* ---- Snell: sin(angle) = velocity * ray parameter in every segment ---- *)
Lemma trace_snell layers : forall k (p : R) X x z tt dist (segs : list seg),
  List.Forall (fun g : seg => g_sin g = g_vel g * p) segs ->
  List.Forall (fun g : seg => g_sin g = g_vel g * p) (r_segs (trace layers k p X x z tt dist segs)).
Proof.
  induction layers as [|[bot v] rest IH]; intros k p X x z tt dist segs H.
  - exact H.
  - cbn [RayTracer.trace]. destruct (leb _ _); [exact H|].
    destruct (ltb X _).
    + simpl. constructor; [reflexivity|exact H].
    + apply IH. constructor; [reflexivity|exact H].
Qed.

(* ---- monotone: every segment goes down (weakly) and to the right, and stays left of the receiver line ---- *)
Fixpoint sorted_from (z : R) (layers : list (R * R)) : Prop :=
  match layers with [] => True | (bot, v) :: rest => z <= bot /\ 0 < v /\ sorted_from bot rest end.

Definition seg_ok (X : R) (g : seg) : Prop := g_z0 g <= g_z1 g /\ g_x0 g <= g_x1 g /\ g_x1 g <= X.

Lemma trace_monotone layers : forall k p X x z tt dist segs, 0 < p -> x <= X -> sorted_from z layers ->
  List.Forall (seg_ok X) segs ->
  List.Forall (seg_ok X) (r_segs (trace layers k p X x z tt dist segs)).
Proof.
  induction layers as [|[bot v] rest IH]; intros k p X x z tt dist segs Hp Hx Hs H.
  - exact H.
  - destruct Hs as (Hz & Hv & Hr). cbn [RayTracer.trace].
    change (@leb NumR) with Rleb. change (@ltb NumR) with Rltb. change (@ofZ NumR 1) with 1.
    change (@mul NumR) with Rmult. change (@sub NumR) with Rminus. change (@add NumR) with Rplus.
    change (@div NumR) with Rdiv. change (@nsqrt NumR) with sqrt.
    destruct (Rleb 1 (v * p)) eqn:E1; [exact H|]. apply Rleb_false in E1.
    assert (Hs0 : 0 < v * p) by (apply Rmult_lt_0_compat; assumption).
    assert (Hc : 0 < sqrt (1 - v * p * (v * p))).
    { apply sqrt_lt_R0. nra. }
    set (m := sqrt (1 - v * p * (v * p)) / (v * p)).
    assert (Hm : 0 < m) by (unfold m; apply Rdiv_lt_0_compat; assumption).
    destruct (Rltb X ((bot + m * x - z) / m)) eqn:E2.
    + simpl. constructor; [|exact H]. unfold seg_ok. simpl. repeat split; try lra.
      assert (0 <= m * (X - x)) by (apply Rmult_le_pos; lra). lra.
    + apply Rltb_false in E2.
      assert (Hxr : x <= (bot + m * x - z) / m).
      { apply (Rmult_le_reg_r m); [exact Hm|]. unfold Rdiv. rewrite Rmult_assoc, Rinv_l by lra. lra. }
      apply IH; try assumption; try lra.
      constructor; [|exact H]. unfold seg_ok. simpl. repeat split; lra.
Qed.

(* ---- homogeneous medium: the ray is a straight line ---- *)
Lemma slope_length s d : 0 < s < 1 -> 0 <= d ->
  sqrt (d * d + (sqrt (1 - s * s) / s * d) * (sqrt (1 - s * s) / s * d)) = d / s.
Proof.
  intros Hs Hd. apply sqrt_lem_1.
  - nra.
  - apply Rmult_le_pos; [lra|]. left. apply Rinv_0_lt_compat. lra.
  - assert (Hc : sqrt (1 - s * s) * sqrt (1 - s * s) = 1 - s * s) by (apply sqrt_sqrt; nra).
    unfold Rdiv.
    replace (sqrt (1 - s * s) * / s * d * (sqrt (1 - s * s) * / s * d))
      with ((sqrt (1 - s * s) * sqrt (1 - s * s)) * (/ s * / s) * (d * d)) by ring.
    rewrite Hc. field. lra.
Qed.

Definition homogeneous (v : R) (layers : list (R * R)) : Prop := List.Forall (fun l => snd l = v) layers.

Lemma trace_homogeneous layers : forall v k p X x z tt dist segs,
  homogeneous v layers -> 0 < v -> 0 < v * p < 1 -> 0 <= x <= X ->
  let s := v * p in let m := sqrt (1 - s * s) / s in
  z = m * x -> dist = x / s -> tt = dist / v -> sorted_from z layers ->
  let r := trace layers k p X x z tt dist segs in
  r_out r = Reached -> r_x r = X /\ r_z r = m * X /\ r_dist r = X / s /\ r_tt r = r_dist r / v.
Proof.
  induction layers as [|[bot v'] rest IH]; intros v k p X x z tt dist segs Hh Hv Hs Hx s m Hz Hd Ht Hsort r Hr.
  - simpl in Hr. discriminate.
  - inversion Hh as [|l ls Hv' Hrest]. subst l ls. simpl in Hv'. subst v'.
    destruct Hsort as (Hzb & _ & Hsr).
    unfold r in *. clear r. subst z. cbn [RayTracer.trace] in *.
    change (@leb NumR) with Rleb in *. change (@ltb NumR) with Rltb in *. change (@ofZ NumR 1) with 1 in *.
    change (@mul NumR) with Rmult in *. change (@sub NumR) with Rminus in *. change (@add NumR) with Rplus in *.
    change (@div NumR) with Rdiv in *. change (@nsqrt NumR) with sqrt in *.
    fold s in Hr |- *. fold m in Hr |- *.
    destruct (Rleb 1 s) eqn:E1; [simpl in Hr; discriminate|].
    assert (Hc : 0 < sqrt (1 - s * s)) by (apply sqrt_lt_R0; unfold s; nra).
    assert (Hm : 0 < m) by (unfold m; apply Rdiv_lt_0_compat; [exact Hc|unfold s; lra]).
    assert (Hxr : (bot + m * x - m * x) / m = bot / m) by (f_equal; ring).
    destruct (Rltb X ((bot + m * x - m * x) / m)) eqn:E2.
    + simpl. split; [reflexivity|]. split; [ring|].
      unfold seglen. change (@nsqrt NumR) with sqrt. change (@add NumR) with Rplus. change (@mul NumR) with Rmult. change (@sub NumR) with Rminus.
      replace (m * X - m * x + m * x - m * x) with (m * (X - x)) by ring.
      unfold m at 1 2. rewrite (slope_length s (X - x)) by (unfold s; lra).
      fold m. split; [rewrite Hd; field; unfold s; lra|]. rewrite Ht. field. lra.
    + apply Rltb_false in E2. rewrite Hxr in *.
      assert (Hbx : x <= bot / m).
      { apply (Rmult_le_reg_r m); [exact Hm|]. unfold Rdiv. rewrite Rmult_assoc, Rinv_l by lra. lra. }
      unfold seglen in *. change (@nsqrt NumR) with sqrt in *. change (@add NumR) with Rplus in *. change (@mul NumR) with Rmult in *. change (@sub NumR) with Rminus in *.
      assert (El : sqrt ((bot / m - x) * (bot / m - x) + (bot - m * x) * (bot - m * x)) = (bot / m - x) / s).
      { replace (bot - m * x) with (m * (bot / m - x)) by (field; lra).
        unfold m at 2 4. apply slope_length; [unfold s; lra|lra]. }
      rewrite El in Hr |- *.
      apply (IH v (S k) p X (bot / m) bot); try assumption; try lra.
      * fold s. fold m. field. lra.
      * fold s. rewrite Hd. field. unfold s; lra.
Qed.

(* the travel time of a ray that reaches the receiver line is the straight-line time to its own end point *)
Theorem homogeneous_straight_line layers v p X : homogeneous v layers -> 0 < v -> 0 < v * p < 1 -> 0 <= X ->
  sorted_from 0 layers ->
  let r := trace layers 0 p X 0 0 0 0 [] in
  r_out r = Reached -> r_tt r = sqrt (r_x r * r_x r + r_z r * r_z r) / v.
Proof.
  intros Hh Hv Hs HX Hsort r Hr.
  destruct (trace_homogeneous layers v 0 p X 0 0 0 0 [] Hh Hv Hs ltac:(lra) ltac:(ring) ltac:(unfold Rdiv; ring) ltac:(unfold Rdiv; ring) Hsort Hr)
    as (Ex & Ez & Ed & Et).
  fold r in Ex, Ez, Ed, Et. rewrite Et, Ed, Ex, Ez.
  rewrite (slope_length (v * p) X) by lra. reflexivity.
Qed.

(* a receiver at depth zr whose distance to the ray's end point is below tol sees the straight-line
   travel time to itself within tol / v (sqrt(X^2 + z^2) is 1-Lipschitz in z) *)
Lemma hyp_lipschitz X a b : Rabs (sqrt (X * X + a * a) - sqrt (X * X + b * b)) <= Rabs (a - b).
Proof.
  assert (H : forall u w, sqrt (X * X + u * u) - sqrt (X * X + w * w) <= Rabs (u - w)).
  { intros u w.
    assert (P0 : 0 <= sqrt (X * X + w * w)) by apply sqrt_pos.
    pose proof (Rabs_pos (u - w)) as P1.
    assert (T : sqrt (X * X + u * u) <= sqrt (X * X + w * w) + Rabs (u - w)).
    { apply Rsqr_incr_0_var; [|lra].
      rewrite Rsqr_sqrt by nra. unfold Rsqr.
      assert (S1 : sqrt (X * X + w * w) * sqrt (X * X + w * w) = X * X + w * w) by (apply sqrt_sqrt; nra).
      assert (S2 : Rabs (u - w) * Rabs (u - w) = (u - w) * (u - w)).
      { rewrite <- Rabs_mult. apply Rabs_pos_eq. pose proof (Rle_0_sqr (u - w)) as Q. unfold Rsqr in Q. exact Q. }
      assert (Hw : Rabs w <= sqrt (X * X + w * w)).
      { rewrite <- sqrt_Rsqr_abs. apply sqrt_le_1; unfold Rsqr; nra. }
      assert (Hprod : w * (u - w) <= Rabs w * Rabs (u - w)) by (rewrite <- Rabs_mult; apply Rle_abs).
      assert (Hle : Rabs w * Rabs (u - w) <= sqrt (X * X + w * w) * Rabs (u - w)) by (apply Rmult_le_compat_r; auto).
      nra. }
    lra. }
  apply Rabs_le. split.
  - specialize (H b a). rewrite (Rabs_minus_sym b a) in H. lra.
  - apply H.
Qed.
