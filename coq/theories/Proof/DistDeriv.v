(* C05: gradient is the derivative of misfit, for every expression of the distribution syntax. *)
From Coq Require Import Reals List Lia Lra.
From Coquelicot Require Import Coquelicot.
From HV Require Import Dist.
Import ListNotations.
Open Scope R_scope.

(* coordinate update *)
Fixpoint upd (x : list R) (i : nat) (t : R) : list R :=
  match x, i with
  | [], _ => []
  | _ :: xs, O => t :: xs
  | a :: xs, S j => a :: upd xs j t
  end.

Lemma upd_same x i xi : nth_error x i = Some xi -> upd x i xi = x.
Proof.
  revert i. induction x as [|a x IH]; intros [|i] H; simpl in *; try discriminate; auto.
  - inversion H; reflexivity.
  - f_equal. apply IH. exact H.
Qed.

Lemma upd_length x i t : length (upd x i t) = length x.
Proof. revert i. induction x as [|a x IH]; intros [|i]; simpl; auto. Qed.

(* partial derivatives: the i-th component of g x is the derivative of f in coordinate i *)
Definition PDeriv (f : list R -> R) (g : list R -> list R) (x : list R) : Prop :=
  forall i xi, nth_error x i = Some xi -> is_derive (fun t => f (upd x i t)) xi (nth i (g x) 0).

(* ---------- separable sums ---------- *)
Lemma sep_deriv phis : forall dphis x i xi phi dphi,
  nth_error x i = Some xi -> nth_error phis i = Some phi -> nth_error dphis i = Some dphi ->
  is_derive phi xi (dphi xi) ->
  is_derive (fun t => sep phis (upd x i t)) xi (nth i (sepg dphis x) 0).
Proof.
  induction phis as [|p ps IH]; intros dphis x i xi phi dphi Hx Hp Hd Hder.
  - destruct i; discriminate.
  - destruct x as [|a xs]; [destruct i; discriminate|]. destruct dphis as [|dp dps]; [destruct i; discriminate|].
    destruct i as [|i]; simpl in *.
    + inversion Hx; inversion Hp; inversion Hd; subst.
      apply (is_derive_ext (fun t => phi t + sep ps xs)); [intros t; reflexivity|].
      evar_last. apply @is_derive_plus; [exact Hder|apply @is_derive_const]. rewrite plus_zero_r. reflexivity.
    + apply (is_derive_ext (fun t => p a + sep ps (upd xs i t))); [intros t; reflexivity|].
      evar_last. apply @is_derive_plus; [apply @is_derive_const|eapply IH; eauto]. rewrite plus_zero_l. reflexivity.
Qed.

Lemma sepg_length dphis : forall x, length dphis = length x -> length (sepg dphis x) = length x.
Proof. induction dphis as [|d ds IH]; intros [|a x] H; simpl in *; try discriminate; auto. Qed.

(* ---------- lists ---------- *)
Lemma map2R_nth_plus a : forall b i, (i < length a)%nat -> length a = length b ->
  nth i (map2R Rplus a b) 0 = nth i a 0 + nth i b 0.
Proof.
  induction a as [|x a IH]; intros [|y b] i Hi Hl; simpl in *; try lia.
  destruct i; [reflexivity|]. apply IH; lia.
Qed.

Lemma map2R_length {A B C} (f : A -> B -> C) a : forall b, length a = length b -> length (map2R f a b) = length a.
Proof. induction a as [|x a IH]; intros [|y b] H; simpl in *; try discriminate; auto. Qed.

Lemma nth_error_lt {A} (x : list A) i v : nth_error x i = Some v -> (i < length x)%nat.
Proof. intros H. apply nth_error_Some. congruence. Qed.

Lemma firstn_upd x : forall n i t, (i < n)%nat -> firstn n (upd x i t) = upd (firstn n x) i t.
Proof.
  induction x as [|a x IH]; intros [|n] [|i] t H; simpl; try lia; auto.
  f_equal. apply IH. lia.
Qed.
Lemma skipn_upd_lt x : forall n i t, (i < n)%nat -> skipn n (upd x i t) = skipn n x.
Proof.
  induction x as [|a x IH]; intros [|n] [|i] t H; simpl; try lia; auto.
  apply IH. lia.
Qed.
Lemma firstn_upd_ge x : forall n i t, (n <= i)%nat -> firstn n (upd x i t) = firstn n x.
Proof.
  induction x as [|a x IH]; intros [|n] [|i] t H; simpl; try lia; auto.
  f_equal. apply IH. lia.
Qed.
Lemma skipn_upd_ge x : forall n i t, (n <= i)%nat -> skipn n (upd x i t) = upd (skipn n x) (i - n) t.
Proof.
  induction x as [|a x IH]; intros [|n] [|i] t H; simpl; try lia; auto.
  apply IH. lia.
Qed.
Lemma nth_error_firstn {A} (x : list A) : forall n i, (i < n)%nat -> nth_error (firstn n x) i = nth_error x i.
Proof. induction x as [|a x IH]; intros [|n] [|i] H; simpl; try lia; auto. apply IH; lia. Qed.
Lemma nth_error_skipn {A} (x : list A) : forall n i, nth_error (skipn n x) i = nth_error x (n + i).
Proof. induction x as [|a x IH]; intros [|n] i; simpl; auto. destruct i; reflexivity. Qed.
Lemma map_upd (f : R -> R) x : forall i t, map f (upd x i t) = upd (map f x) i (f t).
Proof. induction x as [|a x IH]; intros [|i] t; simpl; auto. f_equal. apply IH. Qed.

(* ---------- quadratic forms ---------- *)
From HV Require Import LinAlg.

Lemma upd_updR x : forall i t, upd x i t = updR x i t.
Proof. induction x as [|a x IH]; intros [|i] t; simpl; auto; f_equal; apply IH. Qed.

Definition symmetricP (P : list (list R)) (n : nat) : Prop :=
  length P = n /\ forall u v, length u = n -> length v = n -> dotR u (matvec P v) = dotR v (matvec P u).

Lemma map2R_minus_upd mu : forall x i t mi, length mu = length x -> nth_error mu i = Some mi ->
  map2R Rminus mu (upd x i t) = upd (map2R Rminus mu x) i (mi - t).
Proof.
  induction mu as [|m mu IH]; intros [|a x] [|i] t mi Hl Hm; simpl in *; try discriminate; auto.
  - inversion Hm; subst. reflexivity.
  - f_equal. apply IH; [lia|exact Hm].
Qed.

Lemma quad_deriv mu P c x i xi : length mu = length x -> symmetricP P (length x) ->
  nth_error x i = Some xi ->
  is_derive (fun t => misfit (DQuad mu P c) (upd x i t)) xi (nth i (gradient (DQuad mu P c) x) 0).
Proof.
  intros Hl [HP Hsym] Hx. simpl.
  assert (Hi : (i < length x)%nat) by (eapply nth_error_lt; eauto).
  destruct (nth_error mu i) as [mi|] eqn:Em; [|apply nth_error_None in Em; lia].
  set (r := map2R Rminus mu x).
  assert (Hr : length r = length x) by (unfold r; rewrite map2R_length_eq; [exact Hl|exact Hl]).
  assert (Eri : nth_error r i = Some (mi - xi)).
  { unfold r. clear -Em Hx Hl. revert x i Hl Em Hx. induction mu as [|m mu IH]; intros [|a x] [|i] Hl Em Hx; simpl in *; try discriminate.
    - inversion Em; inversion Hx; subst; reflexivity.
    - apply IH; [lia|exact Em|exact Hx]. }
  set (e := unitv (length x) i).
  assert (He : length e = length x) by apply unitv_length.
  (* the misfit along the coordinate line is an explicit quadratic polynomial in t *)
  apply (is_derive_ext (fun t => / 2 * (qform P r + (xi - t) * (dotR e (matvec P r) + dotR r (matvec P e)) + (xi - t) * (xi - t) * qform P e) + c)).
  { intros t. rewrite (map2R_minus_upd mu x i t mi Hl Em). fold r. rewrite upd_updR.
    rewrite (updR_unit r i (mi - xi) (mi - t) Eri). rewrite Hr. fold e.
    replace (mi - t - (mi - xi)) with (xi - t) by ring.
    change (dotR ?v (matvec P ?v)) with (qform P v).
    rewrite qform_expand; [reflexivity|rewrite Hr, He; reflexivity|rewrite HP, Hr; reflexivity]. }
  evar_last. auto_derive; [exact I|reflexivity].
  (* value: -(P r)_i *)
  rewrite (Hsym r e) by (rewrite ?Hr, ?He; reflexivity).
  unfold e. rewrite dotR_unit; [|rewrite matvec_length; exact HP|exact Hi].
  assert (Hn : nth i (map Ropp (matvec P r)) 0 = - nth i (matvec P r) 0).
  { rewrite <- Ropp_0 at 1. apply map_nth. }
  rewrite Hn. field.
Qed.

(* ---------- admissible points of an expression (interior of the support, away from kinks) ---------- *)
Fixpoint ok (d : dist) (x : list R) : Prop :=
  match d with
  | DSep phis dphis c =>
      length phis = length x /\ length dphis = length x /\
      forall i phi dphi xi, nth_error phis i = Some phi -> nth_error dphis i = Some dphi ->
                            nth_error x i = Some xi -> is_derive phi xi (dphi xi)
  | DQuad mu P c => length mu = length x /\ symmetricP P (length x)
  | DHimmel T => length x = 2%nat /\ T <> 0
  | DAdd a b => ok a x /\ ok b x
  | DComp na a b => (na <= length x)%nat /\ ok a (firstn na x) /\ ok b (skipn na x)
  | DMix wa a wb b => 0 < wa /\ 0 < wb /\ ok a x /\ ok b x
  | DLog base d => 1 < base /\ List.Forall (fun m => 0 < m) x /\ ok d (map (fun m => ln m / ln base) x)
  | DScale s d => ok d x
  end.

Lemma gradient_length d : forall x, ok d x -> length (gradient d x) = length x.
Proof.
  induction d as [phis dphis c|mu P c|T|a IHa b IHb|na a IHa b IHb|wa a IHa wb b IHb|base d IH|s d IH]; intros x H; simpl in *.
  - destruct H as (_ & H & _). apply sepg_length. exact H.
  - destruct H as (Hl & HP & _). rewrite map_length, matvec_length. exact HP.
  - destruct H as [H _]. destruct x as [|a [|b [|? ?]]]; simpl in *; try discriminate; reflexivity.
  - destruct H as [Ha Hb]. rewrite map2R_length_eq; rewrite IHa by exact Ha; [reflexivity|rewrite IHb by exact Hb; reflexivity].
  - destruct H as (Hn & Ha & Hb). rewrite app_length, IHa, IHb by assumption.
    rewrite firstn_length, skipn_length. lia.
  - destruct H as (_ & _ & Ha & Hb). rewrite map2R_length_eq; rewrite IHa by exact Ha; [reflexivity|rewrite IHb by exact Hb; reflexivity].
  - destruct H as (_ & _ & Hd). rewrite map2R_length_eq; rewrite IH by exact Hd; rewrite map_length; reflexivity.
  - rewrite map_length. apply IH. exact H.
Qed.

Lemma nth_map2R (f : R -> R -> R) a : forall b i, (i < length a)%nat -> length a = length b ->
  nth i (map2R f a b) 0 = f (nth i a 0) (nth i b 0).
Proof.
  induction a as [|x a IH]; intros [|y b] i Hi Hl; simpl in *; try lia.
  destruct i; [reflexivity|]. apply IH; lia.
Qed.

Lemma sumR_map_upd (psi : R -> R) x : forall i xi t, nth_error x i = Some xi ->
  sumR (map psi (upd x i t)) = sumR (map psi x) - psi xi + psi t.
Proof.
  induction x as [|a x IH]; intros [|i] xi t H; simpl in *; try discriminate.
  - inversion H; subst. ring.
  - rewrite (IH i xi t H). ring.
Qed.

Lemma Forall_nth_error {A} (P : A -> Prop) l i v : List.Forall P l -> nth_error l i = Some v -> P v.
Proof. intros H E. rewrite List.Forall_forall in H. apply H. eapply nth_error_In; eauto. Qed.

(* ---------- the theorem: for every expression and every admissible point ---------- *)
Theorem gradient_is_derivative d : forall x, ok d x -> PDeriv (misfit d) (gradient d) x.
Proof.
  induction d as [phis dphis c|mu P c|T|a IHa b IHb|na a IHa b IHb|wa a IHa wb b IHb|base d IH|s d IH];
    intros x H i xi Hx.
  - (* separable *)
    destruct H as (H1 & H2 & H3).
    assert (Hi : (i < length x)%nat) by (eapply nth_error_lt; eauto).
    destruct (nth_error phis i) as [phi|] eqn:Ep; [|apply nth_error_None in Ep; lia].
    destruct (nth_error dphis i) as [dphi|] eqn:Ed; [|apply nth_error_None in Ed; lia].
    simpl. evar_last.
    + apply @is_derive_plus; [eapply sep_deriv; eauto|apply @is_derive_const].
    + rewrite plus_zero_r. reflexivity.
  - (* quadratic form *)
    destruct H as (Hl & Hs). apply quad_deriv; assumption.
  - (* Himmelblau *)
    destruct H as (Hl & HT). destruct x as [|p [|q [|? ?]]]; simpl in Hl; try discriminate.
    destruct i as [|[|i]]; simpl in Hx; inversion Hx; subst; simpl; unfold sq.
    + auto_derive; [exact I|field; exact HT].
    + auto_derive; [exact I|field; exact HT].
    + destruct i; discriminate.
  - (* additive *)
    destruct H as [Ha Hb]. simpl.
    assert (Hi : (i < length x)%nat) by (eapply nth_error_lt; eauto).
    rewrite nth_map2R by (rewrite ?gradient_length by assumption; (exact Hi || reflexivity)).
    apply @is_derive_plus; [apply IHa; assumption|apply IHb; assumption].
  - (* composite *)
    destruct H as (Hn & Ha & Hb). simpl.
    assert (Hi : (i < length x)%nat) by (eapply nth_error_lt; eauto).
    assert (Lga : length (gradient a (firstn na x)) = na) by (rewrite gradient_length by exact Ha; rewrite firstn_length; lia).
    destruct (Nat.lt_ge_cases i na) as [Hlt|Hge].
    + rewrite app_nth1 by lia.
      apply (is_derive_ext (fun t => misfit a (upd (firstn na x) i t) + misfit b (skipn na x))).
      { intros t. rewrite firstn_upd, skipn_upd_lt by exact Hlt. reflexivity. }
      evar_last. apply @is_derive_plus; [apply IHa; [exact Ha|rewrite nth_error_firstn by exact Hlt; exact Hx]|apply @is_derive_const].
      rewrite plus_zero_r. reflexivity.
    + rewrite app_nth2 by lia. rewrite Lga.
      apply (is_derive_ext (fun t => misfit a (firstn na x) + misfit b (upd (skipn na x) (i - na) t))).
      { intros t. rewrite firstn_upd_ge, skipn_upd_ge by exact Hge. reflexivity. }
      evar_last. apply @is_derive_plus; [apply @is_derive_const|apply IHb; [exact Hb|]].
      { rewrite nth_error_skipn. replace (na + (i - na))%nat with i by lia. exact Hx. }
      rewrite plus_zero_l. reflexivity.
  - (* mixture *)
    destruct H as (Hwa & Hwb & Ha & Hb). simpl.
    assert (Hi : (i < length x)%nat) by (eapply nth_error_lt; eauto).
    rewrite nth_map2R by (rewrite ?gradient_length by assumption; (exact Hi || reflexivity)).
    pose proof (IHa x Ha i xi Hx) as Da. pose proof (IHb x Hb i xi Hx) as Db.
    set (fa := fun t => misfit a (upd x i t)) in *. set (fb := fun t => misfit b (upd x i t)) in *.
    set (ga := nth i (gradient a x) 0) in *. set (gb := nth i (gradient b x) 0) in *.
    assert (Ea : fa xi = misfit a x) by (unfold fa; rewrite (upd_same x i xi Hx); reflexivity).
    assert (Eb : fb xi = misfit b x) by (unfold fb; rewrite (upd_same x i xi Hx); reflexivity).
    assert (Hpos : 0 < wa * exp (- fa xi) + wb * exp (- fb xi)).
    { apply Rplus_lt_0_compat; apply Rmult_lt_0_compat; auto; apply exp_pos. }
    change (is_derive (fun t => - ln (wa * exp (- fa t) + wb * exp (- fb t))) xi
                      ((wa * exp (- misfit a x) * ga + wb * exp (- misfit b x) * gb) / (wa * exp (- misfit a x) + wb * exp (- misfit b x)))).
    rewrite <- Ea, <- Eb.
    evar_last.
    + apply @is_derive_opp.
      apply (is_derive_comp ln (fun t => wa * exp (- fa t) + wb * exp (- fb t))).
      * apply is_derive_ln. exact Hpos.
      * apply @is_derive_plus.
        -- apply is_derive_scal. apply (is_derive_comp exp (fun t => - fa t)); [apply is_derive_exp|apply @is_derive_opp; exact Da].
        -- apply is_derive_scal. apply (is_derive_comp exp (fun t => - fb t)); [apply is_derive_exp|apply @is_derive_opp; exact Db].
    + unfold scal, opp, plus, mult; simpl. unfold mult; simpl. field. apply Rgt_not_eq. exact Hpos.
  - (* log space *)
    destruct H as (Hb1 & Hpos & Hd). simpl.
    assert (Hb0 : 0 < base) by lra.
    assert (Hi : (i < length x)%nat) by (eapply nth_error_lt; eauto).
    assert (Hxi : 0 < xi) by (eapply Forall_nth_error; eauto).
    assert (Hlnpos : 0 < ln base) by (rewrite <- ln_1; apply ln_increasing; lra).
    assert (Hlnb : ln base <> 0) by (apply Rgt_not_eq; exact Hlnpos).
    assert (Hinv : 0 < / xi * / ln base) by (apply Rmult_lt_0_compat; apply Rinv_0_lt_compat; assumption).
    set (phi := fun m => ln m / ln base).
    set (y := map phi x).
    assert (Hy : nth_error y i = Some (phi xi)) by (unfold y; rewrite nth_error_map, Hx; reflexivity).
    rewrite nth_map2R by (rewrite ?gradient_length by exact Hd; unfold y; rewrite ?map_length; (exact Hi || reflexivity)).
    pose proof (IH y Hd i (phi xi) Hy) as Dd.
    apply (is_derive_ext (fun t => misfit d (upd y i (phi t)) - (sumR (map (fun m => ln (/ m / ln base)) x) - ln (/ xi / ln base) + ln (/ t / ln base)))).
    { intros t. rewrite map_upd. fold y. rewrite (sumR_map_upd _ x i xi t Hx). reflexivity. }
    fold y. set (gd := nth i (gradient d y) 0) in *.
    evar_last.
    + apply @is_derive_minus.
      * apply (is_derive_comp (fun s => misfit d (upd y i s)) phi); [exact Dd|].
        unfold phi. auto_derive; [exact Hxi|reflexivity].
      * auto_derive; [repeat split; auto; try (apply Rgt_not_eq; assumption)|reflexivity].
    + unfold scal, minus, plus, opp; simpl. unfold mult; simpl. rewrite (nth_indep x 0 xi) by exact Hi.
      assert (E : nth i x xi = xi) by (apply nth_error_nth; exact Hx). rewrite E.
      field. split; first [exact Hlnb|apply Rgt_not_eq; exact Hxi].
  - (* temperature / scaling *)
    simpl.
    assert (Hi : (i < length x)%nat) by (eapply nth_error_lt; eauto).
    assert (Hn : nth i (map (Rmult s) (gradient d x)) 0 = s * nth i (gradient d x) 0).
    { rewrite <- (Rmult_0_r s) at 1. apply map_nth. }
    rewrite Hn. apply is_derive_scal. apply IH; assumption.
Qed.

(* ---------- the leaf classes of the code are admissible ---------- *)
Lemma nth_error_map2R {A B C} (f : A -> B -> C) a : forall b i v, nth_error (map2R f a b) i = Some v ->
  exists x y, nth_error a i = Some x /\ nth_error b i = Some y /\ v = f x y.
Proof.
  induction a as [|x a IH]; intros [|y b] i v H; simpl in *; try (destruct i; discriminate).
  destruct i as [|j]; simpl in *.
  - inversion H. eauto.
  - apply IH. exact H.
Qed.

Lemma ok_normal_diag mu ivar c x : length mu = length x -> length ivar = length x -> ok (normal_diag mu ivar c) x.
Proof.
  intros H1 H2. simpl. rewrite !map2R_length_eq by congruence. refine (conj H1 (conj H1 _)).
  intros i phi dphi xi Hp Hd Hx.
  apply nth_error_map2R in Hp. destruct Hp as (m & iv & Hm & Hiv & ->).
  apply nth_error_map2R in Hd. destruct Hd as (m' & iv' & Hm' & Hiv' & ->).
  rewrite Hm in Hm'. rewrite Hiv in Hiv'. inversion Hm'; inversion Hiv'; subst.
  unfold sq. auto_derive; [exact I|field].
Qed.

Lemma ok_std_normal T x : T <> 0 -> length x = 1%nat -> ok (std_normal1d T) x.
Proof.
  intros HT Hl. simpl. refine (conj (eq_sym Hl) (conj (eq_sym Hl) _)).
  intros [|[|i]] phi dphi xi Hp Hd Hx; simpl in *; try discriminate.
  inversion Hp; inversion Hd; subst. unfold sq. auto_derive; [exact I|field; exact HT].
Qed.

Lemma ok_uniform n x : length x = n -> ok (uniform n) x.
Proof.
  intros Hl. simpl. rewrite !repeat_length. refine (conj (eq_sym Hl) (conj (eq_sym Hl) _)).
  intros i phi dphi xi Hp Hd Hx.
  apply nth_error_In in Hp. apply repeat_spec in Hp. apply nth_error_In in Hd. apply repeat_spec in Hd. subst.
  apply @is_derive_const.
Qed.

(* Laplace: away from the kinks x_i = mu_i *)
Lemma abs_deriv m b xi : xi <> m -> is_derive (fun t => Rabs (t - m) * b) xi ((xi - m) / Rabs (xi - m) * b).
Proof.
  intros Hne. destruct (Rlt_dec m xi) as [Hlt|Hge].
  - apply (is_derive_ext_loc (fun t => (t - m) * b)).
    + exists (mkposreal (xi - m) ltac:(lra)). intros t Ht. unfold ball in Ht; simpl in Ht. unfold AbsRing_ball, abs, minus, plus, opp in Ht; simpl in Ht.
      apply Rabs_def2 in Ht. rewrite Rabs_pos_eq by lra. reflexivity.
    + rewrite Rabs_pos_eq by lra. auto_derive; [exact I|field; lra].
  - assert (Hlt : xi < m) by lra.
    apply (is_derive_ext_loc (fun t => - (t - m) * b)).
    + exists (mkposreal (m - xi) ltac:(lra)). intros t Ht. unfold ball in Ht; simpl in Ht. unfold AbsRing_ball, abs, minus, plus, opp in Ht; simpl in Ht.
      apply Rabs_def2 in Ht. rewrite Rabs_left by lra. reflexivity.
    + rewrite Rabs_left by lra. auto_derive; [exact I|field; lra].
Qed.

Lemma ok_laplace mu ib c x : length mu = length x -> length ib = length x ->
  (forall i m xi, nth_error mu i = Some m -> nth_error x i = Some xi -> xi <> m) -> ok (laplace mu ib c) x.
Proof.
  intros H1 H2 Hk. simpl. rewrite !map2R_length_eq by congruence. refine (conj H1 (conj H1 _)).
  intros i phi dphi xi Hp Hd Hx.
  apply nth_error_map2R in Hp. destruct Hp as (m & b & Hm & Hb & ->).
  apply nth_error_map2R in Hd. destruct Hd as (m' & b' & Hm' & Hb' & ->).
  rewrite Hm in Hm'. rewrite Hb in Hb'. inversion Hm'; inversion Hb'; subst.
  apply abs_deriv. eapply Hk; eauto.
Qed.
