(* C14: normalised misfits are negative log densities; push-forward of the generate() constructions. *)
From Coq Require Import Reals List Lra Lia.
From HV Require Import Dist AlgebraProofs.
Import ListNotations.
Open Scope R_scope.

(* textbook densities *)
Definition npdf1 (mu v x : R) : R := / sqrt (2 * PI * v) * exp (- (sq (x - mu) / (2 * v))).
Definition lpdf1 (mu b x : R) : R := / (2 * b) * exp (- (Rabs (x - mu) / b)).

Fixpoint prod3 (f : R -> R -> R -> R) (a b c : list R) : R :=
  match a, b, c with x :: a', y :: b', z :: c' => f x y z * prod3 f a' b' c' | _, _, _ => 1 end.

Definition normal_pdf_diag (mu v x : list R) : R := prod3 npdf1 mu v x.
Definition laplace_pdf (mu b x : list R) : R := prod3 lpdf1 mu b x.

(* the normalisation constants *)
Definition normal_const (v : list R) : R := / 2 * (ln (prodR v) + INR (length v) * ln (2 * PI)).
Definition laplace_const (b : list R) : R := sumR (map (fun bi => ln (2 * bi)) b).

Lemma two_pi_pos : 0 < 2 * PI.
Proof. pose proof PI_RGT_0. lra. Qed.

Lemma ln_sqrt' y : 0 < y -> ln (sqrt y) = ln y / 2.
Proof.
  intros Hy. assert (Hs : 0 < sqrt y) by (apply sqrt_lt_R0; exact Hy).
  rewrite <- (sqrt_sqrt y) at 2 by lra. rewrite ln_mult by exact Hs. lra.
Qed.

Lemma npdf1_pos mu v x : 0 < v -> 0 < npdf1 mu v x.
Proof.
  intros Hv. unfold npdf1. apply Rmult_lt_0_compat; [|apply exp_pos].
  apply Rinv_0_lt_compat, sqrt_lt_R0. pose proof two_pi_pos. apply Rmult_lt_0_compat; lra.
Qed.

Lemma neg_ln_npdf1 mu v x : 0 < v ->
  - ln (npdf1 mu v x) = / 2 * (/ v * sq (mu - x)) + / 2 * (ln v + ln (2 * PI)).
Proof.
  intros Hv. pose proof two_pi_pos as Hp. unfold npdf1.
  assert (Hs : 0 < sqrt (2 * PI * v)) by (apply sqrt_lt_R0, Rmult_lt_0_compat; lra).
  rewrite ln_mult by (try apply Rinv_0_lt_compat; try apply exp_pos; exact Hs).
  rewrite ln_Rinv by exact Hs. rewrite ln_exp.
  rewrite ln_sqrt' by (apply Rmult_lt_0_compat; lra).
  rewrite ln_mult by lra. unfold sq. field. lra.
Qed.

Lemma prod3_pos_normal mu : forall v x, Forall (fun a => 0 < a) v -> 0 < prod3 npdf1 mu v x.
Proof.
  induction mu as [|m mu IH]; intros v x Hv; simpl; [lra|].
  destruct v as [|v0 v]; [lra|]. destruct x as [|x0 x]; [lra|].
  inversion Hv as [|? ? Ha Hr]; subst. apply Rmult_lt_0_compat; [apply npdf1_pos; exact Ha|apply IH; exact Hr].
Qed.

Lemma prodR_pos v : Forall (fun a => 0 < a) v -> 0 < prodR v.
Proof. induction 1; simpl; [lra|apply Rmult_lt_0_compat; assumption]. Qed.

(* Normal with per-dimension (or scalar) covariance: normalised misfit = -log of the textbook density *)
Theorem normal_diag_is_neg_log_pdf mu : forall v x, length mu = length v -> length v = length x ->
  Forall (fun a => 0 < a) v ->
  misfit (normal_diag mu (map Rinv v) (normal_const v)) x = - ln (normal_pdf_diag mu v x).
Proof.
  unfold normal_pdf_diag, normal_const.
  induction mu as [|m mu IH]; intros [|v0 v] [|x0 x] H1 H2 Hv; simpl in H1, H2; try discriminate.
  - simpl. rewrite ln_1. lra.
  - inversion Hv as [|? ? Hv0 Hvr]; subst.
    specialize (IH v x ltac:(lia) ltac:(lia) Hvr).
    simpl prod3. rewrite (ln_mult (npdf1 m v0 x0)); [|apply npdf1_pos; exact Hv0|apply prod3_pos_normal; exact Hvr].
    rewrite Ropp_plus_distr, <- IH, neg_ln_npdf1 by exact Hv0.
    change (length (v0 :: v)) with (S (length v)). rewrite S_INR.
    change (prodR (v0 :: v)) with (v0 * prodR v). rewrite (ln_mult v0) by (try apply prodR_pos; assumption).
    cbn [misfit normal_diag map2R map sep]. ring.
Qed.

Lemma lpdf1_pos mu b x : 0 < b -> 0 < lpdf1 mu b x.
Proof. intros Hb. unfold lpdf1. apply Rmult_lt_0_compat; [apply Rinv_0_lt_compat; lra|apply exp_pos]. Qed.

Lemma prod3_pos_laplace mu : forall b x, Forall (fun a => 0 < a) b -> 0 < prod3 lpdf1 mu b x.
Proof.
  induction mu as [|m mu IH]; intros b x Hb; simpl; [lra|].
  destruct b as [|b0 b]; [lra|]. destruct x as [|x0 x]; [lra|].
  inversion Hb as [|? ? Ha Hr]; subst. apply Rmult_lt_0_compat; [apply lpdf1_pos; exact Ha|apply IH; exact Hr].
Qed.

(* Laplace: normalised misfit = -log of the textbook density *)
Theorem laplace_is_neg_log_pdf mu : forall b x, length mu = length b -> length b = length x ->
  Forall (fun a => 0 < a) b ->
  misfit (laplace mu (map Rinv b) (laplace_const b)) x = - ln (laplace_pdf mu b x).
Proof.
  unfold laplace_pdf, laplace_const.
  induction mu as [|m mu IH]; intros [|b0 b] [|x0 x] H1 H2 Hb; simpl in H1, H2; try discriminate.
  - simpl. rewrite ln_1. lra.
  - inversion Hb as [|? ? Hb0 Hbr]; subst.
    specialize (IH b x ltac:(lia) ltac:(lia) Hbr).
    simpl prod3. rewrite (ln_mult (lpdf1 m b0 x0)); [|apply lpdf1_pos; exact Hb0|apply prod3_pos_laplace; exact Hbr].
    rewrite Ropp_plus_distr, <- IH. unfold lpdf1.
    rewrite ln_mult by (try apply Rinv_0_lt_compat; try apply exp_pos; lra).
    rewrite ln_Rinv by lra. rewrite ln_exp. simpl. unfold Rdiv. ring.
Qed.

(* generate(): y = mu + sigma z with z standard normal has the Normal(mu, sigma^2) density *)
Theorem normal_pushforward mu sigma y : 0 < sigma ->
  npdf1 0 1 ((y - mu) / sigma) / sigma = npdf1 mu (sigma * sigma) y.
Proof.
  intros Hs. pose proof two_pi_pos as Hp. unfold npdf1, sq.
  assert (E : sqrt (2 * PI * (sigma * sigma)) = sqrt (2 * PI * 1) * sigma).
  { replace (2 * PI * (sigma * sigma)) with ((2 * PI * 1) * (sigma * sigma)) by ring.
    rewrite sqrt_mult by nra. rewrite (sqrt_square sigma) by lra. reflexivity. }
  rewrite E.
  assert (Hq : 0 < sqrt (2 * PI * 1)) by (apply sqrt_lt_R0; lra).
  replace (- (((y - mu) / sigma - 0) * ((y - mu) / sigma - 0) / (2 * 1))) with (- ((y - mu) * (y - mu) / (2 * (sigma * sigma)))) by (field; lra).
  field. split; lra.
Qed.

(* y = mu + b z with z standard Laplace has the Laplace(mu, b) density *)
Theorem laplace_pushforward mu b y : 0 < b -> lpdf1 0 1 ((y - mu) / b) / b = lpdf1 mu b y.
Proof.
  intros Hb. unfold lpdf1.
  replace (Rabs ((y - mu) / b - 0) / 1) with (Rabs (y - mu) / b).
  - field. lra.
  - replace ((y - mu) / b - 0) with ((y - mu) * / b) by (unfold Rdiv; ring).
    rewrite Rabs_mult, (Rabs_pos_eq (/ b)) by (left; apply Rinv_0_lt_compat; exact Hb). field. lra.
Qed.

(* The constant as the repaired code evaluates it: a sum of logarithms instead of the logarithm of a product
   (equal over the reals; in binary64 the product of a hundred variances leaves the range, the sum does not). *)
Lemma ln_prodR l : Forall (fun a => 0 < a) l -> ln (prodR l) = sumR (map ln l).
Proof.
  intros H. rewrite <- (exp_sum_ln l H). apply ln_exp.
Qed.

Lemma normal_const_sum_of_logs v : Forall (fun a => 0 < a) v ->
  normal_const v = / 2 * (sumR (map ln v) + INR (length v) * ln (2 * PI)).
Proof. intros H. unfold normal_const. rewrite (ln_prodR v H). reflexivity. Qed.
