(* C13: the algebra of composite distributions. *)
From Coq Require Import Reals List Bool Lia Lra Btauto.
From HV Require Import Num XReal NumR Bounds Dist LinAlg.
Import ListNotations.
Open Scope R_scope.

(* ---------- bounds of AdditiveDistribution / BayesRule: intersection of all parts' boxes ---------- *)
Lemma ltb_max x a b : Rltb x (if Rltb a b then b else a) = Rltb x a || Rltb x b.
Proof.
  destruct (Rltb a b) eqn:E; [apply Rltb_true in E|apply Rltb_false in E];
    destruct (Rltb x a) eqn:E1; [apply Rltb_true in E1|apply Rltb_false in E1|apply Rltb_true in E1|apply Rltb_false in E1];
    destruct (Rltb x b) eqn:E2; [apply Rltb_true in E2|apply Rltb_false in E2|apply Rltb_true in E2|apply Rltb_false in E2|
                                 apply Rltb_true in E2|apply Rltb_false in E2|apply Rltb_true in E2|apply Rltb_false in E2];
    simpl; try reflexivity; exfalso; lra.
Qed.

Lemma gtb_min x a b : Rltb (if Rltb b a then b else a) x = Rltb a x || Rltb b x.
Proof.
  destruct (Rltb b a) eqn:E; [apply Rltb_true in E|apply Rltb_false in E];
    destruct (Rltb a x) eqn:E1; [apply Rltb_true in E1|apply Rltb_false in E1|apply Rltb_true in E1|apply Rltb_false in E1];
    destruct (Rltb b x) eqn:E2; [apply Rltb_true in E2|apply Rltb_false in E2|apply Rltb_true in E2|apply Rltb_false in E2|
                                 apply Rltb_true in E2|apply Rltb_false in E2|apply Rltb_true in E2|apply Rltb_false in E2];
    simpl; try reflexivity; exfalso; lra.
Qed.

Lemma any2_vmax q : forall a b, length a = length q -> length b = length q ->
  @any2 NumR Rltb q (@vmax NumR a b) = @any2 NumR Rltb q a || @any2 NumR Rltb q b.
Proof.
  unfold vmax. induction q as [|x q IH]; intros [|a0 a] [|b0 b] Ha Hb; simpl in *; try discriminate; auto.
  rewrite IH by lia. change (@ltb NumR) with Rltb. rewrite ltb_max.
  repeat match goal with |- context [@any2 ?N ?f ?u ?v] => destruct (@any2 N f u v) end;
    repeat match goal with |- context [Rltb ?u ?v] => destruct (Rltb u v) end; reflexivity.
Qed.

Lemma any2_vmin q : forall a b, length a = length q -> length b = length q ->
  @any2 NumR (fun x y => Rltb y x) q (@vmin NumR a b) = @any2 NumR (fun x y => Rltb y x) q a || @any2 NumR (fun x y => Rltb y x) q b.
Proof.
  unfold vmin. induction q as [|x q IH]; intros [|a0 a] [|b0 b] Ha Hb; simpl in *; try discriminate; auto.
  rewrite IH by lia. change (@ltb NumR) with Rltb. rewrite gtb_min.
  repeat match goal with |- context [@any2 ?N ?f ?u ?v] => destruct (@any2 N f u v) end;
    repeat match goal with |- context [Rltb ?u ?v] => destruct (Rltb u v) end; reflexivity.
Qed.

Definition box_dim_ok (n : nat) (b : option (list R) * option (list R)) : Prop :=
  match fst b with Some l => length l = n | None => True end /\ match snd b with Some u => length u = n | None => True end.

(* a point violates the merged box iff it violates one of the two boxes *)
Lemma outside_merge q acc b : box_dim_ok (length q) acc -> box_dim_ok (length q) b ->
  @outside NumR (@merge_lo NumR (fst acc) (fst b)) (@merge_hi NumR (snd acc) (snd b)) q
  = @outside NumR (fst acc) (snd acc) q || @outside NumR (fst b) (snd b) q.
Proof.
  destruct acc as [[al|] [au|]], b as [[bl|] [bu|]]; unfold box_dim_ok; simpl; intros [H1 H2] [H3 H4];
    unfold outside, merge_lo, merge_hi; change (@ltb NumR) with Rltb;
    rewrite ?any2_vmax, ?any2_vmin by assumption; btauto.
Qed.

Lemma map2_length_eq {A B C} (f : A -> B -> C) a : forall b, length a = length b -> length (map2 f a b) = length a.
Proof. induction a as [|x a IH]; intros [|y b] H; simpl in *; try discriminate; auto. Qed.

Lemma merge_dim_ok n acc b : box_dim_ok n acc -> box_dim_ok n b ->
  box_dim_ok n (@merge_lo NumR (fst acc) (fst b), @merge_hi NumR (snd acc) (snd b)).
Proof.
  destruct acc as [[al|] [au|]], b as [[bl|] [bu|]]; unfold box_dim_ok, merge_lo, merge_hi, vmax, vmin; simpl;
    intros [H1 H2] [H3 H4]; split; auto; rewrite map2_length_eq; congruence.
Qed.

Lemma collapse_cons b parts own :
  @collapse NumR (b :: parts) own = @collapse NumR parts (@merge_lo NumR (fst own) (fst b), @merge_hi NumR (snd own) (snd b)).
Proof. reflexivity. Qed.

(* bounds of the additive distribution = intersection of the parts' bounds (and its own) *)
Theorem collapse_is_intersection q parts : forall own, box_dim_ok (length q) own ->
  Forall (box_dim_ok (length q)) parts ->
  @outside NumR (fst (@collapse NumR parts own)) (snd (@collapse NumR parts own)) q
  = @outside NumR (fst own) (snd own) q || existsb (fun b => @outside NumR (fst b) (snd b) q) parts.
Proof.
  induction parts as [|b parts IH]; intros own Ho Hp.
  - simpl. rewrite orb_false_r. reflexivity.
  - inversion Hp as [|? ? Hb Hr]; subst. rewrite collapse_cons.
    eapply eq_trans; [exact (IH _ (merge_dim_ok _ own b Ho Hb) Hr)|].
    cbn [fst snd existsb]. eapply eq_trans; [apply f_equal2; [exact (outside_merge q own b Ho Hb)|reflexivity]|].
    rewrite orb_assoc. reflexivity.
Qed.

(* idempotent under add_distribution (collapse again with the already collapsed bounds as own bounds) *)
Theorem collapse_idempotent q parts own : box_dim_ok (length q) own -> Forall (box_dim_ok (length q)) parts ->
  @outside NumR (fst (@collapse NumR parts (@collapse NumR parts own))) (snd (@collapse NumR parts (@collapse NumR parts own))) q
  = @outside NumR (fst (@collapse NumR parts own)) (snd (@collapse NumR parts own)) q.
Proof.
  intros Ho Hp.
  assert (Hc : box_dim_ok (length q) (@collapse NumR parts own)).
  { clear -Ho Hp. revert own Ho. induction Hp as [|b parts Hb Hr IH]; intros own Ho; [exact Ho|].
    rewrite collapse_cons. apply IH. apply merge_dim_ok; assumption. }
  eapply eq_trans; [exact (collapse_is_intersection q parts _ Hc Hp)|].
  eapply eq_trans; [apply f_equal2; [exact (collapse_is_intersection q parts own Ho Hp)|reflexivity]|].
  eapply eq_trans; [|symmetry; exact (collapse_is_intersection q parts own Ho Hp)].
  match goal with |- (?a || ?e) || ?e' = ?a' || ?e'' => change e' with e; change a' with a; change e'' with e; destruct a, e; reflexivity end.
Qed.

(* ---------- CompositeDistribution: each block's bounds are reflected on its own coordinates ---------- *)
Lemma reflect_low_app l1 : forall q1 p1 l2 q2 p2, length l1 = length q1 -> length q1 = length p1 ->
  @reflect_low NumR (l1 ++ l2) (q1 ++ q2) (p1 ++ p2) =
  (fst (@reflect_low NumR l1 q1 p1) ++ fst (@reflect_low NumR l2 q2 p2),
   snd (@reflect_low NumR l1 q1 p1) ++ snd (@reflect_low NumR l2 q2 p2)).
Proof.
  induction l1 as [|l0 l1 IH]; intros [|q0 q1] [|p0 p1] l2 q2 p2 H1 H2; simpl in *; try discriminate.
  - destruct (@reflect_low NumR l2 q2 p2); reflexivity.
  - rewrite IH by lia. destruct (@reflect_low NumR l1 q1 p1) as [a b]. destruct (@reflect_low NumR l2 q2 p2) as [c d]. simpl.
    destruct (Rltb q0 l0); reflexivity.
Qed.

Lemma reflect_high_app u1 : forall q1 p1 u2 q2 p2, length u1 = length q1 -> length q1 = length p1 ->
  @reflect_high NumR (u1 ++ u2) (q1 ++ q2) (p1 ++ p2) =
  (fst (@reflect_high NumR u1 q1 p1) ++ fst (@reflect_high NumR u2 q2 p2),
   snd (@reflect_high NumR u1 q1 p1) ++ snd (@reflect_high NumR u2 q2 p2)).
Proof.
  induction u1 as [|u0 u1 IH]; intros [|q0 q1] [|p0 p1] u2 q2 p2 H1 H2; simpl in *; try discriminate.
  - destruct (@reflect_high NumR u2 q2 p2); reflexivity.
  - rewrite IH by lia. destruct (@reflect_high NumR u1 q1 p1) as [a b]. destruct (@reflect_high NumR u2 q2 p2) as [c d]. simpl.
    destruct (Rltb u0 q0); reflexivity.
Qed.

(* ---------- TransformToLogSpace is the exact change of variables m = base^x ---------- *)
Fixpoint prodR (l : list R) : R := match l with [] => 1 | a :: r => a * prodR r end.

Lemma exp_sum_ln l : Forall (fun a => 0 < a) l -> exp (sumR (map ln l)) = prodR l.
Proof.
  induction 1 as [|a l Ha Hl IH]; simpl; [apply exp_0|].
  rewrite exp_plus, IH, exp_ln by exact Ha. reflexivity.
Qed.

(* density of m = density of x = log_base m times the Jacobian prod_i 1/(m_i ln base) *)
Theorem logspace_change_of_variables base d m : 1 < base -> Forall (fun a => 0 < a) m ->
  exp (- misfit (DLog base d) m)
  = exp (- misfit d (map (fun a => ln a / ln base) m)) * prodR (map (fun a => / a / ln base) m).
Proof.
  intros Hb Hm. simpl.
  assert (Hln : 0 < ln base) by (rewrite <- ln_1; apply ln_increasing; lra).
  replace (- (misfit d (map (fun a => ln a / ln base) m) - sumR (map (fun a => ln (/ a / ln base)) m)))
    with (- misfit d (map (fun a => ln a / ln base) m) + sumR (map ln (map (fun a => / a / ln base) m))).
  - rewrite exp_plus. f_equal. apply exp_sum_ln.
    rewrite Forall_forall in *. intros y Hy. apply in_map_iff in Hy. destruct Hy as (a & <- & Ha).
    apply Rmult_lt_0_compat; apply Rinv_0_lt_compat; auto.
  - rewrite map_map. ring.
Qed.

(* ---------- Normal: scalar, per-dimension and diagonal-matrix covariances describe the same distribution ---------- *)
Fixpoint diagM (v : list R) : list (list R) :=
  match v with [] => [] | a :: r => (a :: repeat 0 (length r)) :: map (cons 0) (diagM r) end.

Lemma dotR_zero_l n : forall r, dotR (repeat 0 n) r = 0.
Proof. induction n as [|n IH]; intros [|x r]; simpl; try reflexivity. rewrite dotR_cons, IH. ring. Qed.

Lemma matvec_cons0 P x r : matvec (map (cons 0) P) (x :: r) = matvec P r.
Proof. unfold matvec. rewrite map_map. apply map_ext. intros row. rewrite dotR_cons. ring. Qed.

Lemma matvec_diag v : forall r, length v = length r -> matvec (diagM v) r = map2R Rmult v r.
Proof.
  induction v as [|a v IH]; intros [|x r] H; simpl in *; try discriminate; [reflexivity|].
  unfold matvec at 1. simpl map. rewrite dotR_cons, dotR_zero_l. fold (matvec (map (cons 0) (diagM v)) (x :: r)).
  rewrite matvec_cons0, IH by lia. f_equal. ring.
Qed.

Lemma sep_normal mu : forall ivar x, length mu = length x -> length ivar = length x ->
  sep (map2R (fun m iv => fun t => / 2 * (iv * sq (m - t))) mu ivar) x
  = / 2 * dotR (map2R Rminus mu x) (map2R Rmult ivar (map2R Rminus mu x)).
Proof.
  induction mu as [|m mu IH]; intros [|iv ivar] [|a x] H1 H2; simpl in *; try discriminate.
  - unfold dotR; simpl; ring.
  - rewrite dotR_cons, IH by lia. unfold sq. ring.
Qed.

Theorem normal_diag_eq_full mu ivar c x : length mu = length x -> length ivar = length x ->
  misfit (normal_diag mu ivar c) x = misfit (DQuad mu (diagM ivar) c) x /\
  gradient (normal_diag mu ivar c) x = gradient (DQuad mu (diagM ivar) c) x.
Proof.
  intros H1 H2. simpl.
  assert (Hr : length ivar = length (map2R Rminus mu x)) by (rewrite map2R_length_eq; congruence).
  rewrite matvec_diag by exact Hr. split.
  - rewrite sep_normal by assumption. reflexivity.
  - clear Hr. revert ivar x H1 H2. induction mu as [|m mu IH]; intros [|iv ivar] [|a x] H1 H2; simpl in *; try discriminate; auto.
    f_equal; first [ring | apply IH; lia].
Qed.

(* scalar variance = the same value in every dimension *)
Theorem normal_scalar_eq_vector mu iv c x :
  misfit (normal_diag mu (repeat iv (length mu)) c) x = misfit (normal_diag mu (map (fun _ => iv) mu) c) x.
Proof. f_equal. f_equal. clear. induction mu; simpl; congruence. Qed.
