(* Proofs about the sampler model that hold for EVERY arithmetic instance (C02 counter and state
   updates, C07 thinning and own-misfit, C16 history bookkeeping). *)
From Coq Require Import List Bool ZArith Arith Lia.
From HV Require Import Num Integrators Sampler Thinning.
Import ListNotations.

Section SP.
  Context {N : NumOps}.
  Notation V := (@vec N).
  Variable misfit : V -> T N.
  Variable grad : V -> V.
  Variable corr : V -> V -> V * V.
  Variable kin : V -> T N.
  Variable kgrad : V -> V.
  Variable genmom : V -> V.
  Variable expf : T N -> T N.
  Variable powf : nat -> T N.

  Notation rwmh_step := (rwmh_step misfit expf powf).
  Notation hmc_step := (hmc_step misfit grad corr kin kgrad genmom expf powf).
  Notation trans := (trans misfit grad corr kin kgrad genmom expf powf).
  Notation run_from := (run_from misfit grad corr kin kgrad genmom expf powf).
  Notation run := (run misfit grad corr kin kgrad genmom expf powf).
  Notation tune := (tune powf).

  Lemma tune_cur tu i a s : cur (tune tu i a s) = cur s /\ cur_x (tune tu i a s) = cur_x s /\ acc (tune tu i a s) = acc s.
  Proof. unfold Sampler.tune. destruct (t_on tu); simpl; auto. Qed.

  (* ---------------- single transitions ---------------- *)
  Definition rwmh_prop_x (c : @rwmh_cfg N) (s : @st N) (e : @ev N) := misfit (rwmh_proposal c s (e_z e)).

  Lemma rwmh_decision c i s e :
    snd (rwmh_step c i s e) = accepts (expf (sub (cur_x s) (rwmh_prop_x c s e))) (e_u e).
  Proof. unfold Sampler.rwmh_step, rwmh_prop_x. destruct (accepts _ _); reflexivity. Qed.

  Lemma rwmh_accept_state c i s e : snd (rwmh_step c i s e) = true ->
    let s' := fst (rwmh_step c i s e) in
    cur s' = rwmh_proposal c s (e_z e) /\ cur_x s' = rwmh_prop_x c s e /\ acc s' = S (acc s).
  Proof.
    unfold Sampler.rwmh_step, rwmh_prop_x. destruct (accepts _ _); simpl; [|discriminate].
    intros _. destruct (tune_cur (r_tune c) i (expf (sub (cur_x s) (misfit (rwmh_proposal c s (e_z e))))) s) as (_ & _ & ->). auto.
  Qed.

  Lemma rwmh_reject_state c i s e : snd (rwmh_step c i s e) = false ->
    let s' := fst (rwmh_step c i s e) in
    cur s' = cur s /\ cur_x s' = cur_x s /\ acc s' = acc s.
  Proof.
    unfold Sampler.rwmh_step. destruct (accepts _ _); simpl; [discriminate|].
    intros _. destruct (tune_cur (r_tune c) i (expf (sub (cur_x s) (misfit (rwmh_proposal c s (e_z e))))) s) as (_ & _ & ->). auto.
  Qed.

  (* the HMC proposal: end point of the trajectory started with a fresh momentum *)
  Definition hmc_traj (c : @hmc_cfg N) (s : @st N) (e : @ev N) :=
    propagate (ListVec N) kgrad grad corr (h_integ c) (h_steps c) (step s) (e_factor e) (cur s) (genmom (e_z e)) (CGenMom :: trace s).
  Definition hmc_pq (c : @hmc_cfg N) (s : @st N) (e : @ev N) := fst (fst (hmc_traj c s e)).
  Definition hmc_pp (c : @hmc_cfg N) (s : @st N) (e : @ev N) := snd (fst (hmc_traj c s e)).
  Definition hmc_Ecur (c : @hmc_cfg N) (s : @st N) (e : @ev N) := add (misfit (cur s)) (kin (genmom (e_z e))).
  Definition hmc_Eprop (c : @hmc_cfg N) (s : @st N) (e : @ev N) := add (misfit (hmc_pq c s e)) (kin (hmc_pp c s e)).

  Lemma hmc_decision c i s e :
    snd (hmc_step c i s e) = accepts (expf (sub (hmc_Ecur c s e) (hmc_Eprop c s e))) (e_u e).
  Proof.
    unfold Sampler.hmc_step, hmc_Ecur, hmc_Eprop, hmc_pq, hmc_pp, hmc_traj.
    destruct (propagate _ _ _ _ _ _ _ _ _ _ _) as [[pq pp] tr1]. simpl.
    destruct (accepts _ _); reflexivity.
  Qed.

  Lemma hmc_accept_state c i s e : snd (hmc_step c i s e) = true ->
    let s' := fst (hmc_step c i s e) in
    cur s' = hmc_pq c s e /\ cur_x s' = misfit (hmc_pq c s e) /\ acc s' = S (acc s).
  Proof.
    unfold Sampler.hmc_step, hmc_pq, hmc_traj.
    destruct (propagate _ _ _ _ _ _ _ _ _ _ _) as [[pq pp] tr1]. simpl.
    match goal with |- context [tune ?tu ?i ?a ?s] => destruct (tune_cur tu i a s) as (_ & _ & Ha) end.
    destruct (accepts _ _); simpl; [|discriminate]. intros _. rewrite Ha. auto.
  Qed.

  Lemma hmc_reject_state c i s e : snd (hmc_step c i s e) = false ->
    let s' := fst (hmc_step c i s e) in
    cur s' = cur s /\ cur_x s' = misfit (cur s) /\ acc s' = acc s.
  Proof.
    unfold Sampler.hmc_step.
    destruct (propagate _ _ _ _ _ _ _ _ _ _ _) as [[pq pp] tr1]. simpl.
    match goal with |- context [tune ?tu ?i ?a ?s] => destruct (tune_cur tu i a s) as (_ & _ & Ha) end.
    destruct (accepts _ _); simpl; [discriminate|]. intros _. rewrite Ha. auto.
  Qed.

  Lemma trans_acc sm i s e :
    acc (fst (trans sm i s e)) = if snd (trans sm i s e) then S (acc s) else acc s.
  Proof.
    destruct sm as [c|c]; simpl.
    - destruct (snd (rwmh_step c i s e)) eqn:E.
      + apply rwmh_accept_state in E. tauto.
      + apply rwmh_reject_state in E. tauto.
    - destruct (snd (hmc_step c i s e)) eqn:E.
      + apply hmc_accept_state in E. tauto.
      + apply hmc_reject_state in E. tauto.
  Qed.

  (* ---------------- the loop ---------------- *)
  Definition final (r : @st N * list (V * T N) * list bool) := fst (fst r).
  Definition cols (r : @st N * list (V * T N) * list bool) := snd (fst r).
  Definition decisions (r : @st N * list (V * T N) * list bool) := snd r.

  Lemma final_mk a b c : final (a, b, c) = a. Proof. reflexivity. Qed.
  Lemma cols_mk a b c : cols (a, b, c) = b. Proof. reflexivity. Qed.
  Lemma decisions_mk a b c : decisions (a, b, c) = c. Proof. reflexivity. Qed.

  Lemma run_from_unfold sm t i s e evs :
    run_from sm t i s (e :: evs) =
      (final (run_from sm t (S i) (fst (trans sm i s e)) evs),
       (if Nat.eqb (i mod t) 0 then column (fst (trans sm i s e)) :: cols (run_from sm t (S i) (fst (trans sm i s e)) evs)
        else cols (run_from sm t (S i) (fst (trans sm i s e)) evs)),
       snd (trans sm i s e) :: decisions (run_from sm t (S i) (fst (trans sm i s e)) evs)).
  Proof.
    simpl. destruct (trans sm i s e) as [s1 b]. simpl.
    destruct (run_from sm t (S i) s1 evs) as [[sf cs] bs]. reflexivity.
  Qed.

  Fixpoint count_true (l : list bool) : nat :=
    match l with [] => 0 | b :: l' => (if b then 1 else 0) + count_true l' end.

  (* C02: the accepted counter equals the number of accepting transitions *)
  Lemma counter sm t evs : forall i s,
    acc (final (run_from sm t i s evs)) = acc s + count_true (decisions (run_from sm t i s evs)).
  Proof.
    induction evs as [|e evs IH]; intros i s.
    - unfold final, decisions. simpl. lia.
    - rewrite run_from_unfold. rewrite ?final_mk, ?cols_mk, ?decisions_mk.
      rewrite IH. rewrite trans_acc.
      cbn [count_true]. destruct (snd (trans sm i s e)); lia.
  Qed.

  (* C07: final state and decisions do not depend on the thinning *)
  Lemma thinning_irrelevant sm t t' evs : forall i s,
    final (run_from sm t i s evs) = final (run_from sm t' i s evs) /\
    decisions (run_from sm t i s evs) = decisions (run_from sm t' i s evs).
  Proof.
    induction evs as [|e evs IH]; intros i s; [split; reflexivity|].
    rewrite !run_from_unfold. rewrite ?final_mk, ?cols_mk, ?decisions_mk.
    destruct (IH (S i) (fst (trans sm i s e))) as [H1 H2].
    rewrite H1, H2. split; reflexivity.
  Qed.

  Lemma cols_thin1 sm evs : forall i s,
    length (cols (run_from sm 1 i s evs)) = length evs.
  Proof.
    induction evs as [|e evs IH]; intros i s; [reflexivity|].
    rewrite run_from_unfold. rewrite ?final_mk, ?cols_mk, ?decisions_mk.
    rewrite Nat.mod_1_r. simpl. f_equal. apply IH.
  Qed.

  Lemma cols_pick sm t evs : forall i s,
    cols (run_from sm t i s evs) = pick t i (cols (run_from sm 1 i s evs)).
  Proof.
    induction evs as [|e evs IH]; intros i s; [reflexivity|].
    rewrite !run_from_unfold. rewrite ?final_mk, ?cols_mk, ?decisions_mk.
    rewrite Nat.mod_1_r. cbn [Nat.eqb pick].
    destruct (Nat.eqb (i mod t) 0); rewrite IH; reflexivity.
  Qed.

  (* own misfit: with a functional target the carried misfit is the target's misfit of the state *)
  Lemma trans_own sm i s e : cur_x s = misfit (cur s) ->
    cur_x (fst (trans sm i s e)) = misfit (cur (fst (trans sm i s e))).
  Proof.
    intros H. destruct sm as [c|c]; simpl.
    - destruct (snd (rwmh_step c i s e)) eqn:E.
      + apply rwmh_accept_state in E. destruct E as (-> & -> & _). reflexivity.
      + apply rwmh_reject_state in E. destruct E as (-> & -> & _). exact H.
    - destruct (snd (hmc_step c i s e)) eqn:E.
      + apply hmc_accept_state in E. destruct E as (-> & -> & _). reflexivity.
      + apply hmc_reject_state in E. destruct E as (-> & -> & _). reflexivity.
  Qed.

  Lemma cols_own sm t evs : forall i s, cur_x s = misfit (cur s) ->
    Forall (fun c => snd c = misfit (fst c)) (cols (run_from sm t i s evs)).
  Proof.
    induction evs as [|e evs IH]; intros i s H; [constructor|].
    rewrite run_from_unfold. rewrite ?final_mk, ?cols_mk, ?decisions_mk.
    pose proof (trans_own sm i s e H) as H1. specialize (IH (S i) _ H1).
    destruct (Nat.eqb (i mod t) 0); [constructor; [exact H1|]|]; exact IH.
  Qed.

  (* states visited: state before each proposal *)
  Fixpoint states_before (sm : @sampler N) (i : nat) (s : @st N) (evs : list (@ev N)) : list (@st N) :=
    match evs with
    | [] => []
    | e :: evs' => s :: states_before sm (S i) (fst (trans sm i s e)) evs'
    end.

  Definition tuning_of (sm : @sampler N) : tuning :=
    match sm with Rw c => r_tune c | Hm c => h_tune c end.

  Lemma trans_hist sm i s e : t_on (tuning_of sm) = true ->
    let s' := fst (trans sm i s e) in
    hist_s s' = step s :: hist_s s /\ exists a, hist_a s' = a :: hist_a s.
  Proof.
    intros Hon. destruct sm as [c|c]; simpl in *.
    - unfold Sampler.rwmh_step, Sampler.tune. rewrite Hon. destruct (accepts _ _); simpl; eauto.
    - unfold Sampler.hmc_step, Sampler.tune. rewrite Hon.
      destruct (propagate _ _ _ _ _ _ _ _ _ _ _) as [[pq pp] tr1].
      destruct (accepts _ _); simpl; eauto.
  Qed.

  (* C16: the recorded step of proposal k is the step of the state that generated proposal k,
     and the histories have one entry per completed proposal *)
  Lemma hist_recorded sm t evs : t_on (tuning_of sm) = true -> forall i s,
    hist_s (final (run_from sm t i s evs)) = rev (map step (states_before sm i s evs)) ++ hist_s s /\
    length (hist_a (final (run_from sm t i s evs))) = length evs + length (hist_a s).
  Proof.
    intros Hon. induction evs as [|e evs IH]; intros i s; [split; reflexivity|].
    rewrite run_from_unfold. rewrite ?final_mk. cbn [states_before map rev].
    destruct (IH (S i) (fst (trans sm i s e))) as [H1 H2]. rewrite H1, H2.
    destruct (trans_hist sm i s e Hon) as [Hs [a Ha]]. rewrite Hs, Ha. simpl.
    rewrite <- app_assoc. split; [reflexivity|lia].
  Qed.
End SP.
