From Coq Require Import List Bool ZArith Lia.
From HV Require Import Num ListAux GradDescent.
Import ListNotations.

Section GDP.
  Context {N : NumOps}.
  Variable misfit : @vec N -> T N.
  Variable grad : @vec N -> @vec N.
  Variables (eps : T N) (reg : option (T N)) (mono : bool).

  Definition gd_step_of (m : @vec N) : @vec N :=
    vsub m (vscale eps (precondition reg (grad m))).

  Record Inv (s : gd_state) : Prop := {
    inv_hd_m : exists tl, gms s = gm s :: tl;
    inv_hd_x : exists tl, gxs s = gx s :: tl;
    inv_mis : Forall2 (fun m x => x = misfit m) (gms s) (gxs s);
    inv_step : forall m' m, consecutive (gms s) m' m -> m' = gd_step_of m;
    inv_fin : forall l1 x y l2, gxs s = l1 ++ x :: y :: l2 -> isnan x = false /\ isinf x = false;
    inv_mono : mono = true -> forall x' x, consecutive (gxs s) x' x -> ltb x x' = false
  }.

  Lemma inv_init m0 : Inv (gd_init misfit m0).
  Proof.
    constructor; simpl.
    - eauto. - eauto.
    - repeat constructor.
    - intros m' m (l1 & l2 & H). destruct l1 as [|? [|? ?]]; discriminate.
    - intros l1 x y l2 H. destruct l1 as [|? [|? ?]]; discriminate.
    - intros _ x' x (l1 & l2 & H). destruct l1 as [|? [|? ?]]; discriminate.
  Qed.

  Lemma inv_loop n : forall s, Inv s -> Inv (gd_loop misfit grad eps reg mono n s).
  Proof.
    induction n as [|n IH]; intros s I; simpl; [exact I|].
    set (m' := vsub (gm s) (vscale eps (precondition reg (grad (gm s))))).
    destruct (isnan (misfit m') || isinf (misfit m')) eqn:Hnf.
    { destruct I; constructor; simpl; auto. }
    destruct (ltb (gx s) (misfit m') && mono) eqn:Hm.
    { destruct I; constructor; simpl; auto. }
    apply IH. destruct I as [[tm Hm0] [tx Hx0] Hmis Hstep Hfin Hmono].
    constructor; simpl.
    - eauto.
    - eauto.
    - constructor; auto.
    - intros a b Hc. apply consecutive_cons in Hc. destruct Hc as [(l' & Hl & Ha)|Hc].
      + rewrite Hm0 in Hl. inversion Hl; subst b. rewrite <- Ha. reflexivity.
      + auto.
    - intros l1 x y l2 H. destruct l1 as [|z l1]; simpl in H; inversion H; subst.
      + apply orb_false_iff in Hnf. exact Hnf.
      + eapply Hfin; eauto.
    - intros Hmo a b Hc. apply consecutive_cons in Hc. destruct Hc as [(l' & Hl & Ha)|Hc].
      + rewrite Hx0 in Hl. inversion Hl; subst b. rewrite <- Ha. rewrite Hmo, andb_true_r in Hm. exact Hm.
      + auto.
  Qed.

  Definition gd_result m0 n := gradient_descent misfit grad m0 eps n reg mono.
  Definition ret_ms (s : @gd_state N) := rev (gms s).   (* oldest first, as returned *)
  Definition ret_xs (s : @gd_state N) := rev (gxs s).

  Lemma gd_inv m0 n : Inv (gd_result m0 n).
  Proof. apply inv_loop, inv_init. Qed.

  Lemma gd_last m0 n dm dx :
    last (ret_ms (gd_result m0 n)) dm = gm (gd_result m0 n) /\
    last (ret_xs (gd_result m0 n)) dx = gx (gd_result m0 n).
  Proof.
    destruct (gd_inv m0 n) as [[tm Hm] [tx Hx] _ _ _ _]. unfold ret_ms, ret_xs.
    rewrite !last_rev_hd, Hm, Hx. split; reflexivity.
  Qed.

  Lemma gd_misfit_of_model m0 n :
    Forall2 (fun m x => x = misfit m) (ret_ms (gd_result m0 n)) (ret_xs (gd_result m0 n)).
  Proof.
    destruct (gd_inv m0 n) as [_ _ H _ _ _]. unfold ret_ms, ret_xs.
    induction H; simpl; [constructor|]. apply Forall2_app; auto.
  Qed.

  Lemma gd_step m0 n m m' :
    consecutive (ret_ms (gd_result m0 n)) m m' -> m' = gd_step_of m.
  Proof.
    destruct (gd_inv m0 n) as [_ _ _ H _ _]. intros Hc. unfold ret_ms in Hc. apply (proj1 (consecutive_rev _ _ _)) in Hc. apply H. exact Hc.
  Qed.

  (* every returned misfit except possibly the initial one is neither NaN nor infinite *)
  Lemma gd_never_nonfinite m0 n x0 x rest :
    ret_xs (gd_result m0 n) = x0 :: rest -> In x rest -> isnan x = false /\ isinf x = false.
  Proof.
    destruct (gd_inv m0 n) as [_ _ _ _ H _]. unfold ret_xs. intros Hr Hin.
    apply in_split in Hin. destruct Hin as (r1 & r2 & ->).
    assert (E : gxs (gd_result m0 n) = rev r2 ++ x :: (rev r1 ++ [x0])).
    { rewrite <- (rev_involutive (gxs (gd_result m0 n))), Hr. simpl.
      rewrite rev_app_distr. simpl. rewrite <- !app_assoc. reflexivity. }
    destruct (rev r1 ++ [x0]) as [|y tl] eqn:Et.
    - destruct (rev r1); discriminate.
    - eapply H. exact E.
  Qed.

  Lemma gd_monotone m0 n x x' :
    mono = true -> consecutive (ret_xs (gd_result m0 n)) x x' -> ltb x x' = false.
  Proof.
    destruct (gd_inv m0 n) as [_ _ _ _ _ H]. intros Hm Hc. unfold ret_xs in Hc. apply (proj1 (consecutive_rev _ _ _)) in Hc. apply H; assumption.
  Qed.
  (* the guard is exact: the histories have the same length, at most iterations + 1 entries, and the run is
     shorter than that only when the NEXT step from the returned model was refused (non-finite misfit, or an
     increase under strictly_monotonic) -- no step that the guard admits is dropped *)
  Lemma loop_lengths n : forall s, length (gms s) = length (gxs s) ->
    let r := gd_loop misfit grad eps reg mono n s in
    length (gms r) = length (gxs r) /\
    length (gxs s) <= length (gxs r) <= length (gxs s) + n /\
    (length (gxs r) < length (gxs s) + n ->
       let x' := misfit (gd_step_of (gm r)) in
       isnan x' || isinf x' = true \/ ltb (gx r) x' && mono = true).
  Proof.
    induction n as [|n IH]; intros s Hl; cbn [gd_loop].
    { cbv zeta. split; [exact Hl|]. split; [lia|]. intros H; exfalso; lia. }
    fold (gd_step_of (gm s)).
    destruct (isnan (misfit (gd_step_of (gm s))) || isinf (misfit (gd_step_of (gm s)))) eqn:Hnf.
    { cbv zeta; cbn [gm gx gms gxs]. split; [exact Hl|]. split; [lia|]. intros _. left. exact Hnf. }
    destruct (ltb (gx s) (misfit (gd_step_of (gm s))) && mono) eqn:Hm.
    { cbv zeta; cbn [gm gx gms gxs]. split; [exact Hl|]. split; [lia|]. intros _. right. exact Hm. }
    match goal with |- context [gd_loop _ _ _ _ _ n ?s'] => specialize (IH s') end.
    cbn [gms gxs length] in IH. specialize (IH (f_equal S Hl)).
    cbv zeta in IH |- *. destruct IH as (H1 & H2 & H3).
    split; [exact H1|]. split; [lia|]. intros H. apply H3. lia.
  Qed.

  Lemma gd_lengths m0 n :
    length (ret_ms (gd_result m0 n)) = length (ret_xs (gd_result m0 n)) /\
    1 <= length (ret_xs (gd_result m0 n)) <= n + 1.
  Proof.
    unfold ret_ms, ret_xs. rewrite !rev_length.
    destruct (loop_lengths n (gd_init misfit m0) eq_refl) as (H1 & H2 & _).
    cbn [gd_init gxs length] in H2. split; [exact H1|]. unfold gd_result, gradient_descent. lia.
  Qed.

  Lemma gd_maximal m0 n :
    length (ret_xs (gd_result m0 n)) < n + 1 ->
    let r := gd_result m0 n in
    let x' := misfit (gd_step_of (gm r)) in
    isnan x' || isinf x' = true \/ ltb (gx r) x' && mono = true.
  Proof.
    unfold ret_xs. rewrite rev_length. intros H.
    destruct (loop_lengths n (gd_init misfit m0) eq_refl) as (_ & _ & H3).
    apply H3. cbn [gd_init gxs length]. unfold gd_result, gradient_descent in H. lia.
  Qed.
End GDP.
