(* Bilinear algebra over lists of reals: just enough for exact second-order expansions of
   quadratic forms (C05 full-covariance Normal, C15 LinearMatrix, C03 kinetic energies). *)
From Coq Require Import Reals List Lia Lra.
From HV Require Import Dist.
Import ListNotations.
Open Scope R_scope.

Definition vaddR (a b : list R) : list R := map2R Rplus a b.
Definition vscaleR (s : R) (a : list R) : list R := map (Rmult s) a.
Fixpoint unitv (n i : nat) : list R :=
  match n with O => [] | S n' => match i with O => 1 :: repeat 0 n' | S i' => 0 :: unitv n' i' end end.

Lemma dotR_nil_r a : dotR a [] = 0.
Proof. destruct a; reflexivity. Qed.

Lemma dotR_cons x a y b : dotR (x :: a) (y :: b) = x * y + dotR a b.
Proof. reflexivity. Qed.

Lemma dotR_comm a : forall b, dotR a b = dotR b a.
Proof.
  induction a as [|x a IH]; intros [|y b]; try reflexivity.
  rewrite !dotR_cons, IH. ring.
Qed.

Lemma dotR_add_l a : forall b c, length a = length b -> dotR (vaddR a b) c = dotR a c + dotR b c.
Proof.
  induction a as [|x a IH]; intros [|y b] c H; simpl in H; try discriminate.
  - unfold vaddR, dotR. simpl. ring.
  - destruct c as [|z c]; [rewrite !dotR_nil_r; ring|].
    unfold vaddR. simpl map2R. rewrite !dotR_cons. fold (vaddR a b). rewrite IH by lia. ring.
Qed.

Lemma dotR_scale_l s a : forall c, dotR (vscaleR s a) c = s * dotR a c.
Proof.
  induction a as [|x a IH]; intros [|z c]; unfold vscaleR; simpl; try (unfold dotR; simpl; ring).
  rewrite !dotR_cons. fold (vscaleR s a). rewrite IH. ring.
Qed.

Lemma vaddR_length a b : length a = length b -> length (vaddR a b) = length a.
Proof. apply map2R_length_eq. Qed.

Lemma matvec_add P a b : length a = length b ->
  matvec P (vaddR a b) = vaddR (matvec P a) (matvec P b).
Proof.
  intros H. induction P as [|row P IH]; [reflexivity|].
  unfold matvec, vaddR in *. simpl. rewrite IH. f_equal.
  rewrite (dotR_comm row), (dotR_comm row a), (dotR_comm row b). apply dotR_add_l. exact H.
Qed.

Lemma matvec_scale P s a : matvec P (vscaleR s a) = vscaleR s (matvec P a).
Proof.
  induction P as [|row P IH]; [reflexivity|].
  unfold matvec, vscaleR in *. simpl. rewrite IH. f_equal.
  rewrite (dotR_comm row), (dotR_comm row a). apply dotR_scale_l.
Qed.

Lemma matvec_length P a : length (matvec P a) = length P.
Proof. unfold matvec. apply map_length. Qed.

Definition qform (P : list (list R)) (v : list R) : R := dotR v (matvec P v).

(* exact expansion of a quadratic form along a line *)
Lemma qform_expand P r e s : length r = length e -> length P = length r ->
  qform P (vaddR r (vscaleR s e)) = qform P r + s * (dotR e (matvec P r) + dotR r (matvec P e)) + s * s * qform P e.
Proof.
  intros Hre HP. unfold qform.
  assert (Hs : length r = length (vscaleR s e)) by (unfold vscaleR; rewrite map_length; exact Hre).
  rewrite matvec_add by exact Hs. rewrite matvec_scale.
  rewrite dotR_add_l by exact Hs.
  rewrite !(dotR_comm _ (vaddR _ _)).
  assert (Hm : length (matvec P r) = length (vscaleR s (matvec P e))).
  { unfold vscaleR. rewrite map_length, !matvec_length. reflexivity. }
  rewrite !dotR_add_l by exact Hm.
  rewrite !dotR_scale_l. rewrite (dotR_comm (matvec P e) (vscaleR s e)), dotR_scale_l.
  rewrite (dotR_comm (matvec P r) r), (dotR_comm (matvec P e) r), (dotR_comm (matvec P r) (vscaleR s e)), dotR_scale_l.
  ring.
Qed.

Lemma dotR_unit w : forall n i, length w = n -> (i < n)%nat -> dotR (unitv n i) w = nth i w 0.
Proof.
  induction w as [|x w IH]; intros [|n] i Hl Hi; simpl in *; try lia.
  destruct i as [|i].
  - rewrite dotR_cons. assert (Z : forall (l : list R) m, dotR (repeat 0 m) l = 0).
    { intros l m; revert l; induction m; intros [|y l]; simpl; try reflexivity. rewrite dotR_cons, IHm. ring. }
    rewrite Z. ring.
  - rewrite dotR_cons, IH by lia. ring.
Qed.

Lemma unitv_length n i : length (unitv n i) = n.
Proof. revert i. induction n as [|n IH]; intros [|i]; simpl; auto. rewrite repeat_length. reflexivity. Qed.

(* upd as a step along a unit vector *)
Fixpoint updR (x : list R) (i : nat) (t : R) : list R :=
  match x, i with [], _ => [] | _ :: xs, O => t :: xs | a :: xs, S j => a :: updR xs j t end.

Lemma updR_unit x : forall i xi t, nth_error x i = Some xi ->
  updR x i t = vaddR x (vscaleR (t - xi) (unitv (length x) i)).
Proof.
  induction x as [|a x IH]; intros [|i] xi t H; simpl in *; try discriminate.
  - inversion H; subst. unfold vaddR, vscaleR. simpl. f_equal; [ring|].
    clear. induction x as [|b x IH]; simpl; [reflexivity|]. f_equal; [ring|exact IH].
  - unfold vaddR, vscaleR in *. simpl. f_equal; [ring|]. apply IH. exact H.
Qed.
