(* C04: the integrand identities of the continuum stationarity argument, over R, for state spaces of any
   type and cardinality (no finiteness).  With the change of variables under a volume-preserving involution
   (C01: reversibility and unit determinant) these identities are what makes exp(-H) invariant; the
   integration step itself is not mechanised (no measure theory is installed). *)
From Coq Require Import Reals Lra.
Open Scope R_scope.

Section Balance.
  Variable S : Type.                (* joint states (position, momentum) -- any type *)
  Variable H : S -> R.              (* joint energy: misfit + kinetic energy *)

  (* acceptance probability of the code's test  u < exp (H s - H s'),  u uniform on [0, 1) *)
  Definition pacc (s s' : S) : R := Rmin 1 (exp (H s - H s')).

  Lemma pacc_range s s' : 0 < pacc s s' <= 1.
  Proof.
    unfold pacc. split.
    - apply Rmin_glb_lt; [lra|apply exp_pos].
    - apply Rmin_l.
  Qed.

  (* detailed balance of the Metropolis test between any two states *)
  Lemma metropolis_balance s s' : exp (- H s) * pacc s s' = exp (- H s') * pacc s' s.
  Proof.
    unfold pacc.
    destruct (Rle_dec (H s') (H s)) as [Hle|Hgt].
    - (* downhill: accepted with probability 1; the way back with exp (H s' - H s) *)
      assert (E1 : 1 <= exp (H s - H s')).
      { rewrite <- exp_0. destruct (Req_dec (H s) (H s')) as [->|Hne].
        - rewrite Rminus_diag_eq by reflexivity. lra.
        - left. apply exp_increasing. lra. }
      assert (E2 : exp (H s' - H s) <= 1).
      { rewrite <- exp_0. destruct (Req_dec (H s) (H s')) as [->|Hne].
        - rewrite Rminus_diag_eq by reflexivity. lra.
        - left. apply exp_increasing. lra. }
      rewrite (Rmin_left 1 _ E1), (Rmin_right 1 _ E2), Rmult_1_r, <- exp_plus. f_equal. ring.
    - assert (Hlt : H s < H s') by lra.
      assert (E1 : exp (H s - H s') <= 1) by (rewrite <- exp_0; left; apply exp_increasing; lra).
      assert (E2 : 1 <= exp (H s' - H s)) by (rewrite <- exp_0; left; apply exp_increasing; lra).
      rewrite (Rmin_right 1 _ E1), (Rmin_left 1 _ E2), Rmult_1_r, <- exp_plus. f_equal. ring.
  Qed.

  (* HMC: the proposal is Phi s for a map Phi that is an involution (integrate, then flip the momentum) *)
  Variable Phi : S -> S.
  Hypothesis Phi_inv : forall s, Phi (Phi s) = s.

  Theorem hmc_integrand_balance s :
    exp (- H s) * pacc s (Phi s) = exp (- H (Phi s)) * pacc (Phi s) (Phi (Phi s)).
  Proof. rewrite Phi_inv. apply metropolis_balance. Qed.

  (* mass that leaves s for Phi s equals the mass that arrives at s from Phi s; hence (after the change of
     variables s -> Phi s with unit Jacobian) total mass at every state is conserved:
       exp(-H s) = exp(-H s) (1 - pacc s (Phi s))  +  exp(-H (Phi s)) pacc (Phi s) s            *)
  Theorem hmc_pointwise_conservation s :
    exp (- H s) = exp (- H s) * (1 - pacc s (Phi s)) + exp (- H (Phi s)) * pacc (Phi s) s.
  Proof. rewrite <- metropolis_balance. ring. Qed.

  (* a flipped momentum leaves the energy unchanged when the kinetic energy is even: the flip itself is free *)
  Variable flip : S -> S.
  Hypothesis H_flip : forall s, H (flip s) = H s.
  Lemma flip_free s : pacc s (flip s) = 1.
  Proof. unfold pacc. rewrite H_flip, Rminus_diag_eq by reflexivity. rewrite exp_0. apply Rmin_left. lra. Qed.
End Balance.

(* RWMH: symmetric proposal density q, target density exp (-U) *)
Section Symmetric.
  Variable X : Type.
  Variable U : X -> R.
  Variable q : X -> X -> R.
  Hypothesis q_sym : forall x y, q x y = q y x.

  Theorem rwmh_integrand_balance x y :
    exp (- U x) * (q x y * pacc X U x y) = exp (- U y) * (q y x * pacc X U y x).
  Proof.
    rewrite (q_sym y x).
    transitivity (q x y * (exp (- U x) * pacc X U x y)); [ring|].
    rewrite metropolis_balance. ring.
  Qed.
End Symmetric.
