(* C17: source location.  Per-datum derivatives, sums over stations, zero at the truth. *)
From Coq Require Import Reals List Lia Lra.
From Coquelicot Require Import Coquelicot.
From HV Require Import Dist DistExtra.
Import ListNotations.
Open Scope R_scope.

Definition away (e s : R * R * R) : Prop := dist3 e s <> 0.

Lemma dist3_pos_arg x y z rx ry rz : sqrt (sq (x - rx) + sq (y - ry) + sq (z - rz)) <> 0 ->
  0 < sq (x - rx) + sq (y - ry) + sq (z - rz).
Proof.
  intros H. destruct (Rle_lt_dec (sq (x - rx) + sq (y - ry) + sq (z - rz)) 0) as [Hle|Hlt]; [|exact Hlt].
  exfalso. apply H. apply sqrt_neg_0. exact Hle.
Qed.

(* the five partial derivatives of one datum's misfit *)
Lemma datum_dx x y z T v s o sd : away (x, y, z) s -> v <> 0 -> sd <> 0 ->
  is_derive (fun t => datum_misfit (t, y, z) T v s (Some o) sd) x (fst (fst (fst (fst (datum_grad (x, y, z) T v s (Some o) sd))))).
Proof.
  destruct s as [[rx ry] rz]. unfold away, datum_misfit, datum_grad, tt, dist3, sq. intros Hd Hv Hs. simpl.
  pose proof (dist3_pos_arg x y z rx ry rz Hd) as Hp. unfold sq in Hp.
  auto_derive; [repeat split; auto|]. unfold Rminus in *. field. repeat split; auto.
Qed.

Lemma datum_dy x y z T v s o sd : away (x, y, z) s -> v <> 0 -> sd <> 0 ->
  is_derive (fun t => datum_misfit (x, t, z) T v s (Some o) sd) y (snd (fst (fst (fst (datum_grad (x, y, z) T v s (Some o) sd))))).
Proof.
  destruct s as [[rx ry] rz]. unfold away, datum_misfit, datum_grad, tt, dist3, sq. intros Hd Hv Hs. simpl.
  pose proof (dist3_pos_arg x y z rx ry rz Hd) as Hp. unfold sq in Hp.
  auto_derive; [repeat split; auto|]. unfold Rminus in *. field. repeat split; auto.
Qed.

Lemma datum_dz x y z T v s o sd : away (x, y, z) s -> v <> 0 -> sd <> 0 ->
  is_derive (fun t => datum_misfit (x, y, t) T v s (Some o) sd) z (snd (fst (fst (datum_grad (x, y, z) T v s (Some o) sd)))).
Proof.
  destruct s as [[rx ry] rz]. unfold away, datum_misfit, datum_grad, tt, dist3, sq. intros Hd Hv Hs. simpl.
  pose proof (dist3_pos_arg x y z rx ry rz Hd) as Hp. unfold sq in Hp.
  auto_derive; [repeat split; auto|]. unfold Rminus in *. field. repeat split; auto.
Qed.

Lemma datum_dT e T v s o sd : v <> 0 -> sd <> 0 ->
  is_derive (fun t => datum_misfit e t v s (Some o) sd) T (snd (fst (datum_grad e T v s (Some o) sd))).
Proof.
  destruct e as [[x y] z], s as [[rx ry] rz]. unfold datum_misfit, datum_grad, tt, sq. intros Hv Hs. simpl.
  auto_derive; [repeat split; auto|]. unfold Rminus in *. field. repeat split; auto.
Qed.

Lemma datum_dv e T v s o sd : v <> 0 -> sd <> 0 ->
  is_derive (fun t => datum_misfit e T t s (Some o) sd) v (snd (datum_grad e T v s (Some o) sd)).
Proof.
  destruct e as [[x y] z], s as [[rx ry] rz]. unfold datum_misfit, datum_grad, tt, sq. intros Hv Hs. simpl.
  auto_derive; [repeat split; auto|]. unfold Rminus in *. field. repeat split; auto.
Qed.

(* a missing pick contributes nothing to misfit and gradient (so the gradient is finite wherever the misfit is) *)
Lemma datum_missing e T v s sd : datum_misfit e T v s None sd = 0 /\ datum_grad e T v s None sd = (0, 0, 0, 0, 0).
Proof. split; reflexivity. Qed.

(* sums over the stations of one event: T and v derivatives (the coordinate ones are analogous) *)
Lemma event_dT e v stations : forall obs sds T, v <> 0 -> List.Forall (fun sd => sd <> 0) sds ->
  is_derive (fun t => event_misfit e t v stations obs sds) T (snd (fst (event_grad e T v stations obs sds))).
Proof.
  induction stations as [|s ss IH]; intros obs sds T Hv Hs; simpl.
  - apply @is_derive_const.
  - destruct obs as [|o os]; [apply @is_derive_const|]. destruct sds as [|sd sdr]; [apply @is_derive_const|].
    inversion Hs as [|? ? Hsd Hr]; subst.
    specialize (IH os sdr T Hv Hr).
    destruct (event_grad e T v ss os sdr) as [[[[a1 a2] a3] a4] a5] eqn:E. simpl in IH.
    destruct o as [o|].
    + pose proof (datum_dT e T v s o sd Hv Hsd) as D.
      destruct (datum_grad e T v s (Some o) sd) as [[[[b1 b2] b3] b4] b5] eqn:E2. simpl in D. simpl.
      apply @is_derive_plus; assumption.
    + simpl. apply (is_derive_plus (fun _ => 0) _ _ 0); [apply @is_derive_const|exact IH].
Qed.

Lemma event_dv e T stations : forall obs sds v, v <> 0 -> List.Forall (fun sd => sd <> 0) sds ->
  is_derive (fun t => event_misfit e T t stations obs sds) v (snd (event_grad e T v stations obs sds)).
Proof.
  induction stations as [|s ss IH]; intros obs sds v Hv Hs; simpl.
  - apply @is_derive_const.
  - destruct obs as [|o os]; [apply @is_derive_const|]. destruct sds as [|sd sdr]; [apply @is_derive_const|].
    inversion Hs as [|? ? Hsd Hr]; subst.
    specialize (IH os sdr v Hv Hr).
    destruct (event_grad e T v ss os sdr) as [[[[a1 a2] a3] a4] a5] eqn:E. simpl in IH.
    destruct o as [o|].
    + pose proof (datum_dv e T v s o sd Hv Hsd) as D.
      destruct (datum_grad e T v s (Some o) sd) as [[[[b1 b2] b3] b4] b5] eqn:E2. simpl in D. simpl.
      apply @is_derive_plus; assumption.
    + simpl. apply (is_derive_plus (fun _ => 0) _ _ 0); [apply @is_derive_const|exact IH].
Qed.

Lemma event_dx y z T v stations : forall obs sds x, v <> 0 -> List.Forall (fun sd => sd <> 0) sds ->
  List.Forall (fun s => away (x, y, z) s) stations ->
  is_derive (fun t => event_misfit (t, y, z) T v stations obs sds) x (fst (fst (fst (fst (event_grad (x, y, z) T v stations obs sds))))).
Proof.
  induction stations as [|s ss IH]; intros obs sds x Hv Hs Ha; simpl.
  - apply @is_derive_const.
  - destruct obs as [|o os]; [apply @is_derive_const|]. destruct sds as [|sd sdr]; [apply @is_derive_const|].
    inversion Hs as [|? ? Hsd Hr]; subst. inversion Ha as [|? ? Has Har]; subst.
    specialize (IH os sdr x Hv Hr Har).
    destruct (event_grad (x, y, z) T v ss os sdr) as [[[[a1 a2] a3] a4] a5] eqn:E. simpl in IH.
    destruct o as [o|].
    + pose proof (datum_dx x y z T v s o sd Has Hv Hsd) as D.
      destruct (datum_grad (x, y, z) T v s (Some o) sd) as [[[[b1 b2] b3] b4] b5] eqn:E2. simpl in D. simpl.
      apply @is_derive_plus; assumption.
    + simpl. apply (is_derive_plus (fun _ => 0) _ _ 0); [apply @is_derive_const|exact IH].
Qed.

(* noise-free data: zero misfit and zero gradient at the true model *)
Lemma datum_truth e T v s sd : sd <> 0 ->
  datum_misfit e T v s (Some (tt e T v s)) sd = 0 /\ datum_grad e T v s (Some (tt e T v s)) sd = (0, 0, 0, 0, 0).
Proof.
  intros Hs. destruct e as [[x y] z], s as [[rx ry] rz]. unfold datum_misfit, datum_grad, sq. simpl.
  replace (tt (x, y, z) T v (rx, ry, rz) - tt (x, y, z) T v (rx, ry, rz)) with 0 by ring.
  split; [unfold Rdiv; ring|]. unfold Rdiv. repeat f_equal; ring.
Qed.

Theorem event_truth e T v stations : forall sds, List.Forall (fun sd => sd <> 0) sds ->
  event_misfit e T v stations (map (fun s => Some (tt e T v s)) stations) sds = 0 /\
  event_grad e T v stations (map (fun s => Some (tt e T v s)) stations) sds = (0, 0, 0, 0, 0).
Proof.
  induction stations as [|s ss IH]; intros sds Hs; cbn [event_misfit event_grad map]; [split; reflexivity|].
  destruct sds as [|sd sdr]; [split; reflexivity|]. inversion Hs as [|? ? Hsd Hr]; subst.
  destruct (IH sdr Hr) as [I1 I2]. destruct (datum_truth e T v s sd Hsd) as [D1 D2].
  rewrite I1, I2, D1, D2. split; [ring|]. unfold add5. repeat f_equal; ring.
Qed.
