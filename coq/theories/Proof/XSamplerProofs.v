(* Proofs about the sampler model at the extended-real instance: Metropolis decisions with
   non-finite energies (C02) and step-size autotuning (C16). *)
From Coq Require Import List Bool ZArith Reals Lra Lia.
From HV Require Import Num XReal Integrators Sampler SamplerProofs.
Import ListNotations.
Open Scope R_scope.

(* ---------------- C02: NaN / +inf energies are never accepted ---------------- *)
Lemma nonfinite_rejected (Ecur Eprop : xreal) (r : R) :
  Eprop = XNaN \/ Eprop = XPInf -> 0 <= r ->
  @accepts NumX (xexp (xsub Ecur Eprop)) (XF r) = false.
Proof.
  intros [->| ->] Hr; destruct Ecur; unfold accepts; simpl; try reflexivity;
    apply Rltb_false; lra.
Qed.

(* the acceptance probability is always in [0, +inf] or NaN *)
Definition valid_a (a : xreal) : Prop := a = XNaN \/ a = XPInf \/ exists r, a = XF r /\ 0 <= r.

Lemma xexp_valid d : valid_a (xexp d).
Proof.
  destruct d; simpl; unfold valid_a.
  - right; right. eexists; split; [reflexivity|]. left; apply exp_pos.
  - auto.
  - right; right. exists 0; split; [reflexivity|lra].
  - auto.
Qed.

(* ---------------- C16: autotuning ---------------- *)
Definition amin (a : xreal) : R :=
  match a with XF r => if Rltb 1 r then 1 else r | XPInf => 1 | _ => 0 end.

Definition clampR (mn s1 : R) : R := if Rleb s1 0 then mn else s1.

Section Tune.
  Variable powf : nat -> xreal.
  Variables (tg mn : R).
  Hypothesis mn_pos : 0 < mn.
  Let tu := @Build_tuning NumX true (XF tg) (XF mn).

  Lemma clamp_form x :
    (if Rleb x 0 then (if Rltb x mn then XF mn else XF x) else XF x) = XF (clampR mn x).
  Proof.
    unfold clampR. destruct (Rleb x 0) eqn:E; [|reflexivity].
    apply Rleb_true in E. replace (Rltb x mn) with true; [reflexivity|].
    symmetry; apply Rltb_true; lra.
  Qed.

  Lemma autotune_update i a s w : valid_a a -> powf i = XF w ->
    @autotune_step NumX powf tu i a (XF s) = XF (clampR mn (s - w * (tg - amin a))).
  Proof.
    intros Ha Hw. unfold autotune_step, pymin, pymax. rewrite Hw. simpl.
    destruct Ha as [->|[->|(r & -> & Hr)]]; simpl.
    - replace (Rltb 1 0) with false by (symmetry; apply Rltb_false; lra). simpl.
      rewrite clamp_form. apply f_equal. apply f_equal. lra.
    - rewrite clamp_form. apply f_equal. apply f_equal. lra.
    - destruct (Rltb 1 r) eqn:E1; simpl; rewrite clamp_form; apply f_equal; apply f_equal; lra.
  Qed.

  Lemma amin_range a : valid_a a -> 0 <= amin a <= 1.
  Proof.
    intros [->|[->|(r & -> & Hr)]]; simpl; try lra.
    destruct (Rltb 1 r) eqn:E; [lra|]. apply Rltb_false in E. lra.
  Qed.

  Lemma clamp_pos s1 : 0 < clampR mn s1.
  Proof. unfold clampR. destruct (Rleb s1 0) eqn:E; [lra|]. apply Rleb_false in E. lra. Qed.

  (* finite and positive after every update, whatever the acceptance probability *)
  Lemma autotune_positive i a s w : valid_a a -> powf i = XF w ->
    exists r, @autotune_step NumX powf tu i a (XF s) = XF r /\ 0 < r.
  Proof. intros Ha Hw. eexists. split; [apply autotune_update; eassumption|apply clamp_pos]. Qed.

  (* direction: easy acceptances never shrink the step, rejections never grow it beyond the clamp *)
  Lemma autotune_grows i a s w : powf i = XF w -> 0 <= w -> tg <= 1 -> 0 < s ->
    (a = XPInf \/ exists r, a = XF r /\ 1 <= r) ->
    exists r', @autotune_step NumX powf tu i a (XF s) = XF r' /\ s <= r'.
  Proof.
    intros Hw Hw0 Htg Hs Ha.
    assert (Hv : valid_a a) by (destruct Ha as [->|(r & -> & Hr)]; unfold valid_a; [auto|right; right; exists r; split; [auto|lra]]).
    assert (Hm : amin a = 1).
    { destruct Ha as [->|(r & -> & Hr)]; simpl; [reflexivity|].
      destruct (Rltb 1 r) eqn:E; [reflexivity|]. apply Rltb_false in E. lra. }
    eexists; split; [apply autotune_update; eassumption|]. rewrite Hm. unfold clampR.
    assert (0 <= w * (1 - tg)) by (apply Rmult_le_pos; lra).
    destruct (Rleb (s - w * (tg - 1)) 0) eqn:E; [apply Rleb_true in E|]; lra.
  Qed.

  Lemma autotune_shrinks i a s w : powf i = XF w -> 0 <= w -> 0 <= tg -> 0 < s ->
    (a = XNaN \/ a = XF 0) ->
    exists r', @autotune_step NumX powf tu i a (XF s) = XF r' /\ r' <= Rmax s mn.
  Proof.
    intros Hw Hw0 Htg Hs Ha.
    assert (Hv : valid_a a) by (destruct Ha as [->| ->]; unfold valid_a; [auto|right; right; exists 0; split; [auto|lra]]).
    assert (Hm : amin a = 0).
    { destruct Ha as [->| ->]; simpl; [reflexivity|].
      destruct (Rltb 1 0) eqn:E; [apply Rltb_true in E; lra|reflexivity]. }
    eexists; split; [apply autotune_update; eassumption|]. rewrite Hm. unfold clampR.
    assert (0 <= w * tg) by (apply Rmult_le_pos; lra).
    destruct (Rleb (s - w * (tg - 0)) 0) eqn:E.
    - apply Rmax_r.
    - eapply Rle_trans; [|apply Rmax_l]. lra.
  Qed.

  (* size of the (pre-clamp) change: at most weight * max(target, 1 - target) *)
  Lemma autotune_diminishing a s w : valid_a a -> 0 <= w -> 0 <= tg <= 1 ->
    Rabs ((s - w * (tg - amin a)) - s) <= w * Rmax tg (1 - tg).
  Proof.
    intros Ha Hw Htg. pose proof (amin_range a Ha) as Hm.
    replace (s - w * (tg - amin a) - s) with (w * (amin a - tg)) by lra.
    rewrite Rabs_mult, (Rabs_pos_eq w) by lra.
    apply Rmult_le_compat_l; [lra|].
    apply Rabs_le. split.
    - apply Rle_trans with (- tg); [|lra]. apply Ropp_le_contravar, Rmax_l.
    - apply Rle_trans with (1 - tg); [lra|apply Rmax_r].
  Qed.
End Tune.

(* the schedule weights (i+1)^(-lr) are positive, at most one and strictly decreasing *)
Definition powR (lr : R) (i : nat) : R := Rpower (INR (S i)) (- lr).

Lemma powR_pos lr i : 0 < powR lr i.
Proof. unfold powR, Rpower. apply exp_pos. Qed.

Lemma powR_decreasing lr i : 0 < lr -> powR lr (S i) < powR lr i.
Proof.
  intros Hlr. unfold powR. rewrite !Rpower_Ropp.
  assert (H1 : 0 < INR (S i)) by (apply lt_0_INR; lia).
  assert (H2 : INR (S i) < INR (S (S i))) by (apply lt_INR; lia).
  apply Rinv_lt_contravar.
  - apply Rmult_lt_0_compat; unfold Rpower; apply exp_pos.
  - apply Rlt_Rpower_l; [exact Hlr|split; assumption].
Qed.

Lemma powR_le_1 lr i : 0 < lr -> powR lr i <= 1.
Proof.
  intros Hlr. induction i as [|i IH].
  - unfold powR, Rpower. simpl INR. rewrite ln_1, Rmult_0_r, exp_0. lra.
  - left. eapply Rlt_le_trans; [apply powR_decreasing; exact Hlr|exact IH].
Qed.

(* ---------------- run level: every step size ever used is finite and positive ---------------- *)
Section RunTune.
  Notation V := (@vec NumX).
  Variable misfit : V -> xreal.
  Variable grad : V -> V.
  Variable corr : V -> V -> V * V.
  Variable kin : V -> xreal.
  Variable kgrad : V -> V.
  Variable genmom : V -> V.
  Variables (lr tg mn : R).
  Hypothesis mn_pos : 0 < mn.
  Let powf (i : nat) : xreal := XF (powR lr i).

  Definition pos_step (s : @st NumX) : Prop := exists r, step s = XF r /\ 0 < r.

  Definition tuned (sm : @sampler NumX) : Prop :=
    tuning_of sm = @Build_tuning NumX true (XF tg) (XF mn) \/ t_on (tuning_of sm) = false.

  Lemma tune_pos tu i d s : pos_step s ->
    tu = @Build_tuning NumX true (XF tg) (XF mn) \/ t_on tu = false ->
    pos_step (@tune NumX powf tu i (xexp d) s).
  Proof.
    intros (r & Hs & Hr) [-> | Hoff]; unfold tune.
    - simpl t_on. cbv iota. unfold pos_step. simpl step. rewrite Hs.
      eapply autotune_positive; [exact mn_pos|apply xexp_valid|reflexivity].
    - rewrite Hoff. exists r; auto.
  Qed.

  Lemma trans_pos sm i s e : tuned sm -> pos_step s ->
    pos_step (fst (@trans NumX misfit grad corr kin kgrad genmom xexp powf sm i s e)).
  Proof.
    intros Ht Hp. destruct sm as [c|c]; simpl in *.
    - unfold rwmh_step.
      match goal with |- context [tune powf ?tu ?i (xexp ?d) ?s] =>
        pose proof (tune_pos tu i d s Hp Ht) as (r & Hr & Hpos) end.
      destruct (accepts _ _); simpl; exists r; auto.
    - unfold hmc_step. destruct (propagate _ _ _ _ _ _ _ _ _ _ _) as [[pq pp] tr1].
      match goal with |- context [tune powf ?tu ?i (xexp ?d) ?s] =>
        pose proof (tune_pos tu i d s Hp Ht) as (r & Hr & Hpos) end.
      destruct (accepts _ _); simpl; exists r; auto.
  Qed.

  Lemma run_steps_positive sm evs : tuned sm -> forall i s, pos_step s ->
    Forall pos_step (states_before misfit grad corr kin kgrad genmom xexp powf sm i s evs) /\
    pos_step (final (@run_from NumX misfit grad corr kin kgrad genmom xexp powf sm 1 i s evs)).
  Proof.
    intros Ht. induction evs as [|e evs IH]; intros i s Hp.
    - split; [constructor|exact Hp].
    - rewrite run_from_unfold, final_mk. cbn [states_before].
      destruct (IH (S i) _ (trans_pos sm i s e Ht Hp)) as [H1 H2].
      split; [constructor; assumption|exact H2].
  Qed.
End RunTune.
