From mathcomp Require Import all_ssreflect all_algebra.
From mathcomp.algebra_tactics Require Import ring.
Set Implicit Arguments. Unset Strict Implicit. Unset Printing Implicit Defensive.
Import Order.TTheory GRing.Theory Num.Theory.
Local Open Scope ring_scope.

Section Kernel.
  Variable (F : realFieldType).

  Definition invariant (X : finType) (pi : X -> F) (K : X -> X -> F) : Prop :=
    forall y, \sum_x pi x * K x y = pi y.

  Lemma sum_indicator (X : finType) (f : X -> F) (c : X) : \sum_x f x * (x == c)%:R = f c.
  Proof.
    rewrite (bigD1 c) //= eqxx mulr1 big1 ?addr0 // => i /negbTE ->. by rewrite mulr0.
  Qed.

  (* invariance is closed under composition, hence under any number of transitions *)
  Definition comp (X : finType) (K1 K2 : X -> X -> F) : X -> X -> F := fun x z => \sum_y K1 x y * K2 y z.

  Lemma comp_invariant (X : finType) (pi : X -> F) K1 K2 : invariant pi K1 -> invariant pi K2 -> invariant pi (comp K1 K2).
  Proof.
    move=> H1 H2 z. rewrite /comp.
    under eq_bigr => x _ do rewrite mulr_sumr.
    rewrite exchange_big /=.
    under eq_bigr => y _ do (under eq_bigr => x _ do rewrite mulrA; rewrite -mulr_suml H1).
    exact: H2.
  Qed.

  Fixpoint iter_kernel (X : finType) (K : X -> X -> F) (n : nat) : X -> X -> F :=
    match n with O => fun x y => (x == y)%:R | S n' => comp (iter_kernel K n') K end.

  Lemma iter_invariant (X : finType) (pi : X -> F) K n : invariant pi K -> invariant pi (iter_kernel K n).
  Proof.
    move=> H. elim: n => [|n IH] /=.
    - move=> y. exact: sum_indicator.
    - exact: comp_invariant.
  Qed.

  (* Metropolis test after a deterministic involution (HMC: momentum flip o trajectory) *)
  Section Involution.
    Variables (X : finType) (pi : X -> F) (Phi : X -> X).
    Hypothesis pi_pos : forall x, 0 < pi x.
    Hypothesis Phi_inv : forall x, Phi (Phi x) = x.

    Definition acc (x : X) : F := if pi x <= pi (Phi x) then 1 else pi (Phi x) / pi x.
    Definition Kinv (x y : X) : F := acc x * (y == Phi x)%:R + (1 - acc x) * (y == x)%:R.

    Lemma balance y : pi (Phi y) * acc (Phi y) = pi y * acc y.
    Proof.
      rewrite /acc Phi_inv. case: (lerP (pi y) (pi (Phi y))) => H1; case: (lerP (pi (Phi y)) (pi y)) => H2.
      - have E : pi y = pi (Phi y) by apply: le_anti; rewrite H1 H2. by rewrite E.
      - by rewrite mulr1 mulrC divfK // gt_eqF.
      - by rewrite mulr1 mulrC divfK // gt_eqF.
      - by move: (lt_trans H1 H2); rewrite ltxx.
    Qed.

    Theorem involution_metropolis_invariant : invariant pi Kinv.
    Proof.
      move=> y. rewrite /Kinv.
      under eq_bigr => x _ do rewrite mulrDr !mulrA.
      rewrite big_split /=.
      have -> : \sum_x pi x * acc x * (y == Phi x)%:R = pi (Phi y) * acc (Phi y).
        have E : forall x, (y == Phi x) = (x == Phi y).
          move=> x. apply/eqP/eqP => [->|->]; by rewrite Phi_inv.
        under eq_bigr => x _ do rewrite E.
        exact: (sum_indicator (fun x => pi x * acc x)).
      have -> : \sum_x pi x * (1 - acc x) * (y == x)%:R = pi y * (1 - acc y).
        under eq_bigr => x _ do rewrite eq_sym.
        exact: (sum_indicator (fun x => pi x * (1 - acc x))).
      by rewrite balance mulrBr mulr1 addrC subrK.
    Qed.
  End Involution.
  (* Metropolis with a symmetric proposal (RWMH) *)
  Section Symmetric.
    Variables (X : finType) (pi : X -> F) (q : X -> X -> F).
    Hypothesis pi_pos : forall x, 0 < pi x.
    Hypothesis q_sym : forall x y, q x y = q y x.
    Hypothesis q_norm : forall x, \sum_y q x y = 1.

    Definition acc2 (x y : X) : F := if pi x <= pi y then 1 else pi y / pi x.
    Definition Ksym (x y : X) : F := q x y * acc2 x y + (x == y)%:R * (1 - \sum_z q x z * acc2 x z).

    Lemma balance2 x y : pi x * (q x y * acc2 x y) = pi y * (q y x * acc2 y x).
    Proof.
      rewrite /acc2 (q_sym y x). case: (lerP (pi x) (pi y)) => H1; case: (lerP (pi y) (pi x)) => H2.
      - have E : pi x = pi y by apply: le_anti; rewrite H1 H2. by rewrite E.
      - have Hy : pi y != 0 by rewrite gt_eqF. by field.
      - have Hx : pi x != 0 by rewrite gt_eqF. by field.
      - by move: (lt_trans H1 H2); rewrite ltxx.
    Qed.

    Theorem symmetric_metropolis_invariant : invariant pi Ksym.
    Proof.
      move=> y. rewrite /Ksym.
      under eq_bigr => x _ do rewrite mulrDr.
      rewrite big_split /=.
      under eq_bigr => x _ do rewrite balance2.
      rewrite -mulr_sumr.
      have -> : \sum_x pi x * ((x == y)%:R * (1 - \sum_z q x z * acc2 x z)) = pi y * (1 - \sum_z q y z * acc2 y z).
        under eq_bigr => x _ do rewrite mulrA [pi x * _]mulrC -mulrA [_%:R * _]mulrC.
        exact: (sum_indicator (fun x => pi x * (1 - \sum_z q x z * acc2 x z))).
      by rewrite -mulrDr addrC subrK mulr1.
    Qed.
  End Symmetric.

  (* momentum refreshment: a fresh p from its own law rho, x untouched (Gibbs step on the joint target) *)
  Section Refresh.
    Variables (X P : finType) (pi : X -> F) (rho : P -> F).
    Hypothesis rho_norm : \sum_p rho p = 1.
    Definition joint (s : X * P) : F := pi s.1 * rho s.2.
    Definition Kref (s s' : X * P) : F := (s.1 == s'.1)%:R * rho s'.2.

    Theorem refresh_invariant : invariant joint Kref.
    Proof.
      case=> x' p'. rewrite /joint /Kref /=.
      rewrite (eq_bigr (fun s : X * P => (pi s.1 * (s.1 == x')%:R) * rho s.2 * rho p')); last first.
        by case=> x p _ /=; rewrite !mulrA; congr (_ * _); rewrite -!mulrA [rho p * _]mulrC.
      rewrite -mulr_suml. rewrite -(pair_big xpredT xpredT (fun x p => pi x * (x == x')%:R * rho p)) /=.
      under eq_bigr => x _ do rewrite -mulr_sumr rho_norm mulr1.
      by rewrite (sum_indicator pi).
    Qed.
  End Refresh.

  (* one HMC transition = refresh the momentum, then Metropolis test after an involution of phase space *)
  Theorem hmc_transition_invariant (X P : finType) (pi : X -> F) (rho : P -> F) (Phi : X * P -> X * P) :
    \sum_p rho p = 1 -> (forall s, 0 < joint pi rho s) -> (forall s, Phi (Phi s) = s) ->
    forall n, invariant (joint pi rho) (iter_kernel (comp (@Kref X P rho) (Kinv (joint pi rho) Phi)) n).
  Proof.
    move=> Hr Hp Hi n. apply: iter_invariant. apply: comp_invariant.
    - exact: refresh_invariant.
    - exact: involution_metropolis_invariant.
  Qed.
End Kernel.
