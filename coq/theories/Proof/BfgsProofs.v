From Coq Require Import List Bool Arith Lia.
From HV Require Import Bfgs.
Import ListNotations.

Record BInv (s : bstate) : Prop := { bi_now : lt_of s = minv s; bi_bk : bk_lt s = bk_minv s }.

Lemma binv_init : BInv binit. Proof. split; reflexivity. Qed.

Lemma binv_step s o : BInv s -> BInv (bstep s o).
Proof.
  intros [H1 H2]. destruct o as [pos ok| |]; simpl.
  - destruct ok; split; simpl; auto.
  - split; simpl; auto.
  - split; simpl; auto.
Qed.

(* for every history: momenta are generated with the factor of the very metric that defines the kinetic energy *)
Theorem bfgs_consistent ops : consistent (brun ops).
Proof.
  unfold brun. assert (H : BInv (fold_left bstep ops binit)).
  { generalize binv_init. generalize binit. induction ops as [|o ops IH]; intros s Hs; simpl; [exact Hs|].
    apply IH. apply binv_step. exact Hs. }
  destruct H. assumption.
Qed.

(* a rejection restores exactly the state of the last acceptance (metric, factor and reference pair) *)
Theorem bfgs_reject_restores ops1 traj :
  Forall (fun o => match o with Update _ _ => True | _ => False end) traj ->
  let s_acc := brun (ops1 ++ [Accept]) in
  let s_rej := brun (ops1 ++ [Accept] ++ traj ++ [Reject]) in
  minv s_rej = minv s_acc /\ lt_of s_rej = lt_of s_acc /\ refp s_rej = refp s_acc.
Proof.
  intros Ht. cbv zeta. unfold brun. rewrite !fold_left_app.
  change (fold_left bstep [Accept] ?s) with (bstep s Accept).
  set (s0 := bstep (fold_left bstep ops1 binit) Accept).
  assert (Hb : forall s, bk_minv (fold_left bstep traj s) = bk_minv s /\ bk_lt (fold_left bstep traj s) = bk_lt s
                         /\ bk_ref (fold_left bstep traj s) = bk_ref s).
  { induction Ht as [|o traj Ho Ht IH]; intros s; simpl; [auto|].
    destruct o as [pos ok| |]; try contradiction.
    destruct (IH (bstep s (Update pos ok))) as [A [B C]]. rewrite A, B, C. simpl. destruct ok; auto. }
  destruct (Hb s0) as [A [B C]]. cbn [fold_left bstep minv lt_of refp]. rewrite A, B, C. unfold s0. simpl. auto.
Qed.
