(* C12: the canonical (sequential) run of the exchange network exists for every schedule that the run
   can index, so -- by Kahn determinacy (NetworkProofs) -- every interleaving of the chains' steps is
   finite, cannot get stuck before all chains are done, and ends in the same state. *)
From Coq Require Import List Bool Arith Lia FunctionalExtensionality.
From HV Require Import Num Network NetworkProofs Exchange.
Import ListNotations.

(* ------------------------------------------------------------------------------------------------ *)
(* generic network lemmas                                                                            *)
(* ------------------------------------------------------------------------------------------------ *)
Section Gen.
  Variables (L M : Type).
  Variable cap : option nat.
  (* every queue holds at least one message (cap >= 1, or unbounded) *)
  Hypothesis cap1 : room M cap [] = true.
  Notation proc := (proc L M).
  Notation net := (net L M).
  Notation gp := (gpath net nat (step L M cap)).
  Notation updp := (updp L M).
  Notation updq := (updq M).

  Lemma gp_app a n b : gp a n b -> forall m c, gp b m c -> gp a (n + m) c.
  Proof. induction 1 as [|s l t n u Hs Hp IH]; intros m c Hc; simpl; [exact Hc|]. econstructor; eauto. Qed.

  Lemma updp_length (ps : list proc) : forall i p, length (updp ps i p) = length ps.
  Proof. induction ps as [|x ps IH]; intros [|i] p; simpl; auto. Qed.

  Lemma updp_twice (ps : list proc) : forall i p q, updp (updp ps i p) i q = updp ps i q.
  Proof. induction ps as [|x ps IH]; intros [|i] p q; simpl; auto. f_equal. apply IH. Qed.

  Lemma updp_id (ps : list proc) : forall i p, nth_error ps i = Some p -> updp ps i p = ps.
  Proof.
    induction ps as [|x ps IH]; intros [|i] p H; simpl in *; try discriminate; auto.
    - inversion H. reflexivity.
    - f_equal. apply IH. exact H.
  Qed.

  Lemma updp_app (done : list proc) x todo y : updp (done ++ x :: todo) (length done) y = done ++ y :: todo.
  Proof. induction done as [|d done IH]; simpl; [reflexivity|]. f_equal. exact IH. Qed.

  Lemma nth_error_mid (done : list proc) x todo : nth_error (done ++ x :: todo) (length done) = Some x.
  Proof. induction done as [|d done IH]; simpl; auto. Qed.

  (* ---- a block of processes whose next action is local ---- *)
  Definition head_local (pr : proc) : Prop := exists f r, prog pr = ALocal f :: r.

  Lemma locals_run q : forall todo done, Forall head_local todo ->
    gp {| procs := done ++ todo; qs := q |} (length todo) {| procs := done ++ map (adv L M) todo; qs := q |}.
  Proof.
    induction todo as [|x todo IH]; intros done H; simpl.
    - constructor.
    - inversion H as [|x0 l0 (f & r & Hx) Hrest]; subst.
      eapply gpS with (l := length done) (t := {| procs := done ++ adv L M x :: todo; qs := q |}).
      + unfold step, fire. simpl. rewrite nth_error_mid, Hx, updp_app. unfold adv. rewrite Hx. reflexivity.
      + specialize (IH (done ++ [adv L M x]) Hrest). rewrite <- !app_assoc in IH. simpl in IH. exact IH.
  Qed.

  Lemma locals_run_all q ps : Forall head_local ps ->
    gp {| procs := ps; qs := q |} (length ps) {| procs := map (adv L M) ps; qs := q |}.
  Proof. intros H. exact (locals_run q ps [] H). Qed.

  (* ---- a computable test for "no process can move" ---- *)
  Definition stuckb (s : net) : bool :=
    forallb (fun i => match fire L M cap s i with None => true | Some _ => false end) (seq 0 (length (procs s))).

  Lemma stuckb_sound s : stuckb s = true -> gterminal net nat (step L M cap) s.
  Proof.
    unfold stuckb, gterminal, step. intros H i t Hf. rewrite forallb_forall in H.
    destruct (Nat.lt_ge_cases i (length (procs s))) as [Hlt|Hge].
    - specialize (H i ltac:(apply in_seq; lia)). rewrite Hf in H. discriminate.
    - unfold fire in Hf. apply nth_error_None in Hge. rewrite Hge in Hf. discriminate.
  Qed.

  (* ---- two processes talking over their two queues ---- *)
  Section Two.
    Variables (ps0 : list proc) (q0 : queues M) (s m : nat).
    Hypothesis Hsm : s <> m.
    Hypothesis Hs : s < length ps0.
    Hypothesis Hm : m < length ps0.

    Definition st2 (X Y : proc) (A B : list M) : net :=
      {| procs := updp (updp ps0 s X) m Y; qs := updq (updq q0 s m A) m s B |}.

    Lemma st2_s X Y A B : nth_error (procs (st2 X Y A B)) s = Some X.
    Proof. simpl. rewrite nth_updp_other by (intro E; apply Hsm; auto). apply nth_updp_same. exact Hs. Qed.
    Lemma st2_m X Y A B : nth_error (procs (st2 X Y A B)) m = Some Y.
    Proof. simpl. apply nth_updp_same. rewrite updp_length. exact Hm. Qed.
    Lemma st2_qsm X Y A B : qs (st2 X Y A B) s m = A.
    Proof. simpl. rewrite updq_other by (intro E; inversion E; apply Hsm; auto). apply updq_get. Qed.
    Lemma st2_qms X Y A B : qs (st2 X Y A B) m s = B.
    Proof. simpl. apply updq_get. Qed.

    Lemma st2_set_s X Y X' : updp (updp (updp ps0 s X) m Y) s X' = updp (updp ps0 s X') m Y.
    Proof. rewrite (updp_comm L M (updp ps0 s X) m s Y X') by (intro E; apply Hsm; auto). rewrite updp_twice. reflexivity. Qed.
    Lemma st2_set_m X Y Y' : updp (updp (updp ps0 s X) m Y) m Y' = updp (updp ps0 s X) m Y'.
    Proof. apply updp_twice. Qed.
    Lemma st2_set_qsm A B A' : updq (updq (updq q0 s m A) m s B) s m A' = updq (updq q0 s m A') m s B.
    Proof.
      rewrite (updq_comm M (updq q0 s m A) m s s m B A') by (intro E; inversion E; apply Hsm; auto).
      rewrite updq_twice. reflexivity.
    Qed.
    Lemma st2_set_qms A B B' : updq (updq (updq q0 s m A) m s B) m s B' = updq (updq q0 s m A) m s B'.
    Proof. apply updq_twice. Qed.

    Lemma s_local X Y A B f r : prog X = ALocal f :: r ->
      step L M cap (st2 X Y A B) s (st2 {| loc := f (loc X); prog := r |} Y A B).
    Proof. intros HX. unfold step, fire. rewrite st2_s, HX. unfold st2. simpl. rewrite st2_set_s. reflexivity. Qed.
    Lemma m_local X Y A B f r : prog Y = ALocal f :: r ->
      step L M cap (st2 X Y A B) m (st2 X {| loc := f (loc Y); prog := r |} A B).
    Proof. intros HY. unfold step, fire. rewrite st2_m, HY. unfold st2. simpl. rewrite st2_set_m. reflexivity. Qed.
    Lemma s_send X Y A B g r : prog X = ASend m g :: r -> room M cap A = true ->
      step L M cap (st2 X Y A B) s (st2 {| loc := loc X; prog := r |} Y (A ++ [g (loc X)]) B).
    Proof.
      intros HX HR. unfold step, fire. rewrite st2_s, HX, st2_qsm, HR. unfold st2. simpl.
      rewrite st2_set_s, st2_set_qsm. reflexivity.
    Qed.
    Lemma m_send X Y A B g r : prog Y = ASend s g :: r -> room M cap B = true ->
      step L M cap (st2 X Y A B) m (st2 X {| loc := loc Y; prog := r |} A (B ++ [g (loc Y)])).
    Proof.
      intros HY HR. unfold step, fire. rewrite st2_m, HY, st2_qms, HR. unfold st2. simpl.
      rewrite st2_set_m, st2_set_qms. reflexivity.
    Qed.
    Lemma s_recv X Y A b B h r : prog X = ARecv m h :: r ->
      step L M cap (st2 X Y A (b :: B)) s (st2 {| loc := h (loc X) b; prog := r |} Y A B).
    Proof.
      intros HX. unfold step, fire. rewrite st2_s, HX, st2_qms. unfold st2. simpl.
      rewrite st2_set_s, st2_set_qms. reflexivity.
    Qed.
    Lemma m_recv X Y a A B h r : prog Y = ARecv s h :: r ->
      step L M cap (st2 X Y (a :: A) B) m (st2 X {| loc := h (loc Y) a; prog := r |} A B).
    Proof.
      intros HY. unfold step, fire. rewrite st2_m, HY, st2_qsm. unfold st2. simpl.
      rewrite st2_set_m, st2_set_qsm. reflexivity.
    Qed.

    (* the four-message ping-pong of the exchange protocol, for arbitrary payload functions *)
    Lemma pingpong X Y g1 h2 g3 h4 rs h1 g2 h3 f4 g5 f6 rm :
      prog X = [ASend m g1; ARecv m h2; ASend m g3; ARecv m h4] ++ rs ->
      prog Y = [ARecv s h1; ASend s g2; ARecv s h3; ALocal f4; ASend s g5; ALocal f6] ++ rm ->
      let a := loc X in let b := loc Y in
      let b1 := h1 b (g1 a) in
      let a2 := h2 a (g2 b1) in
      let b3 := h3 b1 (g3 a2) in
      let b4 := f4 b3 in
      gp (st2 X Y [] []) 10 (st2 {| loc := h4 a2 (g5 b4); prog := rs |} {| loc := f6 b4; prog := rm |} [] []).
    Proof.
      intros HX HY a b b1 a2 b3 b4. simpl in HX, HY.
      eapply gpS; [apply s_send; [exact HX|exact cap1]|]. simpl app.
      eapply gpS; [apply m_recv; exact HY|].
      eapply gpS; [apply m_send; [reflexivity|exact cap1]|]. simpl app.
      eapply gpS; [apply s_recv; reflexivity|].
      eapply gpS; [apply s_send; [reflexivity|exact cap1]|]. simpl app.
      eapply gpS; [apply m_recv; reflexivity|].
      eapply gpS; [apply m_local; reflexivity|].
      eapply gpS; [apply m_send; [reflexivity|exact cap1]|]. simpl app.
      eapply gpS; [apply m_local; reflexivity|].
      eapply gpS; [apply s_recv; reflexivity|].
      simpl. constructor.
    Qed.

    Lemma st2_start X Y : nth_error ps0 s = Some X -> nth_error ps0 m = Some Y -> q0 s m = [] -> q0 m s = [] ->
      st2 X Y [] [] = {| procs := ps0; qs := q0 |}.
    Proof.
      intros HX HY Q1 Q2. unfold st2. f_equal.
      - rewrite (updp_id ps0 s X HX). apply updp_id. exact HY.
      - extensionality x. extensionality y. unfold Network.updq.
        destruct (Nat.eqb x m && Nat.eqb y s) eqn:E1.
        { apply andb_true_iff in E1. destruct E1 as [E1 E2]. apply Nat.eqb_eq in E1, E2. subst. auto. }
        destruct (Nat.eqb x s && Nat.eqb y m) eqn:E2; [|reflexivity].
        apply andb_true_iff in E2. destruct E2 as [E2 E3]. apply Nat.eqb_eq in E2, E3. subst. auto.
    Qed.

    Lemma st2_end X Y : q0 s m = [] -> q0 m s = [] ->
      st2 X Y [] [] = {| procs := updp (updp ps0 s X) m Y; qs := q0 |}.
    Proof.
      intros Q1 Q2. unfold st2. f_equal.
      extensionality x. extensionality y. unfold Network.updq.
      destruct (Nat.eqb x m && Nat.eqb y s) eqn:E1.
      { apply andb_true_iff in E1. destruct E1 as [E1 E2]. apply Nat.eqb_eq in E1, E2. subst. auto. }
      destruct (Nat.eqb x s && Nat.eqb y m) eqn:E2; [|reflexivity].
      apply andb_true_iff in E2. destruct E2 as [E2 E3]. apply Nat.eqb_eq in E2, E3. subst. auto.
    Qed.
  End Two.

  (* ---- the same with synchronous pipes ---- *)
  Lemma slocals_run q : forall todo done, Forall head_local todo ->
    gpath net nat (sstep L M) {| procs := done ++ todo; qs := q |} (length todo) {| procs := done ++ map (adv L M) todo; qs := q |}.
  Proof.
    induction todo as [|x todo IH]; intros done H; simpl.
    - constructor.
    - inversion H as [|x0 l0 (f & r & Hx) Hrest]; subst.
      eapply gpS with (l := length done) (t := {| procs := done ++ adv L M x :: todo; qs := q |}).
      + unfold sstep, sfire. simpl. rewrite nth_error_mid, Hx, updp_app. unfold adv. rewrite Hx. reflexivity.
      + specialize (IH (done ++ [adv L M x]) Hrest). rewrite <- !app_assoc in IH. simpl in IH. exact IH.
  Qed.

  Lemma slocals_run_all q ps : Forall head_local ps ->
    gpath net nat (sstep L M) {| procs := ps; qs := q |} (length ps) {| procs := map (adv L M) ps; qs := q |}.
  Proof. intros H. exact (slocals_run q ps [] H). Qed.

  Section TwoSync.
    Variables (ps0 : list proc) (q0 : queues M) (s m : nat).
    Hypothesis Hsm : s <> m.
    Hypothesis Hs : s < length ps0.
    Hypothesis Hm : m < length ps0.

    Definition sst (X Y : proc) : net := {| procs := updp (updp ps0 s X) m Y; qs := q0 |}.

    Lemma sst_s X Y : nth_error (procs (sst X Y)) s = Some X.
    Proof. simpl. rewrite nth_updp_other by (intro E; apply Hsm; auto). apply nth_updp_same. exact Hs. Qed.
    Lemma sst_m X Y : nth_error (procs (sst X Y)) m = Some Y.
    Proof. simpl. apply nth_updp_same. rewrite updp_length. exact Hm. Qed.

    Lemma sst_set_s X Y X' : updp (updp (updp ps0 s X) m Y) s X' = updp (updp ps0 s X') m Y.
    Proof. rewrite (updp_comm L M (updp ps0 s X) m s Y X') by (intro E; apply Hsm; auto). rewrite updp_twice. reflexivity. Qed.

    Lemma ss_local X Y f r : prog X = ALocal f :: r -> sstep L M (sst X Y) s (sst {| loc := f (loc X); prog := r |} Y).
    Proof. intros HX. unfold sstep, sfire. rewrite sst_s, HX. unfold sst. simpl. rewrite sst_set_s. reflexivity. Qed.
    Lemma sm_local X Y f r : prog Y = ALocal f :: r -> sstep L M (sst X Y) m (sst X {| loc := f (loc Y); prog := r |}).
    Proof. intros HY. unfold sstep, sfire. rewrite sst_m, HY. unfold sst. simpl. rewrite updp_twice. reflexivity. Qed.

    (* s sends, m receives: one joint step *)
    Lemma ss_comm X Y g r h r' : prog X = ASend m g :: r -> prog Y = ARecv s h :: r' ->
      sstep L M (sst X Y) s (sst {| loc := loc X; prog := r |} {| loc := h (loc Y) (g (loc X)); prog := r' |}).
    Proof.
      intros HX HY. unfold sstep, sfire. rewrite sst_s, HX.
      destruct (Nat.eqb_spec s m) as [E|_]; [exfalso; auto|].
      rewrite sst_m, HY, Nat.eqb_refl. unfold sst. simpl.
      rewrite sst_set_s, updp_twice. reflexivity.
    Qed.
    (* m sends, s receives *)
    Lemma sm_comm X Y g r h r' : prog Y = ASend s g :: r -> prog X = ARecv m h :: r' ->
      sstep L M (sst X Y) m (sst {| loc := h (loc X) (g (loc Y)); prog := r' |} {| loc := loc Y; prog := r |}).
    Proof.
      intros HY HX. unfold sstep, sfire. rewrite sst_m, HY.
      destruct (Nat.eqb_spec m s) as [E|_]; [exfalso; auto|].
      rewrite sst_s, HX, Nat.eqb_refl. unfold sst. simpl.
      rewrite updp_twice, sst_set_s. reflexivity.
    Qed.

    Lemma spingpong X Y g1 h2 g3 h4 rs h1 g2 h3 f4 g5 f6 rm :
      prog X = [ASend m g1; ARecv m h2; ASend m g3; ARecv m h4] ++ rs ->
      prog Y = [ARecv s h1; ASend s g2; ARecv s h3; ALocal f4; ASend s g5; ALocal f6] ++ rm ->
      let a := loc X in let b := loc Y in
      let b1 := h1 b (g1 a) in
      let a2 := h2 a (g2 b1) in
      let b3 := h3 b1 (g3 a2) in
      let b4 := f4 b3 in
      gpath net nat (sstep L M) (sst X Y) 6 (sst {| loc := h4 a2 (g5 b4); prog := rs |} {| loc := f6 b4; prog := rm |}).
    Proof.
      intros HX HY a b b1 a2 b3 b4. simpl in HX, HY.
      eapply gpS; [apply ss_comm; [exact HX|exact HY]|].
      eapply gpS; [apply sm_comm; reflexivity|].
      eapply gpS; [apply ss_comm; reflexivity|].
      eapply gpS; [apply sm_local; reflexivity|].
      eapply gpS; [apply sm_comm; reflexivity|].
      eapply gpS; [apply sm_local; reflexivity|].
      simpl. constructor.
    Qed.

    Lemma sst_start X Y : nth_error ps0 s = Some X -> nth_error ps0 m = Some Y -> sst X Y = {| procs := ps0; qs := q0 |}.
    Proof. intros HX HY. unfold sst. f_equal. rewrite (updp_id ps0 s X HX). apply updp_id. exact HY. Qed.
  End TwoSync.
End Gen.

(* ------------------------------------------------------------------------------------------------ *)
(* the exchange network                                                                              *)
(* ------------------------------------------------------------------------------------------------ *)
Section Run.
  Context {N : NumOps}.
  Variables (St G : Type).
  Variable steq : St -> St -> bool.
  Variable misfit : nat -> St -> T N.
  Variable expo : T N -> T N.
  Variable draw : G -> T N * G.
  Variable trans : nat -> nat -> @core N St G -> @core N St G.
  Variable sched : list row.
  Variable I : nat.
  Variable exchange : bool.

  Notation lst := (@lst N St G).
  Notation msg := (@msg N St).
  Notation proc := (proc lst msg).
  Notation net := (net lst msg).
  Notation exch := (exch St G steq misfit expo draw).
  Notation do_pair := (do_pair St G steq misfit expo draw).
  Notation slave_actions := (slave_actions St G steq misfit).
  Notation master_actions := (master_actions St G misfit expo draw).
  Notation comm := (comm St G steq misfit expo draw sched I exchange).
  Notation row_at := (row_at sched I exchange).
  Notation row_of := (row_of sched I exchange).
  Notation round_prog := (round_prog St G steq misfit expo draw trans sched I exchange).
  Notation progs_from := (progs_from St G steq misfit expo draw trans sched I exchange).
  Notation round_fn := (round_fn St G steq misfit expo draw sched I exchange).
  Notation rounds := (rounds St G steq misfit expo draw sched I exchange).
  Notation init_net := (init_net St G steq misfit expo draw trans sched I exchange).
  Notation total_steps := (total_steps sched I exchange).
  Notation emptyq := (fun _ _ : nat => @nil msg).
  Notation updp := (updp lst msg).

  Lemma do_pair_length ps sm : length (do_pair ps sm) = length ps.
  Proof.
    destruct sm as [s m]. unfold Exchange.do_pair.
    destruct (nth_error ps s) as [a|]; [|reflexivity]. destruct (nth_error ps m) as [b|]; [|reflexivity].
    destruct (exch s m (loc a) (loc b)) as [la lb]. rewrite !updp_length. reflexivity.
  Qed.

  Lemma do_pair_other ps s m i : i <> s -> i <> m -> nth_error (do_pair ps (s, m)) i = nth_error ps i.
  Proof.
    intros H1 H2. unfold Exchange.do_pair.
    destruct (nth_error ps s) as [a|]; [|reflexivity]. destruct (nth_error ps m) as [b|]; [|reflexivity].
    destruct (exch s m (loc a) (loc b)) as [la lb].
    rewrite !nth_updp_other by (intro E; subst; contradiction). reflexivity.
  Qed.

  Lemma fold_pairs_length r : forall ps, length (fold_left do_pair r ps) = length ps.
  Proof. induction r as [|sm r IH]; intros ps; simpl; [reflexivity|]. rewrite IH. apply do_pair_length. Qed.

  (* ---- one row: the pairs one after the other ---- *)
  Definition pair_ready (ps : list proc) (sm : nat * nat) : Prop :=
    exists a b rs rm, nth_error ps (fst sm) = Some a /\ nth_error ps (snd sm) = Some b /\
      prog a = slave_actions (fst sm) (snd sm) ++ rs /\ prog b = master_actions (snd sm) (fst sm) ++ rm.


  (* what a row does to the program of each chain *)
  Definition taken (r : row) (i : nat) : nat :=
    match role r i with Some (false, _) => 4 | Some (true, _) => 6 | None => 0 end.

  Lemma role_notin r i : ~ In i (flat r) -> role r i = None.
  Proof.
    induction r as [|[s m] r IH]; intros H; simpl; [reflexivity|]. simpl in H.
    destruct (Nat.eqb_spec i s); [subst; exfalso; apply H; auto|].
    destruct (Nat.eqb_spec i m); [subst; exfalso; apply H; auto|].
    apply IH. intro. apply H. auto.
  Qed.

  Lemma role_in r : NoDup (flat r) -> forall s m, In (s, m) r -> role r s = Some (false, m) /\ role r m = Some (true, s).
  Proof.
    induction r as [|[s0 m0] r IH]; intros Hnd s m Hin; [destruct Hin|].
    cbn [flat] in Hnd. inversion Hnd as [|x l Hs Hnd1]; subst. inversion Hnd1 as [|x l Hm Hnd2]; subst.
    destruct Hin as [E|Hin].
    - inversion E; subst. simpl. rewrite Nat.eqb_refl.
      destruct (Nat.eqb_spec m s); [subst; exfalso; apply Hs; left; auto|]. rewrite Nat.eqb_refl. auto.
    - assert (Hfl : In s (flat r) /\ In m (flat r)).
      { clear -Hin. induction r as [|[s1 m1] r IHr]; [destruct Hin|]. simpl. destruct Hin as [E|Hin].
        - inversion E; subst. auto.
        - destruct (IHr Hin). auto. }
      destruct Hfl as [Fs Fm]. simpl.
      destruct (Nat.eqb_spec s s0); [subst; exfalso; apply Hs; right; auto|].
      destruct (Nat.eqb_spec s m0); [subst; exfalso; apply Hm; auto|].
      destruct (Nat.eqb_spec m s0); [subst; exfalso; apply Hs; right; auto|].
      destruct (Nat.eqb_spec m m0); [subst; exfalso; apply Hm; auto|].
      apply IH; auto.
  Qed.

  Lemma row_progs r : forall ps, wf_row (length ps) r -> forall i pr', nth_error (fold_left do_pair r ps) i = Some pr' ->
    exists pr, nth_error ps i = Some pr /\ prog pr' = skipn (taken r i) (prog pr).
  Proof.
    induction r as [|[s m] r IH]; intros ps [Hnd Hlt] i pr' H.
    - simpl in H. exists pr'. split; [exact H|reflexivity].
    - cbn [flat] in Hnd, Hlt. inversion Hnd as [|x l Hs Hnd1]; subst. inversion Hnd1 as [|x l Hm Hnd2]; subst.
      inversion Hlt as [|x l Ls Hlt1]; subst. inversion Hlt1 as [|x l Lm Hlt2]; subst.
      assert (Hsm : s <> m) by (intro E; apply Hs; left; auto).
      cbn [fold_left] in H.
      destruct (IH (do_pair ps (s, m)) ltac:(split; [exact Hnd2|rewrite do_pair_length; exact Hlt2]) i pr' H) as (pr1 & H1 & P1).
      destruct (nth_error ps s) as [a|] eqn:Ea; [|apply nth_error_None in Ea; lia].
      destruct (nth_error ps m) as [b|] eqn:Eb; [|apply nth_error_None in Eb; lia].
      unfold taken. cbn [role].
      destruct (Nat.eqb_spec i s) as [->|Nis]; [|destruct (Nat.eqb_spec i m) as [->|Nim]].
      + unfold taken in P1. rewrite (role_notin r s) in P1 by (intro; apply Hs; right; auto).
        exists a. split; [exact Ea|]. rewrite P1. simpl skipn at 1.
        unfold Exchange.do_pair in H1. rewrite Ea, Eb in H1.
        destruct (exch s m (loc a) (loc b)) as [la lb].
        rewrite nth_updp_other in H1 by (intro E; apply Hsm; auto).
        rewrite nth_updp_same in H1 by exact Ls. inversion H1. reflexivity.
      + unfold taken in P1. rewrite (role_notin r m) in P1 by exact Hm.
        exists b. split; [exact Eb|]. rewrite P1. simpl skipn at 1.
        unfold Exchange.do_pair in H1. rewrite Ea, Eb in H1.
        destruct (exch s m (loc a) (loc b)) as [la lb].
        rewrite nth_updp_same in H1 by (rewrite updp_length; exact Lm). inversion H1. reflexivity.
      + rewrite do_pair_other in H1 by assumption. exists pr1. split; [exact H1|exact P1].
  Qed.

  (* ---- one proposal of all chains ---- *)
  Definition Inv (n p k : nat) (ps : list proc) : Prop :=
    length ps = n /\ forall i pr, nth_error ps i = Some pr -> prog pr = progs_from i p k.

  Lemma map_adv_nth (ps : list proc) i pr' : nth_error (map (adv lst msg) ps) i = Some pr' ->
    exists pr, nth_error ps i = Some pr /\ pr' = adv lst msg pr.
  Proof.
    rewrite nth_error_map. destruct (nth_error ps i) as [pr|]; simpl; [|discriminate].
    intros H. inversion H. eauto.
  Qed.

  Lemma comm_taken p r i : row_at p = Some r -> length (comm i p) = taken r i.
  Proof.
    intros E. unfold Exchange.comm, taken. rewrite E.
    destruct (role r i) as [[[|] j]|]; reflexivity.
  Qed.

  Lemma skipn_len_app {A} (l r : list A) : skipn (length l) (l ++ r) = r.
  Proof. induction l; simpl; auto. Qed.

  (* the programs after one proposal of all chains (no execution involved) *)
  Lemma round_stage_progs n p k ps r : Inv n p (S k) ps -> row_at p = Some r -> wf_row n r ->
    let psA := map (adv lst msg) ps in let psB := fold_left do_pair r psA in
    (forall i pr, nth_error psA i = Some pr -> prog pr = comm i p ++ ALocal (do_record St G) :: progs_from i (S p) k) /\
    length psA = n /\
    (forall i pr, nth_error psB i = Some pr -> prog pr = ALocal (do_record St G) :: progs_from i (S p) k) /\
    length psB = n.
  Proof.
    intros [Hlen Hprog] Er [Hnd Hlt] psA psB.
    assert (PA : forall i pr, nth_error psA i = Some pr -> prog pr = comm i p ++ ALocal (do_record St G) :: progs_from i (S p) k).
    { intros i pr H. destruct (map_adv_nth _ _ _ H) as (pr0 & H0 & ->).
      pose proof (Hprog _ _ H0) as P0. simpl in P0. unfold adv. rewrite P0. simpl.
      rewrite <- app_assoc. reflexivity. }
    assert (LA : length psA = n) by (unfold psA; rewrite map_length; exact Hlen).
    assert (PB : forall i pr, nth_error psB i = Some pr -> prog pr = ALocal (do_record St G) :: progs_from i (S p) k).
    { intros i pr H.
      destruct (row_progs r psA ltac:(split; [exact Hnd|rewrite LA; exact Hlt]) i pr H) as (pr0 & H0 & P0).
      rewrite P0, (PA _ _ H0), <- (comm_taken p r i Er). apply skipn_len_app. }
    assert (LB : length psB = n) by (unfold psB; rewrite fold_pairs_length; exact LA).
    auto.
  Qed.

  Lemma round_next_inv n p k ps r : Inv n p (S k) ps -> row_at p = Some r -> wf_row n r -> Inv n (S p) k (round_fn p ps).
  Proof.
    intros Hinv Er Hwf. destruct (round_stage_progs n p k ps r Hinv Er Hwf) as (_ & _ & PB & LB).
    unfold Exchange.round_fn. replace (row_of p) with r by (unfold Exchange.row_of; rewrite Er; reflexivity).
    split; [rewrite map_length; exact LB|].
    intros i pr H. destruct (map_adv_nth _ _ _ H) as (pr0 & H0 & ->).
    unfold adv. rewrite (PB _ _ H0). reflexivity.
  Qed.

  Lemma rounds_inv n : forall k p ps, Inv n p k ps -> sched_ok sched I exchange n (p + k) -> Inv n (p + k) 0 (rounds p k ps).
  Proof.
    induction k as [|k IH]; intros p ps Hinv Hok.
    - simpl. rewrite Nat.add_0_r. exact Hinv.
    - destruct (Hok p ltac:(lia)) as (r & Er & Hwf).
      pose proof (round_next_inv n p k ps r Hinv Er Hwf) as Hinv'.
      simpl. replace (p + S k) with (S p + k) by lia.
      apply IH; [exact Hinv'|]. replace (S p + k) with (p + S k) by lia. exact Hok.
  Qed.

  Lemma combine_seq_nth {A} (l : list A) : forall b i j x, nth_error (combine (seq b (length l)) l) i = Some (j, x) -> j = b + i.
  Proof.
    induction l as [|y l IHl]; intros b i j x E; simpl in E.
    - destruct i; discriminate.
    - destruct i; simpl in E.
      + inversion E. lia.
      + apply IHl in E. lia.
  Qed.

  Lemma combine_nth_snd {A B} (a : list A) : forall (b : list B) i x y, nth_error (combine a b) i = Some (x, y) -> nth_error b i = Some y.
  Proof.
    induction a as [|a0 a IHa]; intros b i x y E; simpl in E.
    - destruct i; discriminate.
    - destruct b as [|b0 b]; [destruct i; discriminate|]. destruct i; simpl in *.
      + inversion E. reflexivity.
      + eapply IHa; eauto.
  Qed.

  Lemma init_inv (ls : list lst) P : Inv (length ls) 0 P (procs (init_net ls P)).
  Proof.
    unfold Exchange.init_net. simpl. split.
    - rewrite map_length, combine_length, seq_length. lia.
    - intros i pr H. rewrite nth_error_map in H.
      destruct (nth_error (combine (seq 0 (length ls)) ls) i) as [[j l]|] eqn:E; [|discriminate].
      simpl in H. inversion H; subst. simpl.
      assert (j = 0 + i) by (eapply combine_seq_nth; eauto).
      subst. reflexivity.
  Qed.

  Lemma inv0_done n p ps : Inv n p 0 ps -> all_done lst msg {| procs := ps; qs := emptyq |} = true.
  Proof.
    intros [_ H]. unfold all_done. simpl. rewrite forallb_forall. intros pr Hin.
    destruct (In_nth_error _ _ Hin) as [i Hi]. rewrite (H _ _ Hi). reflexivity.
  Qed.

  Definition final_net (ls : list lst) (P : nat) : net :=
    {| procs := rounds 0 P (procs (init_net ls P)); qs := emptyq |}.

  (* ---------------------------------------------------------------------------------------------- *)
  (* the sequential run is an execution -- for any step relation that can run a block of local      *)
  (* actions and one exchange of a pair (instantiated below with buffered and with synchronous pipes) *)
  (* ---------------------------------------------------------------------------------------------- *)
  Section Canon.
    Variable stp : net -> nat -> net -> Prop.
    Variable cpair : nat.
    Notation gp := (gpath net nat stp).
    Hypothesis H_locals : forall ps, Forall (head_local lst msg) ps ->
      gp {| procs := ps; qs := emptyq |} (length ps) {| procs := map (adv lst msg) ps; qs := emptyq |}.
    Hypothesis H_pair : forall (ps : list proc) s m a b rs rm, s <> m ->
      nth_error ps s = Some a -> nth_error ps m = Some b ->
      prog a = slave_actions s m ++ rs -> prog b = master_actions m s ++ rm ->
      gp {| procs := ps; qs := emptyq |} cpair {| procs := do_pair ps (s, m); qs := emptyq |}.

    Lemma row_run r : forall ps, NoDup (flat r) -> Forall (pair_ready ps) r ->
      gp {| procs := ps; qs := emptyq |} (cpair * length r) {| procs := fold_left do_pair r ps; qs := emptyq |}.
    Proof.
      induction r as [|[s m] r IH]; intros ps Hnd Hr.
      - simpl. rewrite Nat.mul_0_r. constructor.
      - cbn [flat] in Hnd. inversion Hnd as [|x l Hs Hnd1]; subst. inversion Hnd1 as [|x l Hm Hnd2]; subst.
        inversion Hr as [|x l (a & b & rs & rm & Ha & Hb & Pa & Pb) Hrest]; subst. cbn [fst snd] in *.
        assert (Hsm : s <> m) by (intro E; apply Hs; left; auto).
        replace (cpair * length ((s, m) :: r)) with (cpair + cpair * length r) by (simpl; lia).
        eapply gpath_app; [eapply H_pair; eauto|].
        cbn [fold_left]. apply IH; [exact Hnd2|].
        rewrite Forall_forall in *. intros [s' m'] Hin.
        assert (Hfl : In s' (flat r) /\ In m' (flat r)).
        { clear -Hin. induction r as [|[s0 m0] r IHr]; [destruct Hin|]. simpl. destruct Hin as [E|Hin].
          - inversion E; subst. auto.
          - destruct (IHr Hin). auto. }
        destruct Hfl as [Fs Fm].
        destruct (Hrest _ Hin) as (a' & b' & rs' & rm' & Ha' & Hb' & Pa' & Pb'). cbn [fst snd] in *.
        exists a', b', rs', rm'. cbn [fst snd].
        rewrite !do_pair_other; auto.
        all: intro E; subst; try (apply Hs; right; assumption); try (apply Hm; assumption).
    Qed.

    Lemma round_run n p k ps r : Inv n p (S k) ps -> row_at p = Some r -> wf_row n r ->
      gp {| procs := ps; qs := emptyq |} (n + cpair * length (row_of p) + n) {| procs := round_fn p ps; qs := emptyq |}.
    Proof.
      intros Hinv Er Hwf. destruct (round_stage_progs n p k ps r Hinv Er Hwf) as (PA & LA & PB & LB).
      destruct Hinv as [Hlen Hprog]. destruct Hwf as [Hnd Hlt].
      assert (Ero : row_of p = r) by (unfold Exchange.row_of; rewrite Er; reflexivity).
      unfold Exchange.round_fn. rewrite Ero.
      set (psA := map (adv lst msg) ps) in *. set (psB := fold_left do_pair r psA) in *.
      eapply gpath_app; [eapply gpath_app|].
      - rewrite <- Hlen. apply H_locals.
        rewrite Forall_forall. intros pr Hin. destruct (In_nth_error _ _ Hin) as [i Hi].
        pose proof (Hprog _ _ Hi) as P0. simpl in P0. unfold head_local. rewrite P0. eexists _, _. reflexivity.
      - apply row_run; [exact Hnd|].
        rewrite Forall_forall. intros [s m] Hin.
        destruct (role_in r Hnd s m Hin) as [Rs Rm].
        assert (Fs : In s (flat r) /\ In m (flat r)).
        { clear -Hin. induction r as [|[s1 m1] r IHr]; [destruct Hin|]. simpl. destruct Hin as [E|Hin].
          - inversion E; subst. auto.
          - destruct (IHr Hin). auto. }
        rewrite Forall_forall in Hlt. destruct Fs as [Fs Fm].
        destruct (nth_error psA s) as [a|] eqn:Ea; [|apply nth_error_None in Ea; specialize (Hlt _ Fs); lia].
        destruct (nth_error psA m) as [b|] eqn:Eb; [|apply nth_error_None in Eb; specialize (Hlt _ Fm); lia].
        exists a, b. cbn [fst snd].
        pose proof (PA _ _ Ea) as Pa. pose proof (PA _ _ Eb) as Pb.
        unfold Exchange.comm in Pa, Pb. rewrite Er in Pa, Pb. rewrite Rs in Pa. rewrite Rm in Pb.
        eexists _, _. repeat split; eauto.
      - rewrite <- LB at 1. apply H_locals.
        rewrite Forall_forall. intros pr Hin. destruct (In_nth_error _ _ Hin) as [i Hi].
        unfold head_local. rewrite (PB _ _ Hi). eexists _, _. reflexivity.
    Qed.

    Lemma rounds_run n : forall k p ps, Inv n p k ps -> sched_ok sched I exchange n (p + k) ->
      gp {| procs := ps; qs := emptyq |} (total_steps cpair n p k) {| procs := rounds p k ps; qs := emptyq |}.
    Proof.
      induction k as [|k IH]; intros p ps Hinv Hok.
      - simpl. constructor.
      - destruct (Hok p ltac:(lia)) as (r & Er & Hwf).
        pose proof (round_run n p k ps r Hinv Er Hwf) as Hp.
        pose proof (round_next_inv n p k ps r Hinv Er Hwf) as Hinv'.
        pose proof (IH (S p) (round_fn p ps) Hinv' ltac:(replace (S p + k) with (p + S k) by lia; exact Hok)) as Hp'.
        simpl. eapply gpath_app; eauto.
    Qed.

    Theorem canonical_run_gen (ls : list lst) P : sched_ok sched I exchange (length ls) P ->
      gp (init_net ls P) (total_steps cpair (length ls) 0 P) (final_net ls P) /\ all_done lst msg (final_net ls P) = true.
    Proof.
      intros Hok. split.
      - exact (rounds_run (length ls) P 0 _ (init_inv ls P) Hok).
      - eapply inv0_done. exact (rounds_inv (length ls) P 0 _ (init_inv ls P) Hok).
    Qed.
  End Canon.

  (* ---- buffered pipes of any capacity >= 1 message, or unbounded ---- *)
  Section Buffered.
    Variable cap : option nat.
    Hypothesis cap1 : room msg cap [] = true.
    Notation gp := (gpath net nat (step lst msg cap)).

    Lemma pair_run (ps : list proc) s m a b rs rm : s <> m ->
      nth_error ps s = Some a -> nth_error ps m = Some b ->
      prog a = slave_actions s m ++ rs -> prog b = master_actions m s ++ rm ->
      gp {| procs := ps; qs := emptyq |} 10 {| procs := do_pair ps (s, m); qs := emptyq |}.
    Proof.
      intros Hsm Ha Hb Pa Pb.
      assert (Ls : s < length ps) by (apply nth_error_Some; rewrite Ha; discriminate).
      assert (Lm : m < length ps) by (apply nth_error_Some; rewrite Hb; discriminate).
      pose proof (pingpong lst msg cap cap1 ps emptyq s m Hsm Ls Lm a b _ _ _ _ rs _ _ _ _ _ _ rm Pa Pb) as H.
      cbv zeta in H.
      rewrite (st2_start lst msg ps emptyq s m a b Ha Hb eq_refl eq_refl) in H.
      rewrite (st2_end lst msg ps emptyq s m _ _ eq_refl eq_refl) in H.
      unfold Exchange.do_pair. rewrite Ha, Hb.
      unfold Exchange.exch. rewrite Pa, Pb. simpl skipn.
      exact H.
    Qed.

    Theorem canonical_run (ls : list lst) P : sched_ok sched I exchange (length ls) P ->
      gp (init_net ls P) (total_steps 10 (length ls) 0 P) (final_net ls P) /\ all_done lst msg (final_net ls P) = true.
    Proof.
      apply (canonical_run_gen (step lst msg cap) 10).
      - intros ps H. exact (locals_run_all lst msg cap emptyq ps H).
      - exact pair_run.
    Qed.

    (* every interleaving: bounded length, can only stop in the final state of the sequential run *)
    Theorem all_interleavings (ls : list lst) P : sched_ok sched I exchange (length ls) P ->
      forall k u, gp (init_net ls P) k u ->
        k <= total_steps 10 (length ls) 0 P /\
        (gterminal net nat (step lst msg cap) u -> k = total_steps 10 (length ls) 0 P /\ u = final_net ls P).
    Proof.
      intros Hok k u Hu. destruct (canonical_run ls P Hok) as [Hp Hd].
      exact (kahn_unique lst msg cap _ _ u _ k Hp (all_done_terminal lst msg cap _ Hd) Hu).
    Qed.
  End Buffered.

  (* ---- synchronous pipes (send returns when the message has been received) ---- *)
  Section Synchronous.
    Notation gp := (gpath net nat (sstep lst msg)).

    Lemma pair_run_sync (ps : list proc) s m a b rs rm : s <> m ->
      nth_error ps s = Some a -> nth_error ps m = Some b ->
      prog a = slave_actions s m ++ rs -> prog b = master_actions m s ++ rm ->
      gp {| procs := ps; qs := emptyq |} 6 {| procs := do_pair ps (s, m); qs := emptyq |}.
    Proof.
      intros Hsm Ha Hb Pa Pb.
      assert (Ls : s < length ps) by (apply nth_error_Some; rewrite Ha; discriminate).
      assert (Lm : m < length ps) by (apply nth_error_Some; rewrite Hb; discriminate).
      pose proof (spingpong lst msg ps emptyq s m Hsm Ls Lm a b _ _ _ _ rs _ _ _ _ _ _ rm Pa Pb) as H.
      cbv zeta in H.
      rewrite (sst_start lst msg ps emptyq s m a b Ha Hb) in H.
      unfold Exchange.do_pair. rewrite Ha, Hb.
      unfold Exchange.exch. rewrite Pa, Pb. simpl skipn.
      exact H.
    Qed.

    Theorem canonical_run_sync (ls : list lst) P : sched_ok sched I exchange (length ls) P ->
      gp (init_net ls P) (total_steps 6 (length ls) 0 P) (final_net ls P) /\ all_done lst msg (final_net ls P) = true.
    Proof.
      apply (canonical_run_gen (sstep lst msg) 6).
      - intros ps H. exact (slocals_run_all lst msg emptyq ps H).
      - exact pair_run_sync.
    Qed.

    Theorem all_interleavings_sync (ls : list lst) P : sched_ok sched I exchange (length ls) P ->
      forall k u, gp (init_net ls P) k u ->
        k <= total_steps 6 (length ls) 0 P /\
        (gterminal net nat (sstep lst msg) u -> k = total_steps 6 (length ls) 0 P /\ u = final_net ls P).
    Proof.
      intros Hok k u Hu. destruct (canonical_run_sync ls P Hok) as [Hp Hd].
      exact (kahn_unique_sync lst msg _ _ u _ k Hp (all_done_terminal_sync lst msg _ Hd) Hu).
    Qed.
  End Synchronous.

  (* ---- the computable guard implies the guard ---- *)
  Lemma nodupb_sound l : nodupb l = true -> NoDup l.
  Proof.
    induction l as [|x l IH]; simpl; intros H; [constructor|].
    apply andb_true_iff in H. destruct H as [H1 H2]. constructor; [|apply IH; exact H2].
    intro Hin. apply negb_true_iff in H1.
    assert (existsb (Nat.eqb x) l = true) by (apply existsb_exists; exists x; split; [exact Hin|apply Nat.eqb_refl]).
    congruence.
  Qed.

  Lemma wf_rowb_sound n r : wf_rowb n r = true -> wf_row n r.
  Proof.
    unfold wf_rowb, wf_row. intros H. apply andb_true_iff in H. destruct H as [H1 H2].
    split; [apply nodupb_sound; exact H1|].
    rewrite Forall_forall. rewrite forallb_forall in H2. intros i Hi. apply Nat.ltb_lt. apply H2. exact Hi.
  Qed.

  Lemma run_definedb_sound n P : run_definedb sched I exchange n P = true -> run_defined sched I exchange n P.
  Proof.
    unfold run_definedb, run_defined, sched_okb, sched_ok. intros H.
    apply andb_true_iff in H. destruct H as [H1 H2]. split.
    - intros E. rewrite E in H1. simpl in H1. apply Nat.leb_le. exact H1.
    - rewrite forallb_forall in H2. intros p Hp. specialize (H2 p ltac:(apply in_seq; lia)).
      destruct (row_at p) as [r|]; [|discriminate]. exists r. split; [reflexivity|apply wf_rowb_sound; exact H2].
  Qed.

  (* ---------------------------------------------------------------------------------------------- *)
  (* what the exchange does to the data                                                              *)
  (* ---------------------------------------------------------------------------------------------- *)
  Notation kmodel l := (k_model (l_core l)).
  Notation kx l := (k_x (l_core l)).

  (* u < exp ((x_master - U_master(model_slave)) + (x_slave - U_slave(model_master))),
     u the next uniform number of the master's generator *)
  Definition swap_rule (s m : nat) (a b : lst) : bool :=
    ltb (fst (draw (k_rng (l_core b))))
        (expo (add (sub (kx b) (misfit m (kmodel a))) (sub (kx a) (misfit s (kmodel b))))).

  Lemma exch_swap s m a b : swap_rule s m a b = true ->
    kmodel (fst (exch s m a b)) = kmodel b /\ kmodel (snd (exch s m a b)) = kmodel a.
  Proof.
    unfold swap_rule, Exchange.exch, slave_take, master_take, accept, improvement, do_draw. simpl.
    destruct (draw (k_rng (l_core b))) as [u g]. simpl. intros ->. simpl. auto.
  Qed.

  Lemma exch_keep s m a b : swap_rule s m a b = false ->
    kmodel (fst (exch s m a b)) = kmodel a /\ kmodel (snd (exch s m a b)) = kmodel b.
  Proof.
    unfold swap_rule, Exchange.exch, slave_take, master_take, accept, improvement, do_draw. simpl.
    destruct (draw (k_rng (l_core b))) as [u g]. simpl. intros ->. simpl. auto.
  Qed.

  (* the stored misfit is the chain's own target misfit of the state it holds *)
  Definition Own (i : nat) (l : lst) : Prop := kx l = misfit i (kmodel l).

  Hypothesis steq_refl : forall x, steq x x = true.
  Hypothesis steq_sound : forall x y, steq x y = true -> x = y.

  Lemma exch_own s m a b : Own s a -> Own m b -> Own s (fst (exch s m a b)) /\ Own m (snd (exch s m a b)).
  Proof.
    unfold Own, Exchange.exch, slave_take, master_take, accept, improvement, do_draw. simpl.
    destruct (draw (k_rng (l_core b))) as [u g]. simpl. intros Ha Hb.
    destruct (ltb u _); simpl.
    - rewrite steq_refl. auto.
    - split; [|exact Hb]. destruct (steq (kmodel a) (kmodel b)) eqn:E; [|exact Ha].
      apply steq_sound in E. rewrite E. reflexivity.
  Qed.

  Lemma exch_out s m a b : l_out (fst (exch s m a b)) = l_out a /\ l_out (snd (exch s m a b)) = l_out b.
  Proof.
    unfold Exchange.exch, slave_take, master_take, do_draw. simpl.
    destruct (draw (k_rng (l_core b))) as [u g]. simpl. destruct (accept St G expo _); simpl; auto.
  Qed.

  (* only the master draws, and exactly one number *)
  Lemma exch_rng s m a b : k_rng (l_core (fst (exch s m a b))) = k_rng (l_core a) /\
    k_rng (l_core (snd (exch s m a b))) = snd (draw (k_rng (l_core b))).
  Proof.
    unfold Exchange.exch, slave_take, master_take, do_draw. simpl.
    destruct (draw (k_rng (l_core b))) as [u g]. simpl. destruct (accept St G expo _); simpl; auto.
  Qed.

  (* ---- invariants through rows and rounds ---- *)
  Lemma fold_pairs_inv (Q : nat -> lst -> Prop) :
    (forall s m a b, Q s a -> Q m b -> Q s (fst (exch s m a b)) /\ Q m (snd (exch s m a b))) ->
    forall r ps, (forall i pr, nth_error ps i = Some pr -> Q i (loc pr)) ->
    forall i pr, nth_error (fold_left do_pair r ps) i = Some pr -> Q i (loc pr).
  Proof.
    intros HQ. induction r as [|[s m] r IH]; intros ps H; [exact H|].
    cbn [fold_left]. apply IH. intros i pr Hi.
    unfold Exchange.do_pair in Hi.
    destruct (nth_error ps s) as [a|] eqn:Ea; [|apply H; exact Hi].
    destruct (nth_error ps m) as [b|] eqn:Eb; [|apply H; exact Hi].
    destruct (HQ s m (loc a) (loc b) (H _ _ Ea) (H _ _ Eb)) as [Qa Qb].
    destruct (exch s m (loc a) (loc b)) as [la lb]. simpl in Qa, Qb.
    assert (Ls : s < length ps) by (apply nth_error_Some; rewrite Ea; discriminate).
    assert (Lm : m < length ps) by (apply nth_error_Some; rewrite Eb; discriminate).
    destruct (Nat.eq_dec i m) as [->|Nim].
    - rewrite nth_updp_same in Hi by (rewrite updp_length; exact Lm). inversion Hi. exact Qb.
    - rewrite nth_updp_other in Hi by (intro E; apply Nim; auto).
      destruct (Nat.eq_dec i s) as [->|Nis].
      + rewrite nth_updp_same in Hi by exact Ls. inversion Hi. exact Qa.
      + rewrite nth_updp_other in Hi by (intro E; apply Nis; auto). apply H. exact Hi.
  Qed.

  Lemma round_progs n p k ps r : Inv n p (S k) ps -> row_at p = Some r -> wf_row n r ->
    (forall i pr, nth_error ps i = Some pr -> exists rest, prog pr = ALocal (do_trans St G trans i p) :: rest) /\
    (forall i pr, nth_error (fold_left do_pair r (map (adv lst msg) ps)) i = Some pr ->
       exists rest, prog pr = ALocal (do_record St G) :: rest).
  Proof.
    intros [Hlen Hprog] Er [Hnd Hlt]. split.
    - intros i pr H. pose proof (Hprog _ _ H) as P0. simpl in P0. eauto.
    - set (psA := map (adv lst msg) ps).
      assert (PA : forall i pr, nth_error psA i = Some pr -> prog pr = comm i p ++ ALocal (do_record St G) :: progs_from i (S p) k).
      { intros i pr H. destruct (map_adv_nth _ _ _ H) as (pr0 & H0 & ->).
        pose proof (Hprog _ _ H0) as P0. simpl in P0. unfold adv. rewrite P0. simpl.
        rewrite <- app_assoc. reflexivity. }
      assert (LA : length psA = n) by (unfold psA; rewrite map_length; exact Hlen).
      intros i pr H.
      destruct (row_progs r psA ltac:(split; [exact Hnd|rewrite LA; exact Hlt]) i pr H) as (pr0 & H0 & P0).
      rewrite P0, (PA _ _ H0), <- (comm_taken p r i Er). rewrite skipn_len_app. eauto.
  Qed.

  (* a chain-indexed invariant Q (before the transition) / Q' (after it, through the exchange) / R (after the write) *)
  Lemma round_inv (Q Q' R : nat -> lst -> Prop) n p k ps r :
    Inv n p (S k) ps -> row_at p = Some r -> wf_row n r ->
    (forall i l, Q i l -> Q' i (do_trans St G trans i p l)) ->
    (forall s m a b, Q' s a -> Q' m b -> Q' s (fst (exch s m a b)) /\ Q' m (snd (exch s m a b))) ->
    (forall i l, Q' i l -> R i (do_record St G l)) ->
    (forall i pr, nth_error ps i = Some pr -> Q i (loc pr)) ->
    forall i pr, nth_error (round_fn p ps) i = Some pr -> R i (loc pr).
  Proof.
    intros Hinv Er Hwf HT HX HR H i pr Hi.
    destruct (round_progs n p k ps r Hinv Er Hwf) as [P1 P2].
    unfold Exchange.round_fn in Hi. replace (row_of p) with r in Hi by (unfold Exchange.row_of; rewrite Er; reflexivity).
    destruct (map_adv_nth _ _ _ Hi) as (prB & HB & ->).
    destruct (P2 _ _ HB) as [rest PB]. unfold adv. rewrite PB. simpl. apply HR.
    clear Hi PB. revert i prB HB.
    apply (fold_pairs_inv Q' HX r).
    intros i prA HA. destruct (map_adv_nth _ _ _ HA) as (pr0 & H0 & ->).
    destruct (P1 _ _ H0) as [rest0 P0]. unfold adv. rewrite P0. simpl. apply HT. apply H. exact H0.
  Qed.

  Definition entry_ok (i : nat) (e : St * T N) : Prop := snd e = misfit i (fst e).
  (* before proposal c: own misfit, c columns written, every column is (state, own misfit of that state) *)
  Definition Good (c i : nat) (l : lst) : Prop := Own i l /\ List.Forall (entry_ok i) (l_out l) /\ length (l_out l) = c.

  Hypothesis trans_own : forall i p c, k_x c = misfit i (k_model c) -> k_x (trans i p c) = misfit i (k_model (trans i p c)).

  Lemma rounds_good n : forall k k' p ps c, Inv n p (k + k') ps -> sched_ok sched I exchange n (p + k) ->
    (forall i pr, nth_error ps i = Some pr -> Good c i (loc pr)) ->
    Inv n (p + k) k' (rounds p k ps) /\
    (forall i pr, nth_error (rounds p k ps) i = Some pr -> Good (c + k) i (loc pr)).
  Proof.
    induction k as [|k IH]; intros k' p ps c Hinv Hok HG.
    - simpl. rewrite !Nat.add_0_r. split; [exact Hinv|exact HG].
    - destruct (Hok p ltac:(lia)) as (r & Er & Hwf).
      change (S k + k') with (S (k + k')) in Hinv.
      pose proof (round_next_inv n p (k + k') ps r Hinv Er Hwf) as Hinv'.
      assert (HG' : forall i pr, nth_error (round_fn p ps) i = Some pr -> Good (S c) i (loc pr)).
      { apply (round_inv (Good c) (Good c) (Good (S c)) n p (k + k') ps r Hinv Er Hwf); [| | |exact HG].
        - intros i l (Ho & Hf & Hl). unfold Good, Own, do_trans. simpl. repeat split; auto.
        - intros s m a b (Ho & Hf & Hl) (Ho' & Hf' & Hl').
          destruct (exch_own s m a b Ho Ho') as [O1 O2]. destruct (exch_out s m a b) as [E1 E2].
          unfold Good. rewrite E1, E2. auto.
        - intros i l (Ho & Hf & Hl). unfold Good, Own, do_record. simpl. repeat split; auto.
          + apply Forall_app. split; [exact Hf|]. constructor; [exact Ho|constructor].
          + rewrite app_length. simpl. lia. }
      destruct (IH k' (S p) (round_fn p ps) (S c) Hinv' ltac:(replace (S p + k) with (p + S k) by lia; exact Hok) HG') as [Hi Hg].
      simpl. replace (p + S k) with (S p + k) by lia. replace (c + S k) with (S c + k) by lia. auto.
  Qed.

  (* at the start of every proposal q <= P, every chain holds its own misfit (the energy the next transition
     uses), has written q columns, each its state and own misfit at that time; for q = P these are the files *)
  Theorem run_good (ls : list lst) P q : q <= P -> sched_ok sched I exchange (length ls) P ->
    (forall i l, nth_error ls i = Some l -> Own i l /\ l_out l = []) ->
    forall i pr, nth_error (rounds 0 q (procs (init_net ls P))) i = Some pr -> Good q i (loc pr).
  Proof.
    intros Hq Hok H0 i pr Hi.
    assert (Hinv : Inv (length ls) 0 (q + (P - q)) (procs (init_net ls P))).
    { replace (q + (P - q)) with P by lia. apply init_inv. }
    destruct (rounds_good (length ls) q (P - q) 0 _ 0 Hinv ltac:(intros x Hx; apply Hok; simpl in Hx; lia)) as [_ Hg].
    - intros j pj Hj. unfold Exchange.init_net in Hj. simpl in Hj. rewrite nth_error_map in Hj.
      destruct (nth_error (combine (seq 0 (length ls)) ls) j) as [[j' l]|] eqn:E; [|discriminate].
      simpl in Hj. inversion Hj; subst. simpl.
      assert (j' = 0 + j) by (eapply combine_seq_nth; eauto). subst j'. simpl in E.
      assert (nth_error ls j = Some l).
      { eapply combine_nth_snd; eauto. }
      destruct (H0 _ _ H) as [Ho Hout]. unfold Good. rewrite Hout. repeat split; auto.
    - exact (Hg i pr Hi).
  Qed.
End Run.
