(* C01, volume preservation: the tangent map of every instruction of a drift/kick program is a
   block-triangular matrix with unit diagonal blocks (or a diagonal matrix of signs for a mirror
   reflection), hence the tangent map of any program has determinant 1 -- for every Hessian field,
   every (even non-symmetric) inverse mass matrix, every dimension, every commutative ring.
   The tangent program is the forward-mode derivative of the straight-line program (chain rule by
   definition, not derived from analysis). *)
From mathcomp Require Import all_ssreflect all_algebra.
Set Implicit Arguments. Unset Strict Implicit. Unset Printing Implicit Defensive.
Import GRing.Theory.
Local Open Scope ring_scope.

Section Vol.
  Variable (F : comRingType) (n : nat).

  (* (dq, dp) -> (dq, dp - c H dq): kick with Hessian H of the misfit at the current position *)
  Definition Jkick (c : F) (H : 'M[F]_n) : 'M[F]_(n + n) := block_mx 1%:M 0 (- (c *: H)) 1%:M.
  (* (dq, dp) -> (dq + c Minv dp, dp): drift with inverse mass matrix Minv *)
  Definition Jdrift (c : F) (Mi : 'M[F]_n) : 'M[F]_(n + n) := block_mx 1%:M (c *: Mi) 0 1%:M.
  (* mirror reflection: the same sign vector on positions and momenta *)
  Definition Jreflect (s : 'rV[F]_n) : 'M[F]_(n + n) := block_mx (diag_mx s) 0 0 (diag_mx s).

  Lemma det_kick c H : \det (Jkick c H) = 1.
  Proof. by rewrite /Jkick det_lblock !det1 mulr1. Qed.

  Lemma det_drift c Mi : \det (Jdrift c Mi) = 1.
  Proof. by rewrite /Jdrift det_ublock !det1 mulr1. Qed.

  Lemma det_reflect (s : 'rV[F]_n) : (forall i, s 0 i * s 0 i = 1) -> \det (Jreflect s) = 1.
  Proof.
    move=> Hs. rewrite /Jreflect det_ublock det_diag -big_split /=.
    by apply: big1 => i _; rewrite Hs.
  Qed.

  Inductive tinstr :=
  | TKick (c : F) (H : 'M[F]_n)
  | TDrift (c : F) (Mi : 'M[F]_n) (s : 'rV[F]_n).   (* drift followed by the corrector's reflection signs *)

  Definition jac (i : tinstr) : 'M[F]_(n + n) :=
    match i with
    | TKick c H => Jkick c H
    | TDrift c Mi s => Jreflect s *m Jdrift c Mi
    end.

  Definition signs_ok (i : tinstr) : Prop :=
    match i with TKick _ _ => True | TDrift _ _ s => forall j, s 0 j * s 0 j = 1 end.

  (* tangent map of a program: product of the Jacobians, last instruction leftmost *)
  Definition tangent (prog : seq tinstr) : 'M[F]_(n + n) := foldl (fun J i => jac i *m J) 1%:M prog.

  Lemma det_jac i : signs_ok i -> \det (jac i) = 1.
  Proof.
    case: i => [c H|c Mi s] /= Hs; first exact: det_kick.
    by rewrite det_mulmx det_reflect // det_drift mulr1.
  Qed.

  Lemma det_foldl prog : forall J, (forall i, List.In i prog -> signs_ok i) ->
    \det (foldl (fun J i => jac i *m J) J prog) = \det J.
  Proof.
    elim: prog => [|i prog IH] J Hs //=.
    rewrite IH; last by move=> j Hj; apply: Hs; right.
    by rewrite det_mulmx det_jac ?mul1r //; apply: Hs; left.
  Qed.

  Theorem tangent_det_one prog : (forall i, List.In i prog -> signs_ok i) -> \det (tangent prog) = 1.
  Proof. by move=> Hs; rewrite /tangent det_foldl // det1. Qed.
End Vol.
