From Coq Require Import List Bool ZArith Arith Lia.
From HV Require Import FileSys.
Import ListNotations.

Lemma lookup_set_other l p q s : p <> q -> lookup_stamp (set_stamp l p s) q = lookup_stamp l q.
Proof.
  intros H. induction l as [|[r s'] l IH]; simpl.
  - destruct (Nat.eqb_spec p q); [contradiction|reflexivity].
  - destruct (Nat.eqb_spec r p) as [->|Hn]; simpl.
    + destruct (Nat.eqb_spec p q); [contradiction|reflexivity].
    + destruct (Nat.eqb_spec r q); [reflexivity|exact IH].
Qed.

(* one operation without overwrite consent leaves every existing file untouched *)
Lemma step_unchanged f o q s : consent o = false ->
  lookup_stamp (stamps f) q = Some s -> lookup_stamp (stamps (fst (step f o))) q = Some s.
Proof.
  intros Hc Hq. destruct o as [p ow st|p ow| | | |]; simpl in *; subst; auto.
  - destruct st; simpl; auto; unfold exists_file;
      destruct (lookup_stamp (stamps f) p) eqn:Ep; simpl; auto;
      (destruct (Nat.eq_dec p q) as [->|Hne]; [congruence|rewrite lookup_set_other by exact Hne; exact Hq]).
  - unfold exists_file. destruct (lookup_stamp (stamps f) p) eqn:Ep; simpl; auto.
    destruct (Nat.eq_dec p q) as [->|Hne]; [congruence|rewrite lookup_set_other by exact Hne; exact Hq].
Qed.

Lemma run_fst_cons f o r : fst (run f (o :: r)) = fst (run (fst (step f o)) r).
Proof. simpl. destruct (step f o) as [f1 x]. simpl. destruct (run f1 r). reflexivity. Qed.

Theorem run_unchanged ops : forall f q s, forallb (fun o => negb (consent o)) ops = true ->
  lookup_stamp (stamps f) q = Some s -> lookup_stamp (stamps (fst (run f ops))) q = Some s.
Proof.
  induction ops as [|o r IH]; intros f q s Hc Hq; [exact Hq|].
  simpl in Hc. apply andb_true_iff in Hc. destruct Hc as [Ho Hr]. apply negb_true_iff in Ho.
  rewrite run_fst_cons. apply IH; [exact Hr|]. apply step_unchanged; assumption.
Qed.

(* an otherwise valid write attempt on an existing path without consent is refused with FileExistsError *)
Theorem refused_with_file_exists f p st : st <> FailBeforeOpen -> exists_file f p = true ->
  snd (step f (Sample p false st)) = FileExists /\ snd (step f (OpenW p false)) = FileExists.
Proof. intros Hs He. simpl. rewrite He. destruct st; simpl; try contradiction; auto. Qed.

(* no operation leaves a handle open, so a following valid run (with consent if the path now exists) succeeds *)
Lemma step_handles f o : handles (fst (step f o)) = handles f.
Proof.
  destruct o as [p ow st|p ow| | | |]; simpl; auto.
  - destruct st; simpl; auto; destruct (exists_file f p && negb ow); reflexivity.
  - destruct (exists_file f p && negb ow); reflexivity.
Qed.

Theorem no_leak ops : forall f, handles (fst (run f ops)) = handles f.
Proof.
  induction ops as [|o r IH]; intros f; [reflexivity|].
  rewrite run_fst_cons, IH. apply step_handles.
Qed.

Theorem following_valid_run_succeeds ops f p :
  let f' := fst (run f ops) in
  snd (step f' (Sample p (exists_file f' p) Valid)) = Ok.
Proof.
  cbv zeta. simpl. destruct (exists_file (fst (run f ops)) p); reflexivity.
Qed.
