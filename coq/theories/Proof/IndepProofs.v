(* Chains that do not communicate (exchange_interval = None): a network of Model/Network.v whose programs
   consist of local actions only.  EVERY interleaving of the chain processes that cannot be continued has
   finished every program and left in chain k exactly the state that chain k reaches when run on its own;
   a state with work left can always take a step (no deadlock); no interleaving has more steps than there
   are actions.  Proved by an invariant (no appeal to the diamond property is needed). *)
From Coq Require Import List Bool Arith Lia.
From HV Require Import Network NetworkProofs.
Import ListNotations.

Section Indep.
  Variables (L M : Type) (cap : option nat).
  Notation net := (net L M). Notation proc := (proc L M). Notation action := (action L M).

  Definition is_local (a : action) : Prop := match a with ALocal _ => True | _ => False end.
  Definition all_local (s : net) : Prop := Forall (fun p => Forall is_local (prog p)) (procs s).

  (* what a process computes when it runs alone: its local actions applied in program order *)
  Definition apply_act (l : L) (a : action) : L := match a with ALocal f => f l | _ => l end.
  Definition run_alone (p : proc) : L := fold_left apply_act (prog p) (loc p).
  Definition work (s : net) : nat := list_sum (map (fun p => length (prog p)) (procs s)).

  Lemma map_updp (g : proc -> L) (ps : list proc) : forall i p p', nth_error ps i = Some p -> g p' = g p ->
    map g (updp L M ps i p') = map g ps.
  Proof.
    induction ps as [|x r IH]; intros [|i] p p' Hn Hg; simpl in *; try discriminate.
    - inversion Hn; subst. rewrite Hg. reflexivity.
    - f_equal. eapply IH; eauto.
  Qed.

  Lemma Forall_updp (P : proc -> Prop) (ps : list proc) : forall i p', Forall P ps -> P p' -> Forall P (updp L M ps i p').
  Proof.
    induction ps as [|x r IH]; intros [|i] p' Hf Hp; simpl; auto; inversion Hf; subst; constructor; auto.
  Qed.

  Lemma work_updp (ps : list proc) : forall i p p', nth_error ps i = Some p -> S (length (prog p')) = length (prog p) ->
    S (list_sum (map (fun p => length (prog p)) (updp L M ps i p'))) = list_sum (map (fun p => length (prog p)) ps).
  Proof.
    induction ps as [|x r IH]; intros [|i] p p' Hn Hl; simpl in *; try discriminate.
    - inversion Hn; subst. lia.
    - specialize (IH i p p' Hn Hl). lia.
  Qed.

  Lemma step_local (s t : net) i : all_local s -> step L M cap s i t ->
    all_local t /\ map run_alone (procs t) = map run_alone (procs s) /\ S (work t) = work s /\
    length (procs t) = length (procs s).
  Proof.
    unfold step, fire, all_local, work. intros Hal H.
    destruct (nth_error (procs s) i) as [p|] eqn:En; [|discriminate].
    pose proof (proj1 (Forall_forall _ _) Hal p (nth_error_In _ _ En)) as Hp. cbv beta in Hp.
    destruct (prog p) as [|a r] eqn:Ep; [discriminate|].
    pose proof (Forall_inv Hp) as Ha. pose proof (Forall_inv_tail Hp) as Hr. destruct a as [f|j g|j h]; try (exfalso; exact Ha).
    inversion H; subst; clear H. cbn [procs].
    split; [apply Forall_updp; [exact Hal|exact Hr]|].
    split; [eapply map_updp; [exact En|unfold run_alone; rewrite Ep; reflexivity]|].
    split; [eapply work_updp; [exact En|rewrite Ep; reflexivity]|].
    clear. generalize i. induction (procs s) as [|x r' IH]; intros [|k]; simpl; auto.
  Qed.

  (* a process with work left can always take its step: chains without exchange never wait *)
  Lemma local_progress (s : net) i p : all_local s -> nth_error (procs s) i = Some p -> prog p <> [] ->
    exists t, step L M cap s i t.
  Proof.
    unfold all_local, step, fire. intros Hal En Hne. rewrite En.
    pose proof (proj1 (Forall_forall _ _) Hal p (nth_error_In _ _ En)) as Hp. cbv beta in Hp.
    destruct (prog p) as [|a r]; [congruence|].
    pose proof (Forall_inv Hp) as Ha. pose proof (Forall_inv_tail Hp) as Hr. destruct a as [f|j g|j h]; try (exfalso; exact Ha). eauto.
  Qed.

  Lemma terminal_done (s : net) : all_local s -> gterminal net nat (step L M cap) s ->
    Forall (fun p => prog p = []) (procs s).
  Proof.
    intros Hal Ht. apply Forall_forall. intros p Hin. apply In_nth_error in Hin. destruct Hin as [i En].
    destruct (prog p) as [|a r] eqn:Ep; [reflexivity|]. exfalso.
    destruct (local_progress s i p Hal En) as [t Hs]; [rewrite Ep; discriminate|]. exact (Ht i t Hs).
  Qed.

  Theorem indep_every_schedule (s u : net) n : all_local s -> gpath net nat (step L M cap) s n u ->
    n + work u = work s /\ length (procs u) = length (procs s) /\
    (gterminal net nat (step L M cap) u ->
       Forall (fun p => prog p = []) (procs u) /\ map (@loc L M) (procs u) = map run_alone (procs s) /\ n = work s).
  Proof.
    intros Hal Hp. induction Hp as [s|s i t n u Hs Hp IH].
    - split; [reflexivity|]. split; [reflexivity|]. intros Ht.
      pose proof (terminal_done s Hal Ht) as Hd. split; [exact Hd|]. split.
      + apply map_ext_in. intros p Hin. unfold run_alone.
        rewrite (proj1 (Forall_forall _ _) Hd p Hin). reflexivity.
      + unfold work. clear -Hd. induction Hd as [|p r Hp' _ IH']; simpl; [reflexivity|]. rewrite Hp'. simpl. exact IH'.
    - destruct (step_local s t i Hal Hs) as (Hal' & Hr & Hw & Hlen).
      destruct (IH Hal') as (H1 & H2 & H3).
      split; [lia|]. split; [congruence|]. intros Ht. destruct (H3 Ht) as (Hd & Hl & Hn).
      split; [exact Hd|]. split; [rewrite Hl; exact Hr|]. lia.
  Qed.
  Lemma all_local_path (s u : net) n : all_local s -> gpath net nat (step L M cap) s n u -> all_local u.
  Proof.
    intros Hal Hp. induction Hp as [s|s i t n u Hs Hp IH]; [exact Hal|].
    apply IH. exact (proj1 (step_local s t i Hal Hs)).
  Qed.

  (* the network of chains that never communicate: chain k starts in state (fst c_k) and performs the
     transitions (snd c_k) in order *)
  Definition chains_net (chains : list (L * list (L -> L))) : net :=
    {| procs := map (fun c => {| loc := fst c; prog := map (@ALocal L M) (snd c) |}) chains; qs := fun _ _ => [] |}.
  Definition alone (c : L * list (L -> L)) : L := fold_left (fun l f => f l) (snd c) (fst c).

  Lemma chains_all_local chains : all_local (chains_net chains).
  Proof.
    unfold all_local, chains_net; cbn [procs]. apply Forall_forall. intros p Hin.
    apply in_map_iff in Hin. destruct Hin as (c & <- & _). cbn [prog].
    apply Forall_forall. intros a Ha. apply in_map_iff in Ha. destruct Ha as (f & <- & _). exact I.
  Qed.

  Lemma chains_run_alone chains : map run_alone (procs (chains_net chains)) = map alone chains.
  Proof.
    unfold chains_net; cbn [procs]. rewrite map_map. apply map_ext. intros [l fs]. unfold run_alone, alone. cbn [loc prog fst snd].
    revert l. induction fs as [|f fs IH]; intros l; simpl; [reflexivity|apply IH].
  Qed.

  Lemma chains_work chains : work (chains_net chains) = list_sum (map (fun c => length (snd c)) chains).
  Proof.
    unfold work, chains_net; cbn [procs]. rewrite map_map. f_equal. apply map_ext. intros c. cbn [prog]. apply map_length.
  Qed.

  Theorem chains_every_schedule chains n u : gpath net nat (step L M cap) (chains_net chains) n u ->
    n <= list_sum (map (fun c => length (snd c)) chains) /\
    (forall i p, nth_error (procs u) i = Some p -> prog p <> [] -> exists t, step L M cap u i t) /\
    (gterminal net nat (step L M cap) u ->
       map (@loc L M) (procs u) = map alone chains /\ Forall (fun p => prog p = []) (procs u) /\
       n = list_sum (map (fun c => length (snd c)) chains)).
  Proof.
    intros Hp. destruct (indep_every_schedule _ u n (chains_all_local chains) Hp) as (H1 & _ & H3).
    rewrite chains_work in H1. split; [lia|]. split.
    - intros i p En Hne. exact (local_progress u i p (all_local_path _ u n (chains_all_local chains) Hp) En Hne).
    - intros Ht. destruct (H3 Ht) as (Hd & Hl & Hn). rewrite chains_run_alone in Hl. rewrite chains_work in Hn. auto.
  Qed.
End Indep.
