(* C01: the integrator programs are palindromes whose drift and kick times each sum to
   stepsize * steps; every palindromic drift/kick program is time-reversible as long as each
   drift step is "good"; unbounded targets and mirror reflections at a box (coordinate-wise
   kinetic energy, single bounce) are good. *)
From Coq Require Import List Bool ZArith Reals Lra Lia FunctionalExtensionality.
From HV Require Import Num XReal NumR Integrators.
Import ListNotations.

(* ---------------- palindromes (any arithmetic) ---------------- *)
Section Pal.
  Context {N : NumOps}.

  Lemma repeat_prog_app n (body : list (@instr N)) : repeat_prog n body ++ body = body ++ repeat_prog n body.
  Proof. induction n as [|n IH]; simpl; [rewrite app_nil_r; reflexivity|]. rewrite <- app_assoc, IH. reflexivity. Qed.

  Lemma rev_repeat_prog n (body : list (@instr N)) : rev (repeat_prog n body) = repeat_prog n (rev body).
  Proof.
    induction n as [|n IH]; simpl; [reflexivity|].
    rewrite rev_app_distr, IH. apply repeat_prog_app.
  Qed.

  Lemma repeat_shift n (a b : @instr N) : [a] ++ repeat_prog n [b; a] = repeat_prog n [a; b] ++ [a].
  Proof. induction n as [|n IH]; simpl; [reflexivity|]. simpl in IH. rewrite IH. reflexivity. Qed.

  Theorem lf_palindrome n (ls : T N) : rev (lf_prog n ls) = lf_prog n ls.
  Proof.
    unfold lf_prog. rewrite !rev_app_distr. simpl rev. rewrite rev_repeat_prog. simpl rev.
    simpl app. f_equal.
    change (Kick ls :: repeat_prog (n - 1) [Drift ls; Kick ls] ++ [Drift (mul half ls)])
      with (([Kick ls] ++ repeat_prog (n - 1) [Drift ls; Kick ls]) ++ [Drift (mul half ls)]).
    rewrite repeat_shift. rewrite <- app_assoc. reflexivity.
  Qed.

  Theorem s3_palindrome (a1 b1 : T N) n (ls : T N) : rev (s3_prog a1 b1 n ls) = s3_prog a1 b1 n ls.
  Proof. unfold s3_prog. rewrite rev_repeat_prog. reflexivity. Qed.

  Theorem s4_palindrome (a1 a2 b1 : T N) n (ls : T N) : rev (s4_prog a1 a2 b1 n ls) = s4_prog a1 a2 b1 n ls.
  Proof. unfold s4_prog. rewrite rev_repeat_prog. reflexivity. Qed.

  Theorem prog_palindrome (ig : @integ N) n (ls : T N) : rev (prog_of ig n ls) = prog_of ig n ls.
  Proof. destruct ig; [apply lf_palindrome|apply s3_palindrome|apply s4_palindrome]. Qed.
End Pal.

(* ---------------- times (real arithmetic, any literals) ---------------- *)
Open Scope R_scope.

Fixpoint drift_time (prog : list (@instr NumR)) : R :=
  match prog with [] => 0 | Drift c :: r => c + drift_time r | Kick _ :: r => drift_time r end.
Fixpoint kick_time (prog : list (@instr NumR)) : R :=
  match prog with [] => 0 | Kick c :: r => c + kick_time r | Drift _ :: r => kick_time r end.

Lemma drift_time_app a b : drift_time (a ++ b) = drift_time a + drift_time b.
Proof. induction a as [|[c|c] a IH]; simpl; rewrite ?IH; lra. Qed.
Lemma kick_time_app a b : kick_time (a ++ b) = kick_time a + kick_time b.
Proof. induction a as [|[c|c] a IH]; simpl; rewrite ?IH; lra. Qed.

Lemma drift_time_repeat n body : drift_time (repeat_prog n body) = INR n * drift_time body.
Proof.
  induction n as [|n IH]; [simpl; lra|]. cbn [repeat_prog]. rewrite drift_time_app, IH, S_INR. lra.
Qed.
Lemma kick_time_repeat n body : kick_time (repeat_prog n body) = INR n * kick_time body.
Proof.
  induction n as [|n IH]; [simpl; lra|]. cbn [repeat_prog]. rewrite kick_time_app, IH, S_INR. lra.
Qed.

Lemma half_R : @half NumR = 1 / 2.
Proof. reflexivity. Qed.

Theorem lf_times n ls : (1 <= n)%nat ->
  drift_time (@lf_prog NumR n ls) = INR n * ls /\ kick_time (@lf_prog NumR n ls) = INR n * ls.
Proof.
  intros Hn. unfold lf_prog. rewrite !drift_time_app, !kick_time_app, drift_time_repeat, kick_time_repeat.
  assert (E : INR (n - 1) = INR n - 1) by (rewrite minus_INR by lia; simpl; lra).
  rewrite E. unfold half. simpl. split; lra.
Qed.

Theorem s3_times a1 b1 n ls :
  drift_time (@s3_prog NumR a1 b1 n ls) = INR n * ls /\ kick_time (@s3_prog NumR a1 b1 n ls) = INR n * ls.
Proof.
  unfold s3_prog. rewrite drift_time_repeat, kick_time_repeat. unfold half. simpl. split; f_equal; lra.
Qed.

Theorem s4_times a1 a2 b1 n ls :
  drift_time (@s4_prog NumR a1 a2 b1 n ls) = INR n * ls /\ kick_time (@s4_prog NumR a1 a2 b1 n ls) = INR n * ls.
Proof.
  unfold s4_prog. rewrite drift_time_repeat, kick_time_repeat. unfold half. simpl. split; f_equal; lra.
Qed.

(* with step-size randomisation all coefficients are scaled by the same factor f:
   the times sum to f * stepsize * steps *)
Theorem randomised_times ig n stepsize f : (1 <= n)%nat ->
  let prog := @prog_of NumR ig n (@local_step NumR (Some f) stepsize) in
  drift_time prog = INR n * (f * stepsize) /\ kick_time prog = INR n * (f * stepsize).
Proof.
  intros Hn. cbv zeta. unfold local_step. destruct ig; simpl prog_of;
    [apply lf_times; exact Hn|apply s3_times|apply s4_times].
Qed.

(* ---------------- reversibility of drift/kick programs ---------------- *)
Section Rev.
  Variable VO : VecOps NumR.
  Notation V := (VV VO).
  Variables (kgrad grad : V -> V) (corr : V -> V -> V * V).
  Notation step := (step_qp VO kgrad grad corr).
  Notation run := (run_qp VO kgrad grad corr).

  Definition flip (s : V * V) : V * V := (fst s, vo_neg VO (snd s)).

  (* a drift of size c is "good" at s when it can be undone by the same drift after a momentum flip *)
  Variable Good : R -> V * V -> Prop.
  Hypothesis flip_flip : forall s, flip (flip s) = s.
  Hypothesis kick_rev : forall (c : R) s, flip (step (@Kick NumR c) (flip (step (@Kick NumR c) s))) = s.
  Hypothesis drift_rev : forall (c : R) s, Good c s -> flip (step (@Drift NumR c) (flip (step (@Drift NumR c) s))) = s.

  Fixpoint all_good (prog : list (@instr NumR)) (s : V * V) : Prop :=
    match prog with
    | [] => True
    | i :: r => match i with Drift c => Good c s | Kick _ => True end /\ all_good r (step i s)
    end.

  Lemma run_app a b s : run (a ++ b) s = run b (run a s).
  Proof. unfold run_qp. apply fold_left_app. Qed.

  Lemma step_rev (i : @instr NumR) (s : V * V) : match i with Drift c => Good c s | Kick _ => True end ->
    flip (step i (flip (step i s))) = s.
  Proof. destruct i; intros H; [apply drift_rev; exact H|apply kick_rev]. Qed.

  Theorem run_reversible prog : forall s, all_good prog s ->
    flip (run (rev prog) (flip (run prog s))) = s.
  Proof.
    induction prog as [|i prog IH]; intros s Hg.
    - simpl. apply flip_flip.
    - destruct Hg as [Hi Hr]. cbn [rev]. rewrite run_app.
      change (run (i :: prog) s) with (run prog (step i s)).
      pose proof (IH (step i s) Hr) as H.
      assert (E : run (rev prog) (flip (run prog (step i s))) = flip (step i s)).
      { rewrite <- H at 2. rewrite flip_flip. reflexivity. }
      rewrite E. change (run [i] (flip (step i s))) with (step i (flip (step i s))).
      apply step_rev. exact Hi.
  Qed.

  Corollary palindrome_reversible prog s : rev prog = prog -> all_good prog s ->
    flip (run prog (flip (run prog s))) = s.
  Proof. intros E Hg. rewrite <- E at 1. apply run_reversible. exact Hg. Qed.
End Rev.

(* ---------------- instance 1: unbounded targets, any dimension, any odd kinetic gradient ---------------- *)
Section Unbounded.
  Variable I : Type.
  Notation V := (I -> R).
  Variables (K G : V -> V).
  Hypothesis K_odd : forall p, K (fun i => - p i) = (fun i => - K p i).
  Let idcorr (q p : V) := (q, p).

  Lemma fv_flip_flip (s : V * V) : flip (FunVec I) (flip (FunVec I) s) = s.
  Proof. destruct s as [q p]. unfold flip. simpl. f_equal. extensionality i. lra. Qed.

  Lemma fv_kick_rev (c : R) (s : V * V) :
    flip (FunVec I) (step_qp (FunVec I) K G idcorr (@Kick NumR c) (flip (FunVec I) (step_qp (FunVec I) K G idcorr (@Kick NumR c) s))) = s.
  Proof. destruct s as [q p]. unfold flip. simpl. f_equal. extensionality i. lra. Qed.

  Lemma fv_drift_rev (c : R) (s : V * V) :
    flip (FunVec I) (step_qp (FunVec I) K G idcorr (@Drift NumR c) (flip (FunVec I) (step_qp (FunVec I) K G idcorr (@Drift NumR c) s))) = s.
  Proof.
    destruct s as [q p]. unfold flip, idcorr. simpl. rewrite K_odd. f_equal; extensionality i; lra.
  Qed.

  Theorem unbounded_reversible ig n ls (s : V * V) :
    let prog := @prog_of NumR ig n ls in
    flip (FunVec I) (run_qp (FunVec I) K G idcorr prog (flip (FunVec I) (run_qp (FunVec I) K G idcorr prog s))) = s.
  Proof.
    cbv zeta. apply (palindrome_reversible (FunVec I) K G idcorr (fun _ _ => True)).
    - apply fv_flip_flip.
    - apply fv_kick_rev.
    - intros c s0 _. apply fv_drift_rev.
    - apply prog_palindrome.
    - generalize (@prog_of NumR ig n ls). intros prog. revert s.
      induction prog as [|[c|c] prog IH]; intros s; simpl; auto.
  Qed.
End Unbounded.

(* ---------------- instance 2: mirror reflection at a box, coordinate-wise kinetic energy ---------------- *)
Definition reflect1 (lo hi : option R) (q p : R) : R * R :=
  let '(q1, p1) := match lo with
                   | Some l => if Rltb q l then (q + 2 * (l - q), - p) else (q, p)
                   | None => (q, p) end in
  match hi with
  | Some u => if Rltb u q1 then (q1 + 2 * (u - q1), - p1) else (q1, p1)
  | None => (q1, p1)
  end.

Definition inside_strict (lo hi : option R) (q : R) : Prop :=
  match lo with Some l => l < q | None => True end /\ match hi with Some u => q < u | None => True end.
Definition inside (lo hi : option R) (q : R) : Prop :=
  match lo with Some l => l <= q | None => True end /\ match hi with Some u => q <= u | None => True end.

(* single bounce: the (at most once) mirrored end point of the drift lies in the box *)
Definition good1 (lo hi : option R) (q v : R) : Prop :=
  inside_strict lo hi q /\
  let q1 := q + v in
  inside lo hi q1 \/
  (match lo with Some l => q1 < l /\ inside lo hi (2 * l - q1) | None => False end) \/
  (match hi with Some u => u < q1 /\ inside lo hi (2 * u - q1) | None => False end).

Lemma Rltb_t a b : a < b -> Rltb a b = true. Proof. apply Rltb_true. Qed.
Lemma Rltb_f a b : ~ a < b -> Rltb a b = false. Proof. apply Rltb_false. Qed.

Ltac rl := repeat first [rewrite Rltb_t by lra | rewrite Rltb_f by lra].

(* scalar reversibility of a reflected drift, for any odd velocity function k (k p = c * p / m) *)
Lemma reflect_drift_rev1 (k : R -> R) lo hi q p :
  (forall x, k (- x) = - k x) -> good1 lo hi q (k p) ->
  let '(q2, p2) := reflect1 lo hi (q + k p) p in
  let '(q3, p3) := reflect1 lo hi (q2 + k (- p2)) (- p2) in
  q3 = q /\ - p3 = p.
Proof.
  intros Hodd Hg. unfold good1, inside_strict, inside in Hg. cbv zeta in Hg. unfold reflect1.
  destruct Hg as [[Hl Hu] Hg].
  destruct lo as [l|], hi as [u|]; simpl in *;
    repeat match goal with
           | H : _ \/ _ |- _ => destruct H
           | H : _ /\ _ |- _ => destruct H
           | H : False |- _ => contradiction
           end;
    rl; rewrite ?Hodd, ?Ropp_involutive; rl; split; lra.
Qed.

Section Box.
  Variable I : Type.
  Notation V := (I -> R).
  Variables (m : I -> R) (lo hi : I -> option R).
  Variable G : V -> V.

  (* coordinate-wise kinetic energy gradient (Unit: m = 1; Diagonal: m = the diagonal) *)
  Definition Kdiag (p : V) : V := fun i => p i / m i.
  (* the corrector of hmclab.Distributions: mirror each violating coordinate, negate its momentum *)
  Definition boxcorr (q p : V) : V * V :=
    (fun i => fst (reflect1 (lo i) (hi i) (q i) (p i)), fun i => snd (reflect1 (lo i) (hi i) (q i) (p i))).

  Definition GoodBox (c : R) (s : V * V) : Prop :=
    forall i, good1 (lo i) (hi i) (fst s i) (c * (snd s i / m i)).

  Lemma box_kick_rev (c : R) (s : V * V) :
    flip (FunVec I) (step_qp (FunVec I) Kdiag G boxcorr (@Kick NumR c)
          (flip (FunVec I) (step_qp (FunVec I) Kdiag G boxcorr (@Kick NumR c) s))) = s.
  Proof. destruct s as [q p]. unfold flip. simpl. f_equal. extensionality i. lra. Qed.

  Lemma box_drift_rev (c : R) (s : V * V) : GoodBox c s ->
    flip (FunVec I) (step_qp (FunVec I) Kdiag G boxcorr (@Drift NumR c)
          (flip (FunVec I) (step_qp (FunVec I) Kdiag G boxcorr (@Drift NumR c) s))) = s.
  Proof.
    destruct s as [q p]. intros Hg. unfold flip, boxcorr, Kdiag. simpl.
    assert (H : forall i,
      fst (reflect1 (lo i) (hi i)
             (fst (reflect1 (lo i) (hi i) (q i + c * (p i / m i)) (p i))
              + c * (- snd (reflect1 (lo i) (hi i) (q i + c * (p i / m i)) (p i)) / m i))
             (- snd (reflect1 (lo i) (hi i) (q i + c * (p i / m i)) (p i)))) = q i
      /\ - snd (reflect1 (lo i) (hi i)
             (fst (reflect1 (lo i) (hi i) (q i + c * (p i / m i)) (p i))
              + c * (- snd (reflect1 (lo i) (hi i) (q i + c * (p i / m i)) (p i)) / m i))
             (- snd (reflect1 (lo i) (hi i) (q i + c * (p i / m i)) (p i)))) = p i).
    { intros i. specialize (Hg i). simpl in Hg.
      pose proof (reflect_drift_rev1 (fun x => c * (x / m i)) (lo i) (hi i) (q i) (p i)) as L.
      cbv beta in L. specialize (L (fun x => ltac:(unfold Rdiv; ring)) Hg).
      destruct (reflect1 (lo i) (hi i) (q i + c * (p i / m i)) (p i)) as [q2 p2]. simpl.
      destruct (reflect1 (lo i) (hi i) (q2 + c * (- p2 / m i)) (- p2)) as [q3 p3]. simpl. exact L. }
    f_equal; extensionality i; apply H.
  Qed.

  (* HMC proposal map with reflecting bounds: reversible whenever every drift of the trajectory is a
     single bounce that lands in the box (all_good), for all integrators, steps, dimensions *)
  Theorem box_reversible ig n ls (s : V * V) :
    let prog := @prog_of NumR ig n ls in
    all_good (FunVec I) Kdiag G boxcorr GoodBox prog s ->
    flip (FunVec I) (run_qp (FunVec I) Kdiag G boxcorr prog (flip (FunVec I) (run_qp (FunVec I) Kdiag G boxcorr prog s))) = s.
  Proof.
    cbv zeta. intros Hg. apply (palindrome_reversible (FunVec I) Kdiag G boxcorr GoodBox).
    - apply fv_flip_flip.
    - apply box_kick_rev.
    - apply box_drift_rev.
    - apply prog_palindrome.
    - exact Hg.
  Qed.
End Box.
