From Coq Require Import List Bool ZArith Arith.
From HV Require Import FloatIO FileSys.
Import ListNotations.

(* expected per op: result class, and for each of the three paths whether its content changed *)
Record c11_case := { f_ops : list fop; f_obs : list (nat * list bool) }.

Definition res_code (r : res) : nat := match r with Ok => 0 | FileExists => 1 | OtherError => 2 end.

Fixpoint observe (f : fs) (ops : list fop) : list (nat * list bool) :=
  match ops with
  | [] => []
  | o :: r =>
      let '(f1, x) := step f o in
      let changed := map (fun p => negb (match lookup_stamp (stamps f) p, lookup_stamp (stamps f1) p with
                                         | Some a, Some b => Nat.eqb a b
                                         | None, None => true
                                         | _, _ => false end)) [0; 1; 2] in
      (res_code x, changed) :: observe f1 r
  end.

Definition obs_eq (a b : nat * list bool) : bool :=
  Nat.eqb (fst a) (fst b) && list_eqb Bool.eqb (snd a) (snd b).

Definition c11_check (c : c11_case) : bool :=
  list_eqb obs_eq (observe {| stamps := []; next := 0; handles := 0 |} (f_ops c)) (f_obs c).
