(* Correspondence check for C19: run the model on binary64 with the implementation's
   logged oracle answers and compare every observable with what the implementation returned. *)
From Coq Require Import List Bool ZArith PrimFloat.
From HV Require Import Num FloatIO GradDescent.
Import ListNotations.

Record c19_case := {
  k_m0 : list float; k_eps : float; k_iter : nat; k_reg : option float; k_mono : bool;
  k_mis_tbl : list (list float * float);
  k_grad_tbl : list (list float * list float);
  k_m : list float; k_x : float; k_ms : list (list float); k_xs : list float;
  k_calls : list (bool * list float)     (* true = misfit, false = gradient; in call order *)
}.

Definition req_eq (r : @gd_req NumF) (c : bool * list float) : bool :=
  match r, c with
  | ReqMisfit m, (true, a) => fvec_eq m a
  | ReqGrad m, (false, a) => fvec_eq m a
  | _, _ => false
  end.

Definition c19_check (c : c19_case) : bool :=
  let mis := lookup (k_mis_tbl c) nan in
  let gr := lookup (k_grad_tbl c) [] in
  let s := @gradient_descent NumF mis gr (k_m0 c) (k_eps c) (k_iter c) (k_reg c) (k_mono c) in
  fvec_same (gm s) (k_m c) && fsame (gx s) (k_x c)
  && list_eqb fvec_same (rev (gms s)) (k_ms c) && fvec_same (rev (gxs s)) (k_xs c)
  && list_eqb req_eq (rev (greqs s)) (k_calls c).
