(* Correspondence for the EvaluationLimiter wrapper (C08): every call of a generated misfit / gradient call
   sequence on the real wrapper class raises exactly when the model does and leaves the same counter. *)
From Coq Require Import List Bool Arith.
From HV Require Import Limiter.
Import ListNotations.

Record lim_case := {
  q_limit : nat; q_gcount : nat; q_throw : bool;
  q_ops : list bool;                 (* true = gradient, false = misfit *)
  q_obs : list (bool * nat)          (* per call: raised?, counter afterwards *)
}.

Fixpoint lim_trace (s : limiter) (ops : list bool) : list (bool * nat) :=
  match ops with
  | [] => []
  | g :: r => let '(s1, b) := lim_step s (if g then LGradient else LMisfit) in (b, lim_evals s1) :: lim_trace s1 r
  end.

Fixpoint obs_eqb (a b : list (bool * nat)) : bool :=
  match a, b with
  | [], [] => true
  | (x, n) :: a', (y, m) :: b' => Bool.eqb x y && Nat.eqb n m && obs_eqb a' b'
  | _, _ => false
  end.

Definition lim_check (c : lim_case) : bool :=
  obs_eqb (lim_trace (lim_make (q_limit c) (q_gcount c) (q_throw c)) (q_ops c)) (q_obs c).
