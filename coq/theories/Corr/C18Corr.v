(* Correspondence for C18: binary64 instance of the ray model against _tracerays (tolerance 2^-30 relative:
   the code goes through arcsin/sin/cos, the model through sqrt). *)
From Coq Require Import List Bool ZArith PrimFloat.
From HV Require Import Num FloatIO RayTracer.
Import ListNotations.

Record c18_case := {
  y_layers : list (float * float); y_sin0 : float; y_X : float;
  y_out : nat;                     (* 0 reached, 1 turned, 2 out of the bottom *)
  y_x : float; y_z : float; y_tt : float; y_dist : float;
  y_perlayer : list float
}.

Definition near (a b : float) : bool :=
  if fsame a b then true
  else if is_nan a || is_nan b || is_infinity a || is_infinity b then false
  else PrimFloat.leb (PrimFloat.abs (PrimFloat.sub a b))
                     (PrimFloat.mul (PrimFloat.add (PrimFloat.add (PrimFloat.abs a) (PrimFloat.abs b)) 0x1p-20%float) 0x1p-30%float).

Definition out_code (o : outcome) : nat := match o with Reached => 0 | Turned => 1 | OutBottom => 2 end.

Fixpoint per_layer (n : nat) (segs : list (@seg NumF)) : list float :=
  match n with
  | O => []
  | S k => per_layer k segs ++ [fold_left (fun (a : float) (g : @seg NumF) => if Nat.eqb (g_layer g) k then PrimFloat.add a (g_len g) else a) segs 0%float]
  end.

Definition c18_check (c : c18_case) : bool :=
  let r := @trace_from NumF (y_layers c) (y_sin0 c) (y_X c) in
  Nat.eqb (out_code (r_out r)) (y_out c)
  && match y_out c with
     | 0%nat => near (r_x r) (y_x c) && near (r_z r) (y_z c) && near (r_tt r) (y_tt c) && near (r_dist r) (y_dist c)
                && list_eqb near (per_layer (length (y_layers c)) (r_segs r)) (y_perlayer c)
     | 1%nat => near (r_tt r) (y_tt c) && near (r_dist r) (y_dist c)
     | _ => true
     end.
