(* Correspondence of the sampler model (binary64 instance) with complete sample() runs of the
   implementation: oracle answers come from the implementation's own call log. *)
From Coq Require Import List Bool ZArith Arith PrimFloat.
From HV Require Import Num FloatIO Integrators Sampler.
Import ListNotations.

Record s_case := {
  sc_hmc : bool;
  sc_mis : list (list float * float);
  sc_grad : list (list float * list float);
  sc_kin : list (list float * float);
  sc_kgrad : list (list float * list float);
  sc_exp : list (list float * float);
  sc_pow : list float;
  sc_massdiag : option (list float);       (* generate_momentum = sqrt-diag * z, None = z *)
  sc_genmom : list (list float * list float);   (* or: logged (draw, momentum) pairs of the real mass matrix *)
  sc_nsp : list float; sc_stepvec : option (list float);
  sc_tune : bool; sc_target : float; sc_min : float;
  sc_integ : nat; sc_lits : list float; sc_steps : nat;
  sc_m0 : list float; sc_step0 : float; sc_thin : nat;
  sc_evs : list (list float * option float * float);
  (* expected, from the implementation *)
  x_cols : list (list float * float);
  x_cur : list float; x_curx : float; x_acc : nat; x_step : float;
  x_hist_a : list float; x_hist_s : list float;
  x_decisions : list bool;
  x_trace : list (nat * list float * list float)
}.

Definition the_integ (c : s_case) : @integ NumF :=
  match sc_integ c, sc_lits c with
  | 1%nat, [a1; b1] => @S3 NumF a1 b1
  | 2%nat, [a1; a2; b1] => @S4 NumF a1 a2 b1
  | _, _ => @LF NumF
  end.

Definition enc_call (c : @call NumF (ListVec NumF)) : nat * list float * list float :=
  match c with
  | CMisfit q => (0%nat, q, [])
  | CGrad q => (1%nat, q, [])
  | CKGrad p => (2%nat, p, [])
  | CKin p => (3%nat, p, [])
  | CCorr q p => (4%nat, q, p)
  | CExp x => (5%nat, [x], [])
  | CGenMom => (6%nat, [], [])
  | CAccept => (7%nat, [], [])
  | CReject => (8%nat, [], [])
  end.

Definition call_eq (a b : nat * list float * list float) : bool :=
  let '(t1, x1, y1) := a in let '(t2, x2, y2) := b in
  Nat.eqb t1 t2 && fvec_eq x1 x2 && fvec_eq y1 y2.

Definition sc_run (c : s_case) :=
  let mis := lookup (sc_mis c) nan in
  let gr := lookup (sc_grad c) [] in
  let kin := lookup (sc_kin c) nan in
  let kgr := lookup (sc_kgrad c) [] in
  let expf := fun x => lookup (sc_exp c) nan [x] in
  let powf := fun i => nth i (sc_pow c) nan in
  let genmom := fun z => match sc_genmom c with
                         | _ :: _ => lookup (sc_genmom c) [] z
                         | [] => match sc_massdiag c with
                                 | None => z
                                 | Some dg => map2 PrimFloat.mul (map PrimFloat.sqrt dg) z end
                         end in
  let corr := fun (q p : list float) => (q, p) in
  let tu := @Build_tuning NumF (sc_tune c) (sc_target c) (sc_min c) in
  let sm := if sc_hmc c
            then Hm (@Build_hmc_cfg NumF (the_integ c) (sc_steps c) tu)
            else Rw (@Build_rwmh_cfg NumF (sc_nsp c) (sc_stepvec c) tu) in
  let evs := map (fun e => let '(z, f, u) := e in @Build_ev NumF z f u) (sc_evs c) in
  @run NumF mis gr corr kin kgr genmom expf powf sm (sc_thin c) (sc_m0 c) (sc_step0 c) evs.

Definition col_eq (a b : list float * float) : bool := fvec_same (fst a) (fst b) && fsame (snd a) (snd b).

(* stored columns = model columns *)
Definition sc_check_cols (c : s_case) : bool :=
  let '(_, cols, _) := sc_run c in list_eqb col_eq cols (x_cols c).
(* decisions, final state and accepted counter *)
Definition sc_check_accept (c : s_case) : bool :=
  let '(sf, _, bs) := sc_run c in
  list_eqb Bool.eqb bs (x_decisions c) && fvec_same (cur sf) (x_cur c) && fsame (cur_x sf) (x_curx c)
  && Nat.eqb (acc sf) (x_acc c).
(* autotuning histories and final step size *)
Definition sc_check_tune (c : s_case) : bool :=
  let '(sf, _, _) := sc_run c in
  fsame (step sf) (x_step c) && fvec_same (rev (hist_a sf)) (x_hist_a c) && fvec_same (rev (hist_s sf)) (x_hist_s c).
(* complete call structure: which oracle was called with which arguments, in order *)
Definition sc_check_trace (c : s_case) : bool :=
  let '(sf, _, _) := sc_run c in list_eqb call_eq (map enc_call (rev (trace sf))) (x_trace c).

(* ---- fault injection (C08) ---- *)
From HV Require Import Faults.

Record f_obs := { fo_site : fsite; fo_kind : fkind; fo_cols : list (list float * float);
                  fo_outcome : outcome; fo_cp : Z; fo_acc : nat }.

Definition outcome_eqb (a b : outcome) : bool :=
  match a, b with Returned, Returned => true | Raised x, Raised y => Nat.eqb x y | _, _ => false end.

Definition sc_fault_ok (c : s_case) (o : f_obs) : bool :=
  let mis := lookup (sc_mis c) nan in
  let gr := lookup (sc_grad c) [] in
  let kin := lookup (sc_kin c) nan in
  let kgr := lookup (sc_kgrad c) [] in
  let expf := fun x => lookup (sc_exp c) nan [x] in
  let powf := fun i => nth i (sc_pow c) nan in
  let genmom := fun z => match sc_genmom c with
                         | _ :: _ => lookup (sc_genmom c) [] z
                         | [] => match sc_massdiag c with
                                 | None => z
                                 | Some dg => map2 PrimFloat.mul (map PrimFloat.sqrt dg) z end
                         end in
  let corr := fun (q p : list float) => (q, p) in
  let tu := @Build_tuning NumF (sc_tune c) (sc_target c) (sc_min c) in
  let sm := if sc_hmc c
            then Hm (@Build_hmc_cfg NumF (the_integ c) (sc_steps c) tu)
            else Rw (@Build_rwmh_cfg NumF (sc_nsp c) (sc_stepvec c) tu) in
  let evs := map (fun e => let '(z, f, u) := e in @Build_ev NumF z f u) (sc_evs c) in
  let r := @run_faulty NumF mis gr corr kin kgr genmom expf powf sm (sc_thin c) (sc_m0 c) (sc_step0 c) evs
                       (fo_site o) (fo_kind o) in
  list_eqb col_eq (r_cols r) (fo_cols o) && outcome_eqb (r_outcome r) (fo_outcome o)
  && Z.eqb (r_cp r) (fo_cp o).

Definition fc_check (cf : s_case * list f_obs) : bool := forallb (sc_fault_ok (fst cf)) (snd cf).
