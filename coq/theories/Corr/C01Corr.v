(* Correspondence for C01: the binary64 instance of the integrator programs against the real
   _propagate_* methods (scripted oracles as tables, real corrector as the Bounds model). *)
From Coq Require Import List Bool ZArith Arith PrimFloat.
From HV Require Import Num FloatIO Integrators Bounds SamplerCorr.
Import ListNotations.

Record c01_case := {
  i_integ : nat; i_lits : list float; i_steps : nat; i_stepsize : float; i_factor : option float;
  i_q0 : list float; i_p0 : list float;
  i_kgrad : list (list float * list float);
  i_grad : list (list float * list float);
  i_lo : option (list float); i_hi : option (list float);
  o_q : list float; o_p : list float;
  o_trace : list (nat * list float * list float)
}.

Definition c01_integ (c : c01_case) : @integ NumF :=
  match i_integ c, i_lits c with
  | 1%nat, [a1; b1] => @S3 NumF a1 b1
  | 2%nat, [a1; a2; b1] => @S4 NumF a1 a2 b1
  | _, _ => @LF NumF
  end.

Definition c01_run (c : c01_case) :=
  let kgr := lookup (i_kgrad c) [] in
  let gr := lookup (i_grad c) [] in
  let corr := @corrector NumF (i_lo c) (i_hi c) in
  @propagate NumF (ListVec NumF) kgr gr corr (c01_integ c) (i_steps c) (i_stepsize c) (i_factor c)
             (i_q0 c) (i_p0 c) [].

Definition c01_check (c : c01_case) : bool :=
  let '(q, p, tr) := c01_run c in
  fvec_same q (o_q c) && fvec_same p (o_p c)
  && list_eqb call_eq (map enc_call (rev tr)) (o_trace c).
