From Coq Require Import List Bool Arith.
From HV Require Import FloatIO Bfgs.
Import ListNotations.

(* per history: after each op, (factor belongs to current metric?, after a Reject: metric and reference pair equal those at the
   last accept?) *)
Record c03_case := { h_ops : list bop; h_obs : list (bool * bool) }.

Fixpoint observe (s : bstate) (last_acc : nat * nat) (ops : list bop) : list (bool * bool) :=
  match ops with
  | [] => []
  | o :: r =>
      let s' := bstep s o in
      let la := match o with Accept => (minv s', refp s') | _ => last_acc end in
      (Nat.eqb (lt_of s') (minv s'),
       match o with Reject => Nat.eqb (minv s') (fst la) && Nat.eqb (refp s') (snd la) | _ => true end) :: observe s' la r
  end.

Definition obs_eq (a b : bool * bool) : bool := Bool.eqb (fst a) (fst b) && Bool.eqb (snd a) (snd b).
Definition c03_check (c : c03_case) : bool := list_eqb obs_eq (observe binit (0, 0) (h_ops c)) (h_obs c).
