(* Correspondence for C12: the binary64 instance of the exchange network.  The chains' transitions, their
   targets, exp and the uniform numbers of the exchange sections are tables of what the implementation did
   (the transitions themselves are the subject of C02/C04/C06); the model computes every exchange and every
   stored column, and checks that each transition started from the state the model holds. *)
From Coq Require Import List Bool ZArith PrimFloat.
From HV Require Import Num FloatIO Network Exchange.
Import ListNotations.

Definition fstate := (list float * float)%type.

Record c12_chain := {
  h_init : fstate;                       (* model and misfit before the first proposal *)
  h_trans : list (fstate * fstate);      (* per proposal: state before / after the transition, as observed *)
  h_misfit : list (list float * float);  (* the chain's own target: logged (argument, value) *)
  h_unif : list float;                   (* uniform numbers drawn in the exchange sections, in order *)
  h_cols : list fstate;                  (* the columns of the chain's samples file *)
  h_events : list (bool * nat)           (* pipe events of the chain: (is send, partner) *)
}.

Record c12_case := {
  e_P : nat; e_I : nat; e_exchange : bool;
  e_sched : list (list (nat * nat));     (* rows of (slave, master) pairs *)
  e_exp : list (list float * float);
  e_chains : list c12_chain
}.

Definition dummy_chain : c12_chain :=
  {| h_init := ([], nan); h_trans := []; h_misfit := []; h_unif := []; h_cols := []; h_events := [] |}.

Section Inst.
  Variable c : c12_case.
  Definition St := list float.
  Definition G := list float.
  Definition chain (i : nat) := nth i (e_chains c) dummy_chain.
  Definition c_misfit (i : nat) (s : St) : float := lookup (h_misfit (chain i)) nan s.
  Definition c_exp (x : float) : float := lookup (e_exp c) nan [x].
  Definition c_draw (g : G) : float * G := match g with [] => (nan, []) | u :: r => (u, r) end.
  Definition state_eq (a b : fstate) : bool := fvec_eq (fst a) (fst b) && fbits_eq (snd a) (snd b).

  Definition mkcore (m : St) (x : float) (g : G) : @core NumF St G := @Build_core NumF St G m x g.

  Definition c_trans (i p : nat) (k : @core NumF St G) : @core NumF St G :=
    match nth_error (h_trans (chain i)) p with
    | Some (before, after) =>
        if state_eq before (k_model k, k_x k)
        then mkcore (fst after) (snd after) (k_rng k)
        else mkcore (k_model k) nan (k_rng k)     (* the transition did not start from the model's state *)
    | None => mkcore (k_model k) nan (k_rng k)
    end.

  Definition c_init (i : nat) : @lst NumF St G :=
    let h := chain i in
    @Build_lst NumF St G (mkcore (fst (h_init h)) (snd (h_init h)) (h_unif h)) [] nan nan nan [].

  Definition n := length (e_chains c).
  Definition inits := map c_init (seq 0 n).

  Definition the_net := @init_net NumF St G fvec_same c_misfit c_exp c_draw c_trans (e_sched c) (e_I c) (e_exchange c) inits (e_P c).
  Definition the_final := @final_procs NumF St G fvec_same c_misfit c_exp c_draw c_trans (e_sched c) (e_I c) (e_exchange c) inits (e_P c).

  Definition outs_ok (ps : list (proc (@lst NumF St G) (@msg NumF St))) : bool :=
    list_eqb (fun (pr : proc (@lst NumF St G) (@msg NumF St)) i => list_eqb state_eq (@l_out NumF St G (loc pr)) (h_cols (chain i))) ps (seq 0 n).

  Definition events_ok : bool :=
    forallb (fun i => list_eqb (fun a b => Bool.eqb (fst a) (fst b) && Nat.eqb (snd a) (snd b))
                        (@skeleton NumF St G (@progs_from NumF St G fvec_same c_misfit c_exp c_draw c_trans (e_sched c) (e_I c) (e_exchange c) i 0 (e_P c)))
                        (h_events (chain i)))
            (seq 0 n).

  (* the network itself with queues of capacity ONE (a second message blocks the sender), run by a scheduler
     that always prefers the highest-numbered chain that can move *)
  Definition steps_buffered := total_steps (e_sched c) (e_I c) (e_exchange c) 10 n 0 (e_P c).
  Definition steps_sync := total_steps (e_sched c) (e_I c) (e_exchange c) 6 n 0 (e_P c).
  Definition net_run := run_sched _ _ (Some 1%nat) (steps_buffered + 1) (rev (seq 0 n)) the_net.
  (* ... and with synchronous pipes (send and receive are one joint step) *)
  Definition net_run_sync := srun_sched _ _ (steps_sync + 1) (rev (seq 0 n)) the_net.

  Definition c12_guard : bool := run_definedb (e_sched c) (e_I c) (e_exchange c) n (e_P c).
  Definition c12_check : bool := c12_guard && outs_ok the_final && events_ok.
  Definition c12_check_net : bool :=
    all_done _ _ (fst net_run) && outs_ok (procs (fst net_run)) && Nat.eqb (snd net_run) steps_buffered.
  Definition c12_check_sync : bool :=
    all_done _ _ (fst net_run_sync) && outs_ok (procs (fst net_run_sync)) && Nat.eqb (snd net_run_sync) steps_sync.
End Inst.
