(* Correspondence for C10: step-by-step co-execution of the container model with the real
   hmclab.Samples object; columns are identified by integer ids. *)
From Coq Require Import List Bool ZArith Arith.
From HV Require Import FloatIO SamplesFile.
Import ListNotations.

Record c10_case := {
  t_be : backend;
  t_ops : list (op nat);
  t_clock : list (option Z);
  t_obs : list (nat * nat * Z);            (* after each op: len(buffer), interval, write_index *)
  t_file : list nat;                        (* ids of the columns read back after close *)
  t_queries : list (nat * nat * nat * option (list nat));  (* burn-in, lo, hi, expected (None = refused) *)
  t_parts : list (list nat); t_nanids : list nat; t_combined : list nat   (* combine_samples *)
}.

Fixpoint observe (be : backend) (ops : list (op nat)) (sc : wstate nat * list (option Z)) : list (nat * nat * Z) :=
  match ops with
  | [] => []
  | o :: r => let sc' := step_op nat be sc o in
              (length (buf (fst sc')), interval (fst sc'), widx (fst sc')) :: observe be r sc'
  end.

Definition obs_eq (a b : nat * nat * Z) : bool :=
  let '(x1, y1, z1) := a in let '(x2, y2, z2) := b in Nat.eqb x1 x2 && Nat.eqb y1 y2 && Z.eqb z1 z2.

Definition query_ok (s : wstate nat) (q : nat * nat * nat * option (list nat)) : bool :=
  let '(b, lo, hi, want) := q in
  match ropen nat s b, want with
  | None, None => true
  | Some _, Some w => list_eqb Nat.eqb (rgetitem nat s b lo hi) w
  | _, _ => false
  end.

Definition c10_check (c : c10_case) : bool :=
  let s := fst (run_ops nat (t_be c) (t_ops c ++ [Close]) (t_clock c)) in
  list_eqb obs_eq (observe (t_be c) (t_ops c) (init_w nat, t_clock c)) (t_obs c)
  && list_eqb Nat.eqb (file s) (t_file c)
  && forallb (query_ok s) (t_queries c)
  && list_eqb Nat.eqb (combine nat (fun i => existsb (Nat.eqb i) (t_nanids c)) (t_parts c)) (t_combined c).
