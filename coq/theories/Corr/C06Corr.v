(* Correspondence for C06: corrector / misfit_bounds / update_bounds / collapsed bounds of the real
   distributions against the Bounds model on binary64. *)
From Coq Require Import List Bool ZArith Arith PrimFloat.
From HV Require Import Num FloatIO Bounds.
Import ListNotations.

Definition obox := (option (list float) * option (list float))%type.

Record c06_case := {
  b_dim : nat;
  b_old : obox;                      (* bounds before the update *)
  b_args : obox;                     (* arguments of update_bounds *)
  b_update_ok : bool;                (* did update_bounds return without raising *)
  b_after : obox;                    (* bounds afterwards *)
  b_parts : list obox;               (* AdditiveDistribution: bounds of the parts ([] = plain distribution) *)
  b_collapsed : obox;                (* bounds of the additive distribution *)
  b_points : list (list float * list float * bool * list float * list float)
     (* position, momentum, misfit_bounds == inf, corrected position, corrected momentum (under b_after / b_collapsed) *)
}.

Definition ovec_eq (a b : option (list float)) : bool :=
  match a, b with Some x, Some y => fvec_same x y | None, None => true | _, _ => false end.
Definition obox_eq (a b : obox) : bool := ovec_eq (fst a) (fst b) && ovec_eq (snd a) (snd b).

Definition c06_check (c : c06_case) : bool :=
  let '(after, ok) := @update_bounds NumF (b_dim c) (b_old c) (fst (b_args c)) (snd (b_args c)) in
  let active := match b_parts c with [] => after | ps => @collapse NumF ps (None, None) end in
  Bool.eqb ok (b_update_ok c) && obox_eq after (b_after c) && obox_eq active (b_collapsed c)
  && forallb (fun pt => let '(q, p, out, q2, p2) := pt in
                        let '(mq, mp) := @corrector NumF (fst active) (snd active) q p in
                        Bool.eqb (@outside NumF (fst active) (snd active) q) out && fvec_same mq q2 && fvec_same mp p2)
             (b_points c).
