(* C04 — a transition started on the target stays on the target (stationarity).  Statements only.
   PARTIAL: the theorems are over finite state spaces (counting measure, mathcomp finType).  The lift to
   Lebesgue measure on R^d x R^d -- change of variables under the trajectory map, whose Jacobian has
   determinant 1 (C01 volume) and which is an involution after a momentum flip (C01 reversibility) -- is the
   standard argument and is NOT mechanised (no measure theory library is installed).  C01, C02 and C03 supply
   exactly the three hypotheses used here: involution, Metropolis test on the joint energy, Gibbs momenta. *)
From mathcomp Require Import all_ssreflect all_algebra.
From HV Require Import Kernel.
Import Order.TTheory GRing.Theory Num.Theory.
Local Open Scope ring_scope.

(* Metropolis test after an involution of the state space leaves pi invariant *)
Theorem c04_involution_metropolis_invariant_partial : forall (F : realFieldType) (X : finType) (pi : X -> F) (Phi : X -> X),
  (forall x, 0 < pi x) -> (forall x, Phi (Phi x) = x) -> invariant pi (Kinv pi Phi).
Proof. move=> F X pi Phi Hp Hi. exact: involution_metropolis_invariant. Qed.

(* Metropolis with a symmetric proposal (RWMH, scalar or per-dimension step) leaves pi invariant *)
Theorem c04_symmetric_proposal_invariant_partial : forall (F : realFieldType) (X : finType) (pi : X -> F) (q : X -> X -> F),
  (forall x, 0 < pi x) -> (forall x y, q x y = q y x) -> (forall x, \sum_y q x y = 1) -> invariant pi (Ksym pi q).
Proof. move=> F X pi q Hp Hs Hn. exact: symmetric_metropolis_invariant. Qed.

(* a fresh momentum from its own law leaves the joint target invariant *)
Theorem c04_momentum_refresh_invariant_partial : forall (F : realFieldType) (X P : finType) (pi : X -> F) (rho : P -> F),
  \sum_p rho p = 1 -> invariant (joint pi rho) (@Kref F X P rho).
Proof. move=> F X P pi rho Hr. exact: refresh_invariant. Qed.

(* invariance is closed under composition; hence any number of HMC transitions
   (refresh ; involution + Metropolis) started on the target stays on the target *)
Theorem c04_any_number_of_transitions_partial : forall (F : realFieldType) (X P : finType) (pi : X -> F) (rho : P -> F) (Phi : X * P -> X * P),
  \sum_p rho p = 1 -> (forall s, 0 < joint pi rho s) -> (forall s, Phi (Phi s) = s) ->
  forall n, invariant (joint pi rho) (iter_kernel (comp (@Kref F X P rho) (Kinv (joint pi rho) Phi)) n).
Proof. move=> F X P pi rho Phi. exact: hmc_transition_invariant. Qed.

Print Assumptions c04_involution_metropolis_invariant_partial.
Print Assumptions c04_symmetric_proposal_invariant_partial.
Print Assumptions c04_momentum_refresh_invariant_partial.
Print Assumptions c04_any_number_of_transitions_partial.
