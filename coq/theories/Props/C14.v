(* C14 — normalised misfits are true negative log-densities; generate() matches.  Statements only.
   Trusted (not mechanised): the textbook densities integrate to one; NumPy's normal / laplace /
   uniform / choice primitives have their documented laws. *)
From Coq Require Import Reals List.
From HV Require Import Dist AlgebraProofs DensityProofs.
Import ListNotations.
Open Scope R_scope.

(* Normal with per-dimension (or scalar) covariance v: after normalize() the misfit is minus the
   logarithm of prod_i (2 pi v_i)^(-1/2) exp(-(x_i-mu_i)^2/(2 v_i)), for every dimension and point *)
Theorem c14_normal_pdf : forall mu v x, length mu = length v -> length v = length x ->
  Forall (fun a => 0 < a) v ->
  misfit (normal_diag mu (map Rinv v) (normal_const v)) x = - ln (normal_pdf_diag mu v x).
Proof. exact normal_diag_is_neg_log_pdf. Qed.

(* Laplace with dispersions b: minus the logarithm of prod_i 1/(2 b_i) exp(-|x_i-mu_i|/b_i) *)
Theorem c14_laplace_pdf : forall mu b x, length mu = length b -> length b = length x ->
  Forall (fun a => 0 < a) b ->
  misfit (laplace mu (map Rinv b) (laplace_const b)) x = - ln (laplace_pdf mu b x).
Proof. exact laplace_is_neg_log_pdf. Qed.

(* generate(): mu + sigma z (z standard normal) has the Normal(mu, sigma^2) density;
   mu + b z (z standard Laplace) the Laplace(mu, b) density *)
Theorem c14_normal_pushforward : forall mu sigma y, 0 < sigma ->
  npdf1 0 1 ((y - mu) / sigma) / sigma = npdf1 mu (sigma * sigma) y.
Proof. exact normal_pushforward. Qed.
Theorem c14_laplace_pushforward : forall mu b y, 0 < b -> lpdf1 0 1 ((y - mu) / b) / b = lpdf1 mu b y.
Proof. exact laplace_pushforward. Qed.

(* TransformToLogSpace.generate = base^x: the density of m is that of x times the Jacobian (C13) *)
Theorem c14_logspace_pushforward : forall base d m, 1 < base -> Forall (fun a => 0 < a) m ->
  exp (- misfit (DLog base d) m)
  = exp (- misfit d (map (fun a => ln a / ln base) m)) * prodR (map (fun a => / a / ln base) m).
Proof. exact logspace_change_of_variables. Qed.

(* CompositeDistribution.generate stacks independent blocks: densities multiply *)
Theorem c14_composite_product : forall na a b x,
  exp (- misfit (DComp na a b) x) = exp (- misfit a (firstn na x)) * exp (- misfit b (skipn na x)).
Proof. intros. simpl. rewrite Ropp_plus_distr. apply exp_plus. Qed.

(* Mixture.generate picks component i with probability w_i: the density is the convex combination *)
Theorem c14_mixture_density : forall wa a wb b x, 0 < wa -> 0 < wb ->
  exp (- misfit (DMix wa a wb b) x) = wa * exp (- misfit a x) + wb * exp (- misfit b x).
Proof.
  intros. simpl. rewrite Ropp_involutive. apply exp_ln.
  apply Rplus_lt_0_compat; apply Rmult_lt_0_compat; auto; apply exp_pos.
Qed.

(* normalize() may evaluate the constant as a sum of logarithms (what the code does since 0f257d1): the same number *)
Theorem c14_normal_const_sum_of_logs : forall v, Forall (fun a => 0 < a) v ->
  normal_const v = / 2 * (sumR (map ln v) + INR (length v) * ln (2 * PI)).
Proof. exact normal_const_sum_of_logs. Qed.

Print Assumptions c14_normal_pdf.
Print Assumptions c14_laplace_pdf.
Print Assumptions c14_normal_pushforward.
Print Assumptions c14_laplace_pushforward.
Print Assumptions c14_logspace_pushforward.
Print Assumptions c14_composite_product.
Print Assumptions c14_mixture_density.
Print Assumptions c14_normal_const_sum_of_logs.
