(* C18 — layered ray tracer obeys Snell's law and travel-time accounting.  Statements only.
   layers = list of (bottom depth, velocity); p = ray parameter sin(take-off)/v_0; X = receiver offset. *)
From Coq Require Import Reals List.
From HV Require Import Num XReal NumR RayTracer RayProofs.
Import ListNotations.
Open Scope R_scope.

(* sin(angle)/velocity is the same constant p in every segment, across all interfaces *)
Theorem c18_snell : forall layers (p : R) X,
  List.Forall (fun g : seg => g_sin g = g_vel g * p) (r_segs (trace layers 0 p X 0 0 0 0 [])).
Proof. intros. apply trace_snell. constructor. Qed.

(* the ray proceeds monotonically downward (and towards the receiver line, never beyond it) *)
Theorem c18_monotone : forall layers p X, 0 < p -> 0 <= X -> sorted_from 0 layers ->
  List.Forall (seg_ok X) (r_segs (trace layers 0 p X 0 0 0 0 [])).
Proof. intros. apply trace_monotone; auto. Qed.

(* travel time = sum of path-length / layer-velocity, length = sum of path-lengths *)
Theorem c18_accounting : forall layers p X,
  let r := trace layers 0 p X 0 0 0 0 [] in
  r_tt r = sum_tt (r_segs r) /\ r_dist r = sum_len (r_segs r).
Proof. intros. apply trace_accounting; reflexivity. Qed.

(* homogeneous medium: a ray that reaches the receiver line has exactly the straight-line travel time to its
   own end point; a receiver whose depth differs from that end point by less than tol therefore sees the
   straight-line time to itself within tol / velocity (1-Lipschitz of sqrt(X^2 + z^2) in z) *)
Theorem c18_homogeneous : forall layers v p X, homogeneous v layers -> 0 < v -> 0 < v * p < 1 -> 0 <= X ->
  sorted_from 0 layers ->
  let r := trace layers 0 p X 0 0 0 0 [] in
  r_out r = Reached -> r_tt r = sqrt (r_x r * r_x r + r_z r * r_z r) / v.
Proof. exact homogeneous_straight_line. Qed.

Theorem c18_homogeneous_tolerance : forall X a b, Rabs (sqrt (X * X + a * a) - sqrt (X * X + b * b)) <= Rabs (a - b).
Proof. exact hyp_lipschitz. Qed.

Print Assumptions c18_snell.
Print Assumptions c18_homogeneous.
Print Assumptions c18_homogeneous_tolerance.
Print Assumptions c18_monotone.
Print Assumptions c18_accounting.
