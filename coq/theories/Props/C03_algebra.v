(* C03 (continued) — matrix identities, mathcomp.  Statements only; proofs in Proof/BfgsAlgebra.v. *)
From mathcomp Require Import all_ssreflect all_algebra.
From HV Require Import BfgsAlgebra.
Import GRing.Theory Num.Theory.
Local Open Scope ring_scope.

(* BFGS: with Minv = L L^T and LTinv = (L^T)^-1, cov(LTinv z) = LTinv LTinv^T is the inverse of Minv,
   i.e. the matrix the object reports *)
Theorem c03_bfgs_factor : forall (F : fieldType) (n : nat) (L LTinv Minv : 'M[F]_n),
  Minv = L *m L^T -> LTinv *m L^T = 1%:M -> (LTinv *m LTinv^T) *m Minv = 1%:M.
Proof. exact bfgs_factor. Qed.

(* the BFGS update keeps the metric symmetric ... *)
Theorem c03_bfgs_symmetric : forall (F : realFieldType) (n : nat) (H : 'M[F]_n) (s y : 'cV[F]_n),
  H^T = H -> (bfgs_update H s y)^T = bfgs_update H s y.
Proof. exact bfgs_update_sym. Qed.

(* ... and positive definite whenever the curvature s.y is positive (the only case in which the code updates) *)
Theorem c03_bfgs_spd : forall (F : realFieldType) (n : nat) (H : 'M[F]_n) (s y : 'cV[F]_n),
  posdef H -> 0 < sc (s^T *m y) -> posdef (bfgs_update H s y).
Proof. exact bfgs_update_posdef. Qed.

Print Assumptions c03_bfgs_factor.
Print Assumptions c03_bfgs_symmetric.
Print Assumptions c03_bfgs_spd.
