(* C01 — HMC integrators are reversible, volume-preserving splitting schemes.  Statements only.
   The programs lf_prog / s3_prog / s4_prog are the drift/kick schedules of the code: proved equal to
   the schedules extracted from the source on every run (coq/gen/Schedule_gen.v) and co-executed
   bit for bit with the real propagators. *)
From Coq Require Import List Bool ZArith Reals Lra.
From HV Require Import Num XReal NumR Integrators IntegratorProofs.
Import ListNotations.
Open Scope R_scope.

(* 1. every integrator program is a palindrome (any arithmetic, any literals, any step count) *)
Theorem c01_palindrome : forall (N : NumOps) (ig : @integ N) n ls, rev (prog_of ig n ls) = prog_of ig n ls.
Proof. exact @prog_palindrome. Qed.

(* 2. position-update and momentum-update times each sum to stepsize * steps (real arithmetic;
      the coefficient literals are universally quantified) ... *)
Theorem c01_times_lf : forall n ls, (1 <= n)%nat ->
  drift_time (@lf_prog NumR n ls) = INR n * ls /\ kick_time (@lf_prog NumR n ls) = INR n * ls.
Proof. exact lf_times. Qed.
Theorem c01_times_3s : forall a1 b1 n ls,
  drift_time (@s3_prog NumR a1 b1 n ls) = INR n * ls /\ kick_time (@s3_prog NumR a1 b1 n ls) = INR n * ls.
Proof. exact s3_times. Qed.
Theorem c01_times_4s : forall a1 a2 b1 n ls,
  drift_time (@s4_prog NumR a1 a2 b1 n ls) = INR n * ls /\ kick_time (@s4_prog NumR a1 a2 b1 n ls) = INR n * ls.
Proof. exact s4_times. Qed.

(* ... and with step-size randomisation the single factor f scales the whole scheme uniformly *)
Theorem c01_random_factor : forall ig n stepsize f, (1 <= n)%nat ->
  let prog := @prog_of NumR ig n (@local_step NumR (Some f) stepsize) in
  drift_time prog = INR n * (f * stepsize) /\ kick_time prog = INR n * (f * stepsize).
Proof. exact randomised_times. Qed.

(* 3. time reversibility.  General form: any drift/kick program whose drifts are all "good"
      (can be undone after a momentum flip) is reversed by its mirror image. *)
Theorem c01_reversible_general :
  forall (VO : VecOps NumR) kgrad grad corr (Good : R -> VV VO * VV VO -> Prop),
  (forall s, flip VO (flip VO s) = s) ->
  (forall (c : R) s, flip VO (step_qp VO kgrad grad corr (@Kick NumR c) (flip VO (step_qp VO kgrad grad corr (@Kick NumR c) s))) = s) ->
  (forall (c : R) s, Good c s -> flip VO (step_qp VO kgrad grad corr (@Drift NumR c) (flip VO (step_qp VO kgrad grad corr (@Drift NumR c) s))) = s) ->
  forall prog s, all_good VO kgrad grad corr Good prog s ->
  flip VO (run_qp VO kgrad grad corr (rev prog) (flip VO (run_qp VO kgrad grad corr prog s))) = s.
Proof. exact run_reversible. Qed.

(* 3a. unbounded targets: every integrator, step size, step count, dimension (index type I), every
       gradient field G and every odd kinetic gradient K (Unit, Diagonal, Full: K = M^-1 p) *)
Theorem c01_reversible_unbounded : forall (I : Type) (K G : (I -> R) -> (I -> R)),
  (forall p, K (fun i => - p i) = (fun i => - K p i)) ->
  forall ig n ls (s : (I -> R) * (I -> R)),
  let prog := @prog_of NumR ig n ls in
  let id2 := fun (q p : I -> R) => (q, p) in
  flip (FunVec I) (run_qp (FunVec I) K G id2 prog (flip (FunVec I) (run_qp (FunVec I) K G id2 prog s))) = s.
Proof. exact unbounded_reversible. Qed.

(* 3b. box-bounded targets (one-sided and unbounded entries allowed), coordinate-wise masses
       (Unit / Diagonal): reversible whenever every reflected drift of the forward trajectory is a single
       bounce that lands in the box *)
Theorem c01_reversible_box : forall (I : Type) (m : I -> R) (lo hi : I -> option R) (G : (I -> R) -> (I -> R)) ig n ls s,
  let prog := @prog_of NumR ig n ls in
  all_good (FunVec I) (Kdiag I m) G (boxcorr I lo hi) (GoodBox I m lo hi) prog s ->
  flip (FunVec I) (run_qp (FunVec I) (Kdiag I m) G (boxcorr I lo hi) prog
         (flip (FunVec I) (run_qp (FunVec I) (Kdiag I m) G (boxcorr I lo hi) prog s))) = s.
Proof. exact box_reversible. Qed.

Print Assumptions c01_palindrome.
Print Assumptions c01_times_lf.
Print Assumptions c01_times_3s.
Print Assumptions c01_times_4s.
Print Assumptions c01_random_factor.
Print Assumptions c01_reversible_general.
Print Assumptions c01_reversible_unbounded.
Print Assumptions c01_reversible_box.
