(* C20 — parallel chains without exchange are exactly the sequential chains.  Statements only. *)
From Coq Require Import List Bool Arith.
From HV Require Import Num Integrators Sampler Parallel.
Import ListNotations.

(* with exchange disabled the per-chain loop of the parallel controller is the sequential loop:
   same final state, same stored columns, same decisions, for every sampler, thinning, stream *)
Theorem c20_loop_equal : forall (N : NumOps) misfit grad corr kin kgrad genmom expf powf
    (sm : @sampler N) t evs i s,
  par_loop misfit grad corr kin kgrad genmom expf powf sm t None i s evs
  = run_from misfit grad corr kin kgrad genmom expf powf sm t i s evs.
Proof.
  intros N misfit grad corr kin kgrad genmom expf powf sm t evs.
  induction evs as [|e evs IH]; intros i s; simpl; [reflexivity|].
  destruct (trans _ _ _ _ _ _ _ _ sm i s e) as [s1 b]. rewrite IH. reflexivity.
Qed.

(* chain i receives initial model i (or the shared one) and keyword arguments i (or the shared ones,
   or none) *)
Theorem c20_routing_per_chain : forall (M K : Type) (ms : list M) (ks : list K) empty dm i,
  route M K (PerChain ms) (Some (PerChain ks)) empty dm i = (nth i ms dm, nth i ks empty).
Proof. reflexivity. Qed.

Theorem c20_routing_shared : forall (M K : Type) (m : M) (k : K) empty dm i j,
  route M K (Shared m) (Some (Shared k)) empty dm i = route M K (Shared m) (Some (Shared k)) empty dm j /\
  route M K (Shared m) (Some (Shared k)) empty dm i = (m, k) /\
  route M K (Shared m) None empty dm i = (m, empty).
Proof. intros; repeat split; reflexivity. Qed.

Print Assumptions c20_loop_equal.
Print Assumptions c20_routing_per_chain.
Print Assumptions c20_routing_shared.
