(* C20 — parallel chains without exchange are exactly the sequential chains.  Statements only. *)
From Coq Require Import List Bool Arith.
From HV Require Import Num Integrators Sampler Parallel Network NetworkProofs IndepProofs.
Import ListNotations.

(* with exchange disabled the per-chain loop of the parallel controller is the sequential loop:
   same final state, same stored columns, same decisions, for every sampler, thinning, stream *)
Theorem c20_loop_equal : forall (N : NumOps) misfit grad corr kin kgrad genmom expf powf
    (sm : @sampler N) t evs i s,
  par_loop misfit grad corr kin kgrad genmom expf powf sm t None i s evs
  = run_from misfit grad corr kin kgrad genmom expf powf sm t i s evs.
Proof.
  intros N misfit grad corr kin kgrad genmom expf powf sm t evs.
  induction evs as [|e evs IH]; intros i s; simpl; [reflexivity|].
  destruct (trans _ _ _ _ _ _ _ _ sm i s e) as [s1 b]. rewrite IH. reflexivity.
Qed.

(* chain i receives initial model i (or the shared one) and keyword arguments i (or the shared ones,
   or none) *)
Theorem c20_routing_per_chain : forall (M K : Type) (ms : list M) (ks : list K) empty dm i,
  route M K (PerChain ms) (Some (PerChain ks)) empty dm i = (nth i ms dm, nth i ks empty).
Proof. reflexivity. Qed.

Theorem c20_routing_shared : forall (M K : Type) (m : M) (k : K) empty dm i j,
  route M K (Shared m) (Some (Shared k)) empty dm i = route M K (Shared m) (Some (Shared k)) empty dm j /\
  route M K (Shared m) (Some (Shared k)) empty dm i = (m, k) /\
  route M K (Shared m) None empty dm i = (m, empty).
Proof. intros; repeat split; reflexivity. Qed.

(* every operating-system schedule of chain processes that do not communicate (exchange disabled): however the
   steps of the chains are interleaved, no chain ever waits, no interleaving has more steps than there are
   proposals in total, and an interleaving that cannot be continued has completed every chain and left in chain k
   exactly the state chain k reaches on its own (c20_loop_equal: that is the sequential sampler's state).
   L is the per-chain state (sampler state + file), the k-th function of a chain its k-th proposal. *)
Theorem c20_every_schedule : forall (L M : Type) (cap : option nat) (chains : list (L * list (L -> L))) n u,
  gpath (net L M) nat (step L M cap) (chains_net L M chains) n u ->
    n <= list_sum (map (fun c => length (snd c)) chains) /\
    (forall i p, nth_error (procs u) i = Some p -> prog p <> [] -> exists t, step L M cap u i t) /\
    (gterminal (net L M) nat (step L M cap) u ->
       map (@loc L M) (procs u) = map (alone L) chains /\ Forall (fun p => prog p = []) (procs u) /\
       n = list_sum (map (fun c => length (snd c)) chains)).
Proof. intros L M cap chains n u; exact (chains_every_schedule L M cap chains n u). Qed.

(* non-vacuity: two chains of 2 and 1 proposals, the interleaving 0,1,0 is a complete run *)
Example c20_schedule_nonvacuous :
  let s0 := chains_net nat unit [(1, [Nat.add 2; Nat.mul 3]); (5, [Nat.add 1])] in
  exists u, gpath _ nat (step nat unit None) s0 3 u /\ map (@loc nat unit) (procs u) = [9; 6].
Proof.
  eexists. split.
  - eapply gpS with (l := 0); [reflexivity|]. eapply gpS with (l := 1); [reflexivity|].
    eapply gpS with (l := 0); [reflexivity|]. apply gp0.
  - reflexivity.
Qed.

Print Assumptions c20_loop_equal.
Print Assumptions c20_routing_per_chain.
Print Assumptions c20_routing_shared.
Print Assumptions c20_every_schedule.
