(* C08, the built-in interrupting wrapper (EvaluationLimiter).  Statements only. *)
From Coq Require Import List Bool Arith.
From HV Require Import Limiter LimiterProofs.
Import ListNotations.

(* a call raises exactly when the interrupt is armed and more than `limit` evaluations have been counted *)
Theorem c08_limiter_raises_iff : forall s o,
  snd (lim_step s o) = true <-> (lim_throw s = true /\ lim_limit s < lim_evals s).
Proof. exact lim_raise_iff. Qed.

(* whichever call raised (misfit or gradient), the counter is back at zero afterwards ... *)
Theorem c08_limiter_interrupt_resets : forall s o, snd (lim_step s o) = true -> lim_evals (fst (lim_step s o)) = 0.
Proof. exact lim_raise_resets. Qed.

(* ... so after any call history that ended with an interrupt the next call -- the evaluation of the initial model
   of a following run -- is not interrupted: the sampler and target can be used again at once *)
Theorem c08_limiter_reusable_after_interrupt : forall s ops o,
  let '(s1, bs) := lim_run s ops in last bs false = true -> snd (lim_step s1 o) = false.
Proof. exact lim_after_interrupt_next_call_passes. Qed.

Example c08_limiter_nonvacuous :
  snd (lim_run (lim_make 2 1 true) [LMisfit; LGradient; LMisfit; LGradient; LMisfit]) = [false; false; false; true; false].
Proof. reflexivity. Qed.

Print Assumptions c08_limiter_raises_iff.
Print Assumptions c08_limiter_interrupt_resets.
Print Assumptions c08_limiter_reusable_after_interrupt.
