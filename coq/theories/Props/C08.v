(* C08 — interruptions, time-outs and user exceptions leave an intact prefix.  Statements only. *)
From Coq Require Import List Bool ZArith Arith.
From HV Require Import Num Integrators Sampler SamplerProofs Faults FaultsProofs.
Import ListNotations.

Section C08.
  Context {N : NumOps}.
  Notation V := (@vec N).
  Variables (misfit : V -> T N) (grad : V -> V) (corr : V -> V -> V * V) (kin : V -> T N)
            (kgrad genmom : V -> V) (expf : T N -> T N) (powf : nat -> T N).
  Notation run_faulty := (run_faulty misfit grad corr kin kgrad genmom expf powf).
  Notation run := (run misfit grad corr kin kgrad genmom expf powf).

  (* for every sampler, thinning, event stream, fault site (every call boundary, append entry/exit,
     every time-out instant) and fault kind: the stored columns are the leading columns of the
     uninterrupted run with the same random numbers ... *)
  Theorem c08_prefix : forall sm t m0 step0 evs site f,
    let r := run_faulty sm t m0 step0 evs site f in
    r_cols r = firstn (length (r_cols r)) (cols (run sm t m0 step0 evs)).
  Proof. exact (faulty_prefix misfit grad corr kin kgrad genmom expf powf). Qed.

  (* ... namely exactly what the uninterrupted run stores during the proposals completed before the stop *)
  Theorem c08_includes_completed : forall sm t m0 step0 evs site f,
    let r := run_faulty sm t m0 step0 evs site f in
    r_cols r = cols (run sm t m0 step0
                 (firstn (stored_upto misfit grad corr kin kgrad genmom expf powf sm m0 step0 evs site) evs)).
  Proof. exact (faulty_includes_completed misfit grad corr kin kgrad genmom expf powf). Qed.
End C08.

(* sample() returns normally for interrupts and time-outs and re-raises the same exception otherwise *)
Theorem c08_outcome : forall f cp,
  snd (handler f cp) = match f with FInterrupt | FTimeout => Returned | FExn e | FBase e => Raised e end.
Proof. exact handler_outcome. Qed.

(* closing computes its metadata without error: the divisor of the acceptance rate is >= 1 even
   when the stop came inside the very first proposal *)
Theorem c08_close_total : forall f i, (1 <= rate_den (fst (handler f (Z.of_nat i))))%Z.
Proof. intros. apply rate_den_pos. Qed.

Print Assumptions c08_prefix.
Print Assumptions c08_includes_completed.
Print Assumptions c08_outcome.
Print Assumptions c08_close_total.
