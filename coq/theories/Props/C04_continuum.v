(* C04, continuum part.  Statements only.
   The full statement of stationarity on R^d x R^d is
       for every measurable A:   int  exp(-H s) K(s, A) ds  =  int_A exp(-H s) ds
   for the transition kernel K of the code.  It follows, by the change of variables s -> Phi s with unit
   Jacobian (C01: unit determinant, reversibility), from the pointwise identities below, which hold for state
   spaces of ANY type (no finiteness), any energy H and the acceptance probability min(1, exp(H s - H s')) that
   the code's test  u < exp(H s - H s')  realises (C02).  The integration step is NOT mechanised (no measure
   theory installed), hence `_partial`; the finite-state theorems of Props/C04.v carry the summation step. *)
From Coq Require Import Reals.
From HV Require Import DetailedBalance.
Open Scope R_scope.

(* detailed balance of the Metropolis test between any two states *)
Theorem c04_metropolis_balance_partial : forall (S : Type) (H : S -> R) (s s' : S),
  exp (- H s) * pacc S H s s' = exp (- H s') * pacc S H s' s.
Proof. exact metropolis_balance. Qed.

(* HMC: mass leaving s for Phi s = mass arriving at s from Phi s, for every involution Phi;
   hence the mass at every state is conserved by propose-and-test *)
Theorem c04_hmc_pointwise_conservation_partial : forall (S : Type) (H : S -> R) (Phi : S -> S),
  (forall s, Phi (Phi s) = s) ->
  forall s, exp (- H s) = exp (- H s) * (1 - pacc S H s (Phi s)) + exp (- H (Phi s)) * pacc S H (Phi s) s.
Proof. intros S H Phi _. exact (hmc_pointwise_conservation S H Phi). Qed.

(* RWMH: detailed balance with a symmetric proposal density *)
Theorem c04_rwmh_integrand_balance_partial : forall (X : Type) (U : X -> R) (q : X -> X -> R),
  (forall x y, q x y = q y x) ->
  forall x y, exp (- U x) * (q x y * pacc X U x y) = exp (- U y) * (q y x * pacc X U y x).
Proof. exact rwmh_integrand_balance. Qed.

(* the acceptance probability is a probability *)
Theorem c04_acceptance_is_probability : forall (S : Type) (H : S -> R) s s', 0 < pacc S H s s' <= 1.
Proof. exact pacc_range. Qed.

Print Assumptions c04_metropolis_balance_partial.
Print Assumptions c04_hmc_pointwise_conservation_partial.
Print Assumptions c04_rwmh_integrand_balance_partial.
Print Assumptions c04_acceptance_is_probability.
