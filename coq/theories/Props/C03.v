(* C03 — each mass matrix defines one consistent Gaussian momentum law.  Statements only.
   (Matrix identities for Full / BFGS factors and the BFGS update: Props/C03_algebra.v.) *)
From Coq Require Import Reals List.
From Coquelicot Require Import Coquelicot.
From HV Require Import Num NumR Integrators Dist LinAlg DistDeriv IntegratorProofs MassProofs Bfgs BfgsProofs.
Import ListNotations.
Open Scope R_scope.

(* Unit / Diagonal: K(p) = 1/2 sum p_i^2/d_i, gradient p_i/d_i = M^-1 p is its derivative, and the
   momentum factor sqrt(d_i) squares to the matrix it reports, for every dimension *)
Theorem c03_diag_kinetic : forall d p, length d = length p ->
  misfit (kin_diag d) p = / 2 * sumR (map2R (fun di pi => pi * pi / di) d p) /\
  gradient (kin_diag d) p = map2R (fun di pi => pi / di) d p.
Proof. intros d p H. split; [apply kin_diag_value|apply kin_diag_gradient]; exact H. Qed.

Theorem c03_diag_gradient_is_derivative : forall d p, length d = length p ->
  forall i pi, nth_error p i = Some pi ->
  is_derive (fun t => misfit (kin_diag d) (upd p i t)) pi (nth i (gradient (kin_diag d) p) 0).
Proof. intros d p H. exact (kin_diag_derivative d p H). Qed.

Theorem c03_diag_factor : forall d, List.Forall (fun a => 0 < a) d -> map2R Rmult (map sqrt d) (map sqrt d) = d.
Proof. exact diag_factor. Qed.

(* Full: with P = M^-1 symmetric, K(p) = 1/2 p^T P p and P p is its derivative *)
Theorem c03_full_gradient_is_derivative : forall P p, symmetricP P (length p) ->
  forall i pi, nth_error p i = Some pi ->
  is_derive (fun t => misfit (kin_full P) (upd p i t)) pi (nth i (gradient (kin_full P) p) 0).
Proof. intros P p H. exact (kin_full_derivative P p H). Qed.

(* BFGS, every finite history over {in-trajectory update, accept, reject}: momenta are generated with
   the factor of the very metric that defines the kinetic energy ... *)
Theorem c03_bfgs_consistent : forall ops, consistent (brun ops).
Proof. exact bfgs_consistent. Qed.

(* ... and a rejection restores exactly the state (metric, factor and the reference pair the next update starts from) of the
   last acceptance *)
Theorem c03_bfgs_reject_restores : forall ops1 traj,
  List.Forall (fun o => match o with Update _ _ => True | _ => False end) traj ->
  let s_acc := brun (ops1 ++ [Accept]) in
  let s_rej := brun (ops1 ++ [Accept] ++ traj ++ [Reject]) in
  minv s_rej = minv s_acc /\ lt_of s_rej = lt_of s_acc /\ refp s_rej = refp s_acc.
Proof. exact bfgs_reject_restores. Qed.

(* step f*eps with mass M and step eps with mass M/f^2: same positions, momenta divided by f, for every
   integrator, step count, dimension, gradient field and homogeneous (linear) kinetic gradient *)
Theorem c03_scaling : forall (I : Type) (K G : (I -> R) -> (I -> R)) (f : R), f <> 0 ->
  (forall c p, K (fun i => c * p i) = (fun i => c * K p i)) ->
  forall ig n eps q p,
  let id2 := fun (q p : I -> R) => (q, p) in
  let '(q1, p1) := run_qp (FunVec I) K G id2 (@prog_of NumR ig n (f * eps)) (q, p) in
  run_qp (FunVec I) (fun p i => f * f * K p i) G id2 (@prog_of NumR ig n eps) (q, fun j => p j / f) = (q1, fun j => p1 j / f).
Proof. intros I K G f Hf HK ig n eps q p. exact (scaling_integrators I K G f Hf HK ig n eps q p). Qed.

Print Assumptions c03_diag_kinetic.
Print Assumptions c03_diag_gradient_is_derivative.
Print Assumptions c03_diag_factor.
Print Assumptions c03_full_gradient_is_derivative.
Print Assumptions c03_bfgs_consistent.
Print Assumptions c03_bfgs_reject_restores.
Print Assumptions c03_scaling.
