(* C06 — bounded targets: zero probability outside, chains never leave the box.  Statements only. *)
From Coq Require Import List Bool ZArith Reals Lra.
From HV Require Import Num XReal NumR Integrators Bounds Sampler SamplerProofs XSamplerProofs BoundsProofs.
Import ListNotations.
Open Scope R_scope.

(* misfit_bounds + unbounded misfit: +inf at every point violating a bound, unchanged elsewhere *)
Theorem c06_misfit_outside_inf : forall lo hi q (x : R),
  @outside NumX lo hi q = true -> xadd (@inf_or_zero NumX lo hi XPInf q) (XF x) = XPInf.
Proof. exact bounded_misfit_outside. Qed.

Theorem c06_misfit_inside_same : forall lo hi q (x : xreal),
  @outside NumX lo hi q = false -> x <> XNaN -> xadd (@inf_or_zero NumX lo hi XPInf q) x = x.
Proof. exact bounded_misfit_inside. Qed.

(* a rejected bounds update leaves the previous bounds in force; an accepted one installs the
   arguments, and then every lower bound is strictly below its upper bound *)
Theorem c06_update_atomic : forall (N : NumOps) dim old lo hi,
  let '(b, ok) := @update_bounds N dim old lo hi in
  (ok = false -> b = old) /\ (ok = true -> b = (lo, hi)).
Proof. exact @update_atomic. Qed.

Theorem c06_update_ordered : forall dim old l u,
  snd (@update_bounds NumR dim old (Some l) (Some u)) = true ->
  forall i x y, nth_error l i = Some x -> nth_error u i = Some y -> x < y.
Proof. exact update_success_ordered. Qed.

(* the corrector mirrors each violating coordinate about its bound and negates exactly the matching
   momentum components; all other coordinates and momenta are untouched *)
Theorem c06_corrector_mirror_low : forall l q p, length l = length q -> length q = length p ->
  forall i li qi pi, nth_error l i = Some li -> nth_error q i = Some qi -> nth_error p i = Some pi ->
  nth_error (fst (@reflect_low NumR l q p)) i = Some (if Rltb qi li then 2 * li - qi else qi) /\
  nth_error (snd (@reflect_low NumR l q p)) i = Some (if Rltb qi li then - pi else pi).
Proof.
  intros l q p H1 H2 i li qi pi Hl Hq Hp.
  destruct (reflect_low_nth l q p H1 H2 i li qi pi Hl Hq Hp) as [A B]. unfold mirror_low in *.
  destruct (Rltb qi li); simpl in *; auto.
Qed.

Theorem c06_corrector_mirror_high : forall u q p, length u = length q -> length q = length p ->
  forall i ui qi pi, nth_error u i = Some ui -> nth_error q i = Some qi -> nth_error p i = Some pi ->
  nth_error (fst (@reflect_high NumR u q p)) i = Some (if Rltb ui qi then 2 * ui - qi else qi) /\
  nth_error (snd (@reflect_high NumR u q p)) i = Some (if Rltb ui qi then - pi else pi).
Proof.
  intros u q p H1 H2 i ui qi pi Hu Hq Hp.
  destruct (reflect_high_nth u q p H1 H2 i ui qi pi Hu Hq Hp) as [A B]. unfold mirror_high in *.
  destruct (Rltb ui qi); simpl in *; auto.
Qed.

(* ... which conserves the kinetic energy sum_i p_i^2 / m_i of unit and diagonal mass matrices *)
Theorem c06_kinetic_conserved : forall m lo hi q p,
  match lo with Some l => length l = length q | None => True end ->
  match hi with Some u => length u = length q | None => True end -> length q = length p ->
  ksum m (snd (@corrector NumR lo hi q p)) = ksum m p.
Proof. exact corrector_conserves_kinetic. Qed.

(* every sample stored by either sampler started inside the box lies inside the box with finite
   misfit -- for every integrator, step size, mass matrix (the trajectory end point is arbitrary),
   every thinning and every stream of random numbers with u in [0,1) *)
Theorem c06_chain_stays_inside :
  forall (Inside : @vec NumX -> Prop) misfit grad corr kin kgrad genmom powf,
  (forall q, (Inside q /\ exists r, misfit q = XF r) \/ (~ Inside q /\ misfit q = XPInf)) ->
  forall sm t evs, Forall ok_event evs -> forall i s, ok_state Inside s ->
  Forall (fun c => Inside (fst c) /\ exists r, snd c = XF r)
         (cols (@run_from NumX misfit grad corr kin kgrad genmom xexp powf sm t i s evs)).
Proof. exact chain_stays_inside. Qed.

Print Assumptions c06_misfit_outside_inf.
Print Assumptions c06_misfit_inside_same.
Print Assumptions c06_update_atomic.
Print Assumptions c06_update_ordered.
Print Assumptions c06_corrector_mirror_low.
Print Assumptions c06_corrector_mirror_high.
Print Assumptions c06_kinetic_conserved.
Print Assumptions c06_chain_stays_inside.
