(* C05 — gradient() is the derivative of misfit() for every distribution.  Statements only.
   `dist` is the syntax of Model/Dist.v; its misfit/gradient are evaluated against the real classes
   on every run (interval enclosures).  LinearMatrix and SourceLocation: Props/C15.v, Props/C17.v. *)
From Coq Require Import Reals List Lra.
From Coquelicot Require Import Coquelicot.
From HV Require Import Dist LinAlg DistDeriv.
Import ListNotations.
Open Scope R_scope.

(* for every expression (any nesting of BayesRule/Additive, Composite, Mixture, log-transform,
   temperature over the leaf classes), every admissible point and every coordinate i:
   component i of gradient is the derivative of misfit in coordinate i *)
Theorem c05_gradient_is_derivative : forall (d : dist) (x : list R), ok d x ->
  forall i xi, nth_error x i = Some xi ->
  is_derive (fun t => misfit d (upd x i t)) xi (nth i (gradient d x) 0).
Proof. exact gradient_is_derivative. Qed.

(* gradient has as many components as the point has coordinates *)
Theorem c05_gradient_dimension : forall d x, ok d x -> length (gradient d x) = length x.
Proof. exact gradient_length. Qed.

(* the leaf classes are admissible: Normal with scalar / per-dimension covariance everywhere,
   full covariance for symmetric inverse covariance (ok clause of DQuad), StandardNormal1D for T <> 0,
   Uniform everywhere (inside its box), Laplace away from its kinks *)
Theorem c05_normal_diag_admissible : forall mu ivar c x, length mu = length x -> length ivar = length x -> ok (normal_diag mu ivar c) x.
Proof. exact ok_normal_diag. Qed.
Theorem c05_std_normal_admissible : forall T x, T <> 0 -> length x = 1%nat -> ok (std_normal1d T) x.
Proof. exact ok_std_normal. Qed.
Theorem c05_uniform_admissible : forall n x, length x = n -> ok (uniform n) x.
Proof. exact ok_uniform. Qed.
Theorem c05_laplace_admissible : forall mu ib c x, length mu = length x -> length ib = length x ->
  (forall i m xi, nth_error mu i = Some m -> nth_error x i = Some xi -> xi <> m) -> ok (laplace mu ib c) x.
Proof. exact ok_laplace. Qed.

Print Assumptions c05_gradient_is_derivative.
Print Assumptions c05_gradient_dimension.
Print Assumptions c05_normal_diag_admissible.
Print Assumptions c05_std_normal_admissible.
Print Assumptions c05_uniform_admissible.
Print Assumptions c05_laplace_admissible.

(* non-vacuity: a nested expression with an admissible point *)
Example c05_nonvacuous :
  ok (DAdd (DScale 2 (normal_diag [0; 1] [1; 2] 0)) (DComp 1 (std_normal1d 3) (uniform 1))) [1; 2].
Proof.
  cbn [ok]. split; [apply ok_normal_diag; reflexivity|].
  split; [simpl; auto|]. split; [apply ok_std_normal; [lra|reflexivity]|apply ok_uniform; reflexivity].
Qed.
