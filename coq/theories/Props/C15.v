(* C15 — all LinearMatrix back ends compute the same Gaussian likelihood.  Statements only.
   G : data x model matrix (list of rows), d : data, W : inverse data covariance (symmetric). *)
From Coq Require Import Reals List.
From Coquelicot Require Import Coquelicot.
From HV Require Import Dist DistExtra LinAlg DistDeriv LinearProofs.
Import ListNotations.
Open Scope R_scope.

(* the premultiplied form 1/2 (m^T (G^T W G m - 2 G^T W d) + d^T W d) equals the residual form
   1/2 (G m - d)^T W (G m - d), for all shapes *)
Theorem c15_premult_eq_residual : forall G W d n, symmetricP W (length G) -> length d = length G ->
  forall GtG Gtd dtd,
  (forall x, length x = n -> dotR x (matvec GtG x) = qform W (matvec G x)) ->
  (forall x, length x = n -> dotR x Gtd = dotR (matvec G x) (matvec W d)) ->
  dtd = qform W d -> length GtG = length Gtd ->
  forall x, length x = n -> lin_misfit_premult GtG Gtd dtd x = lin_misfit G d W x.
Proof. intros G W d n HW Hd GtG Gtd dtd H1 H2 H3 H4 x Hx. exact (premult_eq_residual G W d n HW Hd GtG Gtd dtd H1 H2 H3 H4 x Hx). Qed.

(* Cholesky form: with W = U^T U the quadratic form is |U r|^2 *)
Theorem c15_cholesky_form : forall U W r,
  (forall v, length v = length r -> matvec W v = matvec (transpose (length r) U) (matvec U v)) ->
  rect (length r) U -> qform W r = dotR (matvec U r) (matvec U r).
Proof. exact cholesky_form. Qed.

(* G^T is the adjoint of G (this is what makes G^T W (G m - d) the gradient) *)
Theorem c15_transpose_adjoint : forall n M, rect n M -> forall w e, length e = n -> length w = length M ->
  dotR e (matvec (transpose n M) w) = dotR (matvec M e) w.
Proof. exact transpose_adjoint. Qed.

(* gradient(m) = G^T W (G m - d) is the derivative of misfit(m), coordinate by coordinate, all shapes *)
Theorem c15_gradient : forall G W d x i xi,
  rect (length x) G -> symmetricP W (length G) -> length d = length G -> nth_error x i = Some xi ->
  is_derive (fun t => lin_misfit G d W (upd x i t)) xi (nth i (lin_gradient G d W x) 0).
Proof. exact linear_gradient_is_derivative. Qed.

Print Assumptions c15_premult_eq_residual.
Print Assumptions c15_cholesky_form.
Print Assumptions c15_transpose_adjoint.
Print Assumptions c15_gradient.
