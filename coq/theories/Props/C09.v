(* C09 — seeded runs are bit-reproducible and independent of observers.  Statements only.
   (a) effect policy: the table is generated from the source on every run and checked by `check`;
       the theorem below makes an accepted check mean what it should.
   (b) the loop model has no clock, no global random stream and no observer flags among its inputs
       (they cannot influence it); a shorter run is a prefix of a longer one.
   "Different seeds give different chains" is tested, not proved (collisions are possible in principle). *)
From Coq Require Import List Bool Arith.
From HV Require Import Num Integrators Sampler SamplerProofs FaultsProofs Effects EffectsProofs.
Import ListNotations.

(* an accepted effect check covers every function reachable from the roots in the call graph *)
Theorem c09_policy_sound : forall tbl roots C allowed, check tbl roots C allowed = true ->
  forall f, reach tbl roots f -> allowed (effects_of tbl f) = true.
Proof. exact check_sound. Qed.

(* a run with fewer proposals is a prefix of the longer run with the same seed (same event stream) *)
Theorem c09_prefix : forall (N : NumOps) misfit grad corr kin kgrad genmom expf powf (sm : @sampler N) t m0 step0 evs1 evs2,
  exists rest,
  cols (run misfit grad corr kin kgrad genmom expf powf sm t m0 step0 (evs1 ++ evs2))
  = cols (run misfit grad corr kin kgrad genmom expf powf sm t m0 step0 evs1) ++ rest.
Proof.
  intros N misfit grad corr kin kgrad genmom expf powf sm t m0 step0 evs1 evs2.
  destruct (cols_prefix misfit grad corr kin kgrad genmom expf powf sm t (evs1 ++ evs2) (length evs1) 0 (init_state misfit m0 step0)) as [rest H].
  exists rest. unfold run. rewrite H. rewrite firstn_app, Nat.sub_diag, firstn_all. simpl. rewrite app_nil_r. reflexivity.
Qed.

Print Assumptions c09_policy_sound.
Print Assumptions c09_prefix.
