(* C07 — the samples file is the chain: thinned states with their own misfits.  Statements only.
   (The container that carries the columns to disk is C10's model; the metadata equations are
   checked against the implementation by the harness and modelled in Model/Close.v.) *)
From Coq Require Import List Bool ZArith Arith.
From HV Require Import Num Integrators Sampler Thinning SamplerProofs.
Import ListNotations.

Section C07.
  Context {N : NumOps}.
  Notation V := (@vec N).
  Variables (misfit : V -> T N) (grad : V -> V) (corr : V -> V -> V * V) (kin : V -> T N)
            (kgrad genmom : V -> V) (expf : T N -> T N) (powf : nat -> T N).
  Notation run := (run misfit grad corr kin kgrad genmom expf powf).

  (* P = k*t proposals with thinning t store exactly k = P/t columns *)
  Theorem c07_count : forall sm t k m0 step0 evs, 0 < t -> length evs = k * t ->
    length (cols (run sm t m0 step0 evs)) = k.
  Proof.
    intros sm t k m0 step0 evs Ht Hl. unfold Sampler.run. rewrite cols_pick.
    apply (pick_length t Ht k 0). rewrite cols_thin1. exact Hl.
  Qed.

  (* column j is the chain state (with its carried misfit) after proposal j*t of the unthinned run *)
  Theorem c07_column : forall sm t k m0 step0 evs j, 0 < t -> length evs = k * t -> j < k ->
    nth_error (cols (run sm t m0 step0 evs)) j = nth_error (cols (run sm 1 m0 step0 evs)) (j * t).
  Proof.
    intros sm t k m0 step0 evs j Ht Hl Hj. unfold Sampler.run. rewrite cols_pick.
    apply (pick_nth t Ht j k 0); [rewrite cols_thin1; exact Hl|exact Hj].
  Qed.

  (* the unthinned run stores one column per proposal; thinning changes neither the chain nor
     the accept decisions (hence not the random numbers consumed) *)
  Theorem c07_unthinned_all : forall sm m0 step0 evs, length (cols (run sm 1 m0 step0 evs)) = length evs.
  Proof. intros. apply cols_thin1. Qed.

  Theorem c07_thinning_same_chain : forall sm t m0 step0 evs,
    final (run sm t m0 step0 evs) = final (run sm 1 m0 step0 evs) /\
    decisions (run sm t m0 step0 evs) = decisions (run sm 1 m0 step0 evs).
  Proof. intros. apply thinning_irrelevant. Qed.

  (* every stored misfit is the target's misfit at exactly the stored state *)
  Theorem c07_misfit_is_own : forall sm t m0 step0 evs,
    Forall (fun c => snd c = misfit (fst c)) (cols (run sm t m0 step0 evs)).
  Proof. intros. apply cols_own. reflexivity. Qed.
End C07.

Print Assumptions c07_count.
Print Assumptions c07_column.
Print Assumptions c07_unthinned_all.
Print Assumptions c07_thinning_same_chain.
Print Assumptions c07_misfit_is_own.
