(* C13 — composite distributions obey their algebra.  Statements only. *)
From Coq Require Import Reals List Bool.
From Coquelicot Require Import Coquelicot.
From HV Require Import Num XReal NumR Bounds Dist LinAlg DistDeriv AlgebraProofs.
Import ListNotations.
Open Scope R_scope.

(* BayesRule / AdditiveDistribution: misfit and gradient are the sums over the parts *)
Theorem c13_additive_sum : forall a b x,
  misfit (DAdd a b) x = misfit a x + misfit b x /\ gradient (DAdd a b) x = map2R Rplus (gradient a x) (gradient b x).
Proof. intros; split; reflexivity. Qed.

(* ... and its bounds are the intersection of all parts' bounds: a point violates the collapsed box
   iff it violates the box of some part (or the distribution's own box); collapsing again
   (add_distribution) changes nothing *)
Theorem c13_additive_bounds : forall q parts own, box_dim_ok (length q) own -> List.Forall (box_dim_ok (length q)) parts ->
  @outside NumR (fst (@collapse NumR parts own)) (snd (@collapse NumR parts own)) q
  = @outside NumR (fst own) (snd own) q || existsb (fun b => @outside NumR (fst b) (snd b) q) parts.
Proof. exact collapse_is_intersection. Qed.

Theorem c13_additive_bounds_idempotent : forall q parts own, box_dim_ok (length q) own -> List.Forall (box_dim_ok (length q)) parts ->
  @outside NumR (fst (@collapse NumR parts (@collapse NumR parts own))) (snd (@collapse NumR parts (@collapse NumR parts own))) q
  = @outside NumR (fst (@collapse NumR parts own)) (snd (@collapse NumR parts own)) q.
Proof. exact collapse_idempotent. Qed.

(* CompositeDistribution: sum over consecutive coordinate blocks, gradients stacked,
   each block's bounds reflected on its own coordinates *)
Theorem c13_composite_blocks : forall na a b x,
  misfit (DComp na a b) x = misfit a (firstn na x) + misfit b (skipn na x) /\
  gradient (DComp na a b) x = gradient a (firstn na x) ++ gradient b (skipn na x).
Proof. intros; split; reflexivity. Qed.

Theorem c13_composite_corrector_low : forall l1 q1 p1 l2 q2 p2, length l1 = length q1 -> length q1 = length p1 ->
  @reflect_low NumR (l1 ++ l2) (q1 ++ q2) (p1 ++ p2) =
  (fst (@reflect_low NumR l1 q1 p1) ++ fst (@reflect_low NumR l2 q2 p2),
   snd (@reflect_low NumR l1 q1 p1) ++ snd (@reflect_low NumR l2 q2 p2)).
Proof. exact reflect_low_app. Qed.

Theorem c13_composite_corrector_high : forall u1 q1 p1 u2 q2 p2, length u1 = length q1 -> length q1 = length p1 ->
  @reflect_high NumR (u1 ++ u2) (q1 ++ q2) (p1 ++ p2) =
  (fst (@reflect_high NumR u1 q1 p1) ++ fst (@reflect_high NumR u2 q2 p2),
   snd (@reflect_high NumR u1 q1 p1) ++ snd (@reflect_high NumR u2 q2 p2)).
Proof. exact reflect_high_app. Qed.

(* Mixture: -log sum_i w_i exp(-misfit_i), with the matching gradient (= its derivative) *)
Theorem c13_mixture : forall wa a wb b x,
  misfit (DMix wa a wb b) x = - ln (wa * exp (- misfit a x) + wb * exp (- misfit b x)).
Proof. reflexivity. Qed.

Theorem c13_mixture_gradient_matches : forall wa a wb b x, ok (DMix wa a wb b) x ->
  forall i xi, nth_error x i = Some xi ->
  is_derive (fun t => misfit (DMix wa a wb b) (upd x i t)) xi (nth i (gradient (DMix wa a wb b) x) 0).
Proof. intros wa a wb b x H. exact (gradient_is_derivative (DMix wa a wb b) x H). Qed.

(* TransformToLogSpace is the exact change of variables m = base^x: density of m = density of
   x = log_base m times the Jacobian prod_i 1/(m_i ln base) *)
Theorem c13_logspace : forall base d m, 1 < base -> List.Forall (fun a => 0 < a) m ->
  exp (- misfit (DLog base d) m)
  = exp (- misfit d (map (fun a => ln a / ln base) m)) * prodR (map (fun a => / a / ln base) m).
Proof. exact logspace_change_of_variables. Qed.

(* a temperature T divides misfit and gradient by T *)
Theorem c13_temperature : forall T d x,
  misfit (DScale (/ T) d) x = / T * misfit d x /\ gradient (DScale (/ T) d) x = map (Rmult (/ T)) (gradient d x).
Proof. intros; split; reflexivity. Qed.

(* scalar, per-dimension and diagonal-matrix covariances describe the same Normal *)
Theorem c13_normal_encodings : forall mu ivar c x, length mu = length x -> length ivar = length x ->
  misfit (normal_diag mu ivar c) x = misfit (DQuad mu (diagM ivar) c) x /\
  gradient (normal_diag mu ivar c) x = gradient (DQuad mu (diagM ivar) c) x.
Proof. exact normal_diag_eq_full. Qed.

Print Assumptions c13_additive_sum.
Print Assumptions c13_additive_bounds.
Print Assumptions c13_additive_bounds_idempotent.
Print Assumptions c13_composite_blocks.
Print Assumptions c13_composite_corrector_low.
Print Assumptions c13_composite_corrector_high.
Print Assumptions c13_mixture.
Print Assumptions c13_mixture_gradient_matches.
Print Assumptions c13_logspace.
Print Assumptions c13_temperature.
Print Assumptions c13_normal_encodings.
