(* C01 (continued) — volume preservation.  Statement only; proof in Proof/Volume.v (mathcomp). *)
From mathcomp Require Import all_ssreflect all_algebra.
From HV Require Import Volume.
Local Open Scope ring_scope.

(* the tangent map of any drift/kick(/reflection) program has determinant 1, for every Hessian field,
   every inverse mass matrix (Unit, Diagonal, Full), every dimension n, every commutative ring *)
Theorem c01_volume : forall (F : comRingType) (n : nat) (prog : seq (tinstr F n)),
  (forall i, List.In i prog -> signs_ok i) -> \det (tangent prog) = 1.
Proof. exact tangent_det_one. Qed.

Print Assumptions c01_volume.
