(* C02 — accept/reject realises the Metropolis rule exactly.  Statements only. *)
From Coq Require Import List Bool ZArith Reals Lra.
From HV Require Import Num XReal Integrators Sampler SamplerProofs XSamplerProofs.
Import ListNotations.

Section C02.
  Context {N : NumOps}.
  Notation V := (@vec N).
  Variables (misfit : V -> T N) (grad : V -> V) (corr : V -> V -> V * V) (kin : V -> T N)
            (kgrad genmom : V -> V) (expf : T N -> T N) (powf : nat -> T N).

  (* RWMH: accepted exactly when u < exp(misfit(current) - misfit(proposal)) *)
  Theorem c02_rule_rwmh : forall c i s e,
    snd (rwmh_step misfit expf powf c i s e)
    = ltb (e_u e) (expf (sub (cur_x s) (misfit (rwmh_proposal c s (e_z e))))).
  Proof. exact (rwmh_decision misfit expf powf). Qed.

  (* HMC: accepted exactly when u < exp(H(current, fresh momentum) - H(proposal, final momentum)),
     H = misfit + kinetic energy under the chosen mass matrix *)
  Theorem c02_rule_hmc : forall c i s e,
    snd (hmc_step misfit grad corr kin kgrad genmom expf powf c i s e)
    = ltb (e_u e) (expf (sub (add (misfit (cur s)) (kin (genmom (e_z e))))
                             (add (misfit (hmc_pq grad corr kgrad genmom c s e)) (kin (hmc_pp grad corr kgrad genmom c s e))))).
  Proof. exact (hmc_decision misfit grad corr kin kgrad genmom expf powf). Qed.

  (* after acceptance the state and the carried misfit are those of the proposal *)
  Theorem c02_accept_state_rwmh : forall c i s e, snd (rwmh_step misfit expf powf c i s e) = true ->
    let s' := fst (rwmh_step misfit expf powf c i s e) in
    cur s' = rwmh_proposal c s (e_z e) /\ cur_x s' = misfit (rwmh_proposal c s (e_z e)) /\ acc s' = S (acc s).
  Proof. exact (rwmh_accept_state misfit expf powf). Qed.

  Theorem c02_accept_state_hmc : forall c i s e, snd (hmc_step misfit grad corr kin kgrad genmom expf powf c i s e) = true ->
    let s' := fst (hmc_step misfit grad corr kin kgrad genmom expf powf c i s e) in
    cur s' = hmc_pq grad corr kgrad genmom c s e /\ cur_x s' = misfit (hmc_pq grad corr kgrad genmom c s e) /\ acc s' = S (acc s).
  Proof. exact (hmc_accept_state misfit grad corr kin kgrad genmom expf powf). Qed.

  (* after rejection both are unchanged *)
  Theorem c02_reject_state_rwmh : forall c i s e, snd (rwmh_step misfit expf powf c i s e) = false ->
    let s' := fst (rwmh_step misfit expf powf c i s e) in
    cur s' = cur s /\ cur_x s' = cur_x s /\ acc s' = acc s.
  Proof. exact (rwmh_reject_state misfit expf powf). Qed.

  Theorem c02_reject_state_hmc : forall c i s e, snd (hmc_step misfit grad corr kin kgrad genmom expf powf c i s e) = false ->
    let s' := fst (hmc_step misfit grad corr kin kgrad genmom expf powf c i s e) in
    cur s' = cur s /\ cur_x s' = misfit (cur s) /\ acc s' = acc s.
  Proof. exact (hmc_reject_state misfit grad corr kin kgrad genmom expf powf). Qed.

  (* the reported number of accepted proposals equals the number of accepting transitions,
     for every run length, thinning and event stream *)
  Theorem c02_counter : forall sm t m0 step0 evs,
    let r := run misfit grad corr kin kgrad genmom expf powf sm t m0 step0 evs in
    acc (final r) = count_true (decisions r).
  Proof. intros sm t m0 step0 evs. exact (counter misfit grad corr kin kgrad genmom expf powf sm t evs 0 _). Qed.

  (* an RWMH proposal is the current state plus (stepsize * non-scalar part) (.) z; the coefficient
     vector depends on the configuration and the step size only, the draw z is an input *)
  Theorem c02_rwmh_proposal : forall (c : @rwmh_cfg N) (s : @st N) (z : V),
    rwmh_proposal c s z = vadd (cur s) (vmul (rwmh_coefs c (step s)) z).
  Proof. reflexivity. Qed.
End C02.

(* a proposal whose energy is NaN or +inf is never accepted, for every current energy and every u in [0,1) *)
Theorem c02_nonfinite_rejected : forall (Ecur Eprop : xreal) (u : R),
  Eprop = XNaN \/ Eprop = XPInf -> (0 <= u)%R ->
  @accepts NumX (xexp (xsub Ecur Eprop)) (XF u) = false.
Proof. exact nonfinite_rejected. Qed.

Print Assumptions c02_rule_rwmh.
Print Assumptions c02_rule_hmc.
Print Assumptions c02_accept_state_rwmh.
Print Assumptions c02_accept_state_hmc.
Print Assumptions c02_reject_state_rwmh.
Print Assumptions c02_reject_state_hmc.
Print Assumptions c02_counter.
Print Assumptions c02_rwmh_proposal.
Print Assumptions c02_nonfinite_rejected.

(* non-vacuity: an accepting, a rejecting and a NaN transition at the extended-real instance *)
Example c02_nonvacuous :
  @accepts NumX (xexp (xsub (XF 2) (XF 1))) (XF (1/2)) = true /\
  @accepts NumX (xexp (xsub (XF 1) XPInf)) (XF 0) = false /\
  @accepts NumX (xexp (xsub (XF 1) XNaN)) (XF 0) = false.
Proof.
  split; [|split; apply nonfinite_rejected; auto; lra]. unfold accepts; simpl. apply Rltb_true.
  replace (2 + - 1)%R with 1%R by ring.
  apply Rlt_trans with 1%R; [lra|]. rewrite <- exp_0 at 1. apply exp_increasing. lra.
Qed.
