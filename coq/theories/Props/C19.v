(* C19 — gradient_descent returns a consistent, finite, guarded trajectory.
   Statements only; proofs are in Proof/GradDescentProofs.v.  The theorems hold for EVERY
   instance of the arithmetic (binary64 included), every target (misfit, grad as arbitrary
   functions), every initial model, step, iteration count, regularisation and flag. *)
From Coq Require Import List Bool ZArith PrimFloat.
From HV Require Import Num FloatIO ListAux GradDescent GradDescentProofs.
Import ListNotations.

Section C19.
  Context {N : NumOps}.
  Variables (misfit : @vec N -> T N) (grad : @vec N -> @vec N).
  Variables (eps : T N) (reg : option (T N)) (mono : bool) (m0 : @vec N) (iterations : nat).
  Let s := gradient_descent misfit grad m0 eps iterations reg mono.

  (* returned model / misfit are the last history entries *)
  Theorem c19_last : forall dm dx, last (ret_ms s) dm = gm s /\ last (ret_xs s) dx = gx s.
  Proof. intros; exact (gd_last misfit grad eps reg mono m0 iterations dm dx). Qed.

  (* every history misfit is the target's misfit at the corresponding model *)
  Theorem c19_misfit_of_model : Forall2 (fun m x => x = misfit m) (ret_ms s) (ret_xs s).
  Proof. exact (gd_misfit_of_model misfit grad eps reg mono m0 iterations). Qed.

  (* consecutive models differ by -eps times the (optionally preconditioned) gradient at the earlier one *)
  Theorem c19_step : forall m m', consecutive (ret_ms s) m m' ->
      m' = vsub m (vscale eps (precondition reg (grad m))).
  Proof. intros m m'; exact (gd_step misfit grad eps reg mono m0 iterations m m'). Qed.

  (* a step that produces a NaN or infinite misfit is never returned *)
  Theorem c19_never_nonfinite : forall x0 rest x, ret_xs s = x0 :: rest -> In x rest ->
      isnan x = false /\ isinf x = false.
  Proof. intros x0 rest x; exact (gd_never_nonfinite misfit grad eps reg mono m0 iterations x0 x rest). Qed.

  (* with strictly_monotonic the misfit history never increases *)
  Theorem c19_monotone : mono = true -> forall x x', consecutive (ret_xs s) x x' -> ltb x x' = false.
  Proof. intros Hm x x'; exact (gd_monotone misfit grad eps reg mono m0 iterations x x' Hm). Qed.
  (* (beyond the property text, part of the model's contract) the histories have one length, between 1 and
     iterations + 1, and the trajectory is shorter than iterations + 1 only when the step after the returned
     model was refused by one of the two guards: no admissible step is ever dropped *)
  Theorem c19_lengths : length (ret_ms s) = length (ret_xs s) /\ 1 <= length (ret_xs s) <= iterations + 1.
  Proof. exact (gd_lengths misfit grad eps reg mono m0 iterations). Qed.

  Theorem c19_maximal : length (ret_xs s) < iterations + 1 ->
      let x' := misfit (vsub (gm s) (vscale eps (precondition reg (grad (gm s))))) in
      isnan x' || isinf x' = true \/ ltb (gx s) x' && mono = true.
  Proof. exact (gd_maximal misfit grad eps reg mono m0 iterations). Qed.
End C19.

Print Assumptions c19_last.
Print Assumptions c19_misfit_of_model.
Print Assumptions c19_step.
Print Assumptions c19_never_nonfinite.
Print Assumptions c19_monotone.
Print Assumptions c19_lengths.
Print Assumptions c19_maximal.

(* non-vacuity: a binary64 run that takes two steps and then hits the NaN guard *)
Example c19_nonvacuous :
  let mis (m : @vec NumF) := match m with [x] => if PrimFloat.ltb x 0x1p-2%float then nan else PrimFloat.mul x x | _ => nan end in
  let gr (m : @vec NumF) := match m with [x] => [PrimFloat.mul 2 x] | _ => [] end in
  let r := @gradient_descent NumF mis gr [1%float] 0x1p-2%float 10 None true in
  length (gxs r) = 3%nat.
Proof. vm_compute. reflexivity. Qed.
