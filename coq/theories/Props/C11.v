(* C11 — existing sample files are never modified without overwrite consent.  Statements only. *)
From Coq Require Import List Bool ZArith Arith.
From HV Require Import FileSys FileSysProofs.
Import ListNotations.

(* for every sequence of operations none of which has overwrite consent, every file that existed
   before keeps its content (version stamp) *)
Theorem c11_unchanged : forall ops f q s, forallb (fun o => negb (consent o)) ops = true ->
  lookup_stamp (stamps f) q = Some s -> lookup_stamp (stamps (fst (run f ops))) q = Some s.
Proof. exact run_unchanged. Qed.

(* an attempt to write to an existing path with otherwise valid arguments raises FileExistsError *)
Theorem c11_file_exists_error : forall f p st, st <> FailBeforeOpen -> exists_file f p = true ->
  snd (step f (Sample p false st)) = FileExists /\ snd (step f (OpenW p false)) = FileExists.
Proof. exact refused_with_file_exists. Qed.

(* no handle is left behind by any sequence (refused, failed or successful), and therefore the
   next valid run on any path (with consent exactly if the path exists by then) succeeds *)
Theorem c11_no_leak : forall ops f, handles (fst (run f ops)) = handles f.
Proof. exact no_leak. Qed.

Theorem c11_following_run_succeeds : forall ops f p,
  let f' := fst (run f ops) in snd (step f' (Sample p (exists_file f' p) Valid)) = Ok.
Proof. exact following_valid_run_succeeds. Qed.

Print Assumptions c11_unchanged.
Print Assumptions c11_file_exists_error.
Print Assumptions c11_no_leak.
Print Assumptions c11_following_run_succeeds.

Example c11_nonvacuous :
  let f0 := {| stamps := []; next := 0; handles := 0 |} in
  let ops := [Sample 0 false Valid; Sample 0 false Valid; Sample 0 false FailAfterOpen; DeepCopyObj; Sample 1 false FailAfterOpen; Sample 1 false Valid] in
  snd (run f0 ops) = [Ok; FileExists; FileExists; Ok; OtherError; FileExists]
  /\ stamps (fst (run f0 ops)) = [(0, 0); (1, 1)].
Proof. vm_compute. split; reflexivity. Qed.
