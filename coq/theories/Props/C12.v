(* C12 — parallel tempering exchanges conserve states, obey the swap rule, terminate, and do not depend
   on the interleaving of the chains.  Statements only; proofs in Proof/NetworkProofs.v, Proof/ExchangeProofs.v. *)
From Coq Require Import List Bool Arith.
From HV Require Import Num FloatIO Network NetworkProofs Exchange ExchangeProofs C12Corr.
Import ListNotations.

Section C12.
  Context {N : NumOps}.
  Variables (St G : Type).
  Variable steq : St -> St -> bool.                     (* array_equal *)
  Variable misfit : nat -> St -> T N.                   (* chain i's own target *)
  Variable expo : T N -> T N.
  Variable draw : G -> T N * G.                         (* rng.uniform(0, 1) of a chain's generator *)
  Variable trans : nat -> nat -> @core N St G -> @core N St G.   (* any transition kernel (HMC, RWMH, ...) *)
  Variable sched : list row.                            (* any schedule *)
  Variable I : nat.
  Variable exchange : bool.
  (* the pipes: FIFO queues holding at most `cap` messages (a sender finding the queue full blocks), or
     unbounded ones; at least one message must fit *)
  Variable cap : option nat.
  Hypothesis cap_ge_1 : match cap with Some c => 1 <= c | None => True end.

  Notation lst := (@lst N St G).
  Notation msg := (@msg N St).
  Notation init := (init_net St G steq misfit expo draw trans sched I exchange).
  Notation final := (final_net St G steq misfit expo draw trans sched I exchange).
  Notation steps := (total_steps sched I exchange 10).
  Notation steps_sync := (total_steps sched I exchange 6).

  (* For every number of chains (length ls), proposal count P, interval I >= 1, exchange on / off and every
     schedule whose looked-up rows exist and pair distinct existing chains:
     (1) the sequential reading of the run is an execution of the network and finishes every chain;
     (2) EVERY interleaving of the chains' local / send / receive steps is at most that long (no livelock),
         and can only come to a halt in that same final state (no deadlock; the result -- files included,
         they are part of the final local states -- does not depend on the interleaving). *)
  Theorem c12_every_interleaving : forall (ls : list lst) P,
    run_defined sched I exchange (length ls) P ->
    gpath _ nat (step lst msg cap) (init ls P) (steps (length ls) 0 P) (final ls P) /\
    all_done lst msg (final ls P) = true /\
    forall k u, gpath _ nat (step lst msg cap) (init ls P) k u ->
      k <= steps (length ls) 0 P /\
      (gterminal _ nat (step lst msg cap) u -> k = steps (length ls) 0 P /\ u = final ls P).
  Proof.
    intros ls P [_ Hok].
    assert (cap1 : room msg cap [] = true).
    { unfold room. destruct cap as [c|]; [|reflexivity]. apply Nat.ltb_lt. simpl. exact cap_ge_1. }
    destruct (canonical_run St G steq misfit expo draw trans sched I exchange cap cap1 ls P Hok) as [H1 H2].
    split; [exact H1|]. split; [exact H2|].
    exact (all_interleavings St G steq misfit expo draw trans sched I exchange cap cap1 ls P Hok).
  Qed.

  (* The same with synchronous pipes -- a send returns only when the matching receive has taken the message
     (what a pipe does with a message larger than its buffer): every interleaving is bounded, cannot get
     stuck, and ends in the SAME final state as with buffered pipes. *)
  Theorem c12_every_interleaving_synchronous : forall (ls : list lst) P,
    run_defined sched I exchange (length ls) P ->
    gpath _ nat (sstep lst msg) (init ls P) (steps_sync (length ls) 0 P) (final ls P) /\
    all_done lst msg (final ls P) = true /\
    forall k u, gpath _ nat (sstep lst msg) (init ls P) k u ->
      k <= steps_sync (length ls) 0 P /\
      (gterminal _ nat (sstep lst msg) u -> k = steps_sync (length ls) 0 P /\ u = final ls P).
  Proof.
    intros ls P [_ Hok].
    destruct (canonical_run_sync St G steq misfit expo draw trans sched I exchange ls P Hok) as [H1 H2].
    split; [exact H1|]. split; [exact H2|].
    exact (all_interleavings_sync St G steq misfit expo draw trans sched I exchange ls P Hok).
  Qed.

  (* At a scheduled exchange the pair (slave a, master b) exactly swaps its states when
     u < exp ((x_b - U_b(state a)) + (x_a - U_a(state b))), u the master's next uniform number, and both
     keep their states otherwise; nothing else is possible. *)
  Theorem c12_keep_or_swap : forall s m (a b : lst),
    let a' := fst (exch St G steq misfit expo draw s m a b) in
    let b' := snd (exch St G steq misfit expo draw s m a b) in
    (swap_rule St G misfit expo draw s m a b = true ->
       k_model (l_core a') = k_model (l_core b) /\ k_model (l_core b') = k_model (l_core a)) /\
    (swap_rule St G misfit expo draw s m a b = false ->
       k_model (l_core a') = k_model (l_core a) /\ k_model (l_core b') = k_model (l_core b)).
  Proof.
    intros s m a b. split.
    - apply exch_swap.
    - apply exch_keep.
  Qed.

  Hypothesis steq_refl : forall x, steq x x = true.
  Hypothesis steq_sound : forall x y, steq x y = true -> x = y.
  (* the transition kernel stores the chain's own misfit of the state it ends in (C04 / C02) *)
  Hypothesis trans_own : forall i p c, k_x c = misfit i (k_model c) -> k_x (trans i p c) = misfit i (k_model (trans i p c)).

  (* Before every proposal q <= P (so: in the input of every transition, and at the end) every chain holds
     the misfit of ITS OWN target at the state it now holds, has written exactly q columns, and every
     column is (state, own misfit of that state). *)
  Theorem c12_own_misfit_and_columns : forall (ls : list lst) P q, q <= P ->
    run_defined sched I exchange (length ls) P ->
    (forall i l, nth_error ls i = Some l -> Own St G misfit i l /\ l_out l = []) ->
    forall i pr, nth_error (rounds St G steq misfit expo draw sched I exchange 0 q (procs (init ls P))) i = Some pr ->
      Own St G misfit i (loc pr) /\
      List.Forall (entry_ok St misfit i) (l_out (loc pr)) /\
      length (l_out (loc pr)) = q.
  Proof.
    intros ls P q Hq [_ Hok] H0 i pr Hi.
    exact (run_good St G steq misfit expo draw trans sched I exchange steq_refl steq_sound trans_own ls P q Hq Hok H0 i pr Hi).
  Qed.
End C12.

(* ---- the guard is computable, satisfiable, and necessary ---- *)
Theorem c12_guard_sound : forall sched I exchange n P,
  run_definedb sched I exchange n P = true -> run_defined sched I exchange n P.
Proof. intros. apply run_definedb_sound. assumption. Qed.

(* three chains, five proposals, interval two: rows 0, 1, 2 are looked up (ceil (5 / 2) = 3 rows) *)
Definition ex_case (rows : list (list (nat * nat))) : c12_case :=
  {| e_P := 5; e_I := 2; e_exchange := true; e_sched := rows; e_exp := [];
     e_chains := [dummy_chain; dummy_chain; dummy_chain] |}.

Example c12_guard_holds_somewhere : c12_guard (ex_case [[(0, 2)]; [(1, 0)]; [(2, 1)]]) = true.
Proof. vm_compute. reflexivity. Qed.

(* with only floor (5 / 2) = 2 rows (what ParallelSampleSMP built before the repair) the guard fails, and the
   network really gets stuck: some execution halts with unfinished chains *)
Example c12_short_schedule_stuck :
  let c := ex_case [[(0, 2)]; [(1, 0)]] in
  c12_guard c = false /\
  exists k u, gpath _ nat (step _ _ (Some 1)) (the_net c) k u /\ gterminal _ nat (step _ _ (Some 1)) u /\ all_done _ _ u = false.
Proof.
  split; [vm_compute; reflexivity|].
  exists (snd (net_run (ex_case [[(0, 2)]; [(1, 0)]]))), (fst (net_run (ex_case [[(0, 2)]; [(1, 0)]]))).
  split; [apply run_sched_path|]. split.
  - apply stuckb_sound. vm_compute. reflexivity.
  - vm_compute. reflexivity.
Qed.

Print Assumptions c12_every_interleaving.
Print Assumptions c12_every_interleaving_synchronous.
Print Assumptions c12_keep_or_swap.
Print Assumptions c12_own_misfit_and_columns.
Print Assumptions c12_guard_sound.
Print Assumptions c12_short_schedule_stuck.
