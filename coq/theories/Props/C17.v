(* C17 — source location: travel times, missing picks, 2D/3D agreement.  Statements only.
   Events are ((x,y,z),T); the 2D class is the y = 0 slice (ry = 0) of the same model. *)
From Coq Require Import Reals List.
From Coquelicot Require Import Coquelicot.
From HV Require Import Dist DistExtra SourceLocProofs.
Import ListNotations.
Open Scope R_scope.

(* predicted arrival = origin time + straight-line distance / velocity *)
Theorem c17_forward : forall x y z T v rx ry rz,
  tt (x, y, z) T v (rx, ry, rz) = T + sqrt (sq (x - rx) + sq (y - ry) + sq (z - rz)) / v.
Proof. reflexivity. Qed.

(* misfit of one observation: 1/2 ((observed - predicted)/sigma)^2, nothing for a missing pick *)
Theorem c17_datum_misfit : forall e T v s o sd,
  datum_misfit e T v s (Some o) sd = / 2 * sq ((o - tt e T v s) / sd) /\ datum_misfit e T v s None sd = 0 /\
  datum_grad e T v s None sd = (0, 0, 0, 0, 0).
Proof. intros; repeat split; reflexivity. Qed.

(* the gradient entries are the partial derivatives (x, y, z, T per event; v), source away from the station *)
Theorem c17_gradient_x : forall x y z T v s o sd, away (x, y, z) s -> v <> 0 -> sd <> 0 ->
  is_derive (fun t => datum_misfit (t, y, z) T v s (Some o) sd) x (fst (fst (fst (fst (datum_grad (x, y, z) T v s (Some o) sd))))).
Proof. exact datum_dx. Qed.
Theorem c17_gradient_y : forall x y z T v s o sd, away (x, y, z) s -> v <> 0 -> sd <> 0 ->
  is_derive (fun t => datum_misfit (x, t, z) T v s (Some o) sd) y (snd (fst (fst (fst (datum_grad (x, y, z) T v s (Some o) sd))))).
Proof. exact datum_dy. Qed.
Theorem c17_gradient_z : forall x y z T v s o sd, away (x, y, z) s -> v <> 0 -> sd <> 0 ->
  is_derive (fun t => datum_misfit (x, y, t) T v s (Some o) sd) z (snd (fst (fst (datum_grad (x, y, z) T v s (Some o) sd)))).
Proof. exact datum_dz. Qed.

(* summed over all stations of an event, with any pattern of missing picks *)
Theorem c17_event_gradient_x : forall y z T v stations obs sds x, v <> 0 -> List.Forall (fun sd => sd <> 0) sds ->
  List.Forall (fun s => away (x, y, z) s) stations ->
  is_derive (fun t => event_misfit (t, y, z) T v stations obs sds) x (fst (fst (fst (fst (event_grad (x, y, z) T v stations obs sds))))).
Proof. exact event_dx. Qed.
Theorem c17_event_gradient_T : forall e v stations obs sds T, v <> 0 -> List.Forall (fun sd => sd <> 0) sds ->
  is_derive (fun t => event_misfit e t v stations obs sds) T (snd (fst (event_grad e T v stations obs sds))).
Proof. exact event_dT. Qed.
Theorem c17_event_gradient_v : forall e T stations obs sds v, v <> 0 -> List.Forall (fun sd => sd <> 0) sds ->
  is_derive (fun t => event_misfit e T t stations obs sds) v (snd (event_grad e T v stations obs sds)).
Proof. exact event_dv. Qed.

(* noise-free data give zero misfit and zero gradient at the true model *)
Theorem c17_zero_at_truth : forall e T v stations sds, List.Forall (fun sd => sd <> 0) sds ->
  event_misfit e T v stations (map (fun s => Some (tt e T v s)) stations) sds = 0 /\
  event_grad e T v stations (map (fun s => Some (tt e T v s)) stations) sds = (0, 0, 0, 0, 0).
Proof. exact event_truth. Qed.

Print Assumptions c17_forward.
Print Assumptions c17_datum_misfit.
Print Assumptions c17_gradient_x.
Print Assumptions c17_gradient_y.
Print Assumptions c17_gradient_z.
Print Assumptions c17_event_gradient_x.
Print Assumptions c17_event_gradient_T.
Print Assumptions c17_event_gradient_v.
Print Assumptions c17_zero_at_truth.
