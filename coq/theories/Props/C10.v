(* C10 — Samples container round-trips data exactly under any buffering.  Statements only.
   A is the (opaque) column type; `be` ranges over both back ends; clock scripts are arbitrary
   (incl. decreasing times and NaN = None). *)
From Coq Require Import List Bool ZArith Arith.
From HV Require Import SamplesFile SamplesFileProofs.
Import ListNotations.

(* after close the file holds exactly the appended columns, in order; nothing is left in the
   buffer; the write index equals the number of columns *)
Theorem c10_roundtrip : forall (A : Type) (be : backend) (ops : list (op A)) (clock : list (option Z)),
  let s := fst (run_ops A be (ops ++ [Close]) clock) in
  file s = appended A ops /\ buf s = [] /\ widx s = Z.of_nat (length (appended A ops)) /\ closed s = true.
Proof. exact roundtrip. Qed.

(* the wall-clock pattern that drives the adaptive buffer has no influence on the file *)
Theorem c10_policy_irrelevant : forall (A : Type) (be : backend) ops clock clock',
  file (fst (run_ops A be (ops ++ [Close]) clock)) = file (fst (run_ops A be (ops ++ [Close]) clock')).
Proof. exact policy_irrelevant. Qed.

(* reading with burn-in b drops the first b columns; a burn-in not shorter than the chain is refused *)
Theorem c10_burn_in : forall (A : Type) (be : backend) ops clock b,
  let s := fst (run_ops A be (ops ++ [Close]) clock) in
  (b < length (appended A ops) -> ropen A s b = Some (skipn b (appended A ops)) /\ rnumpy A s b = skipn b (appended A ops)) /\
  (length (appended A ops) <= b -> ropen A s b = None).
Proof. exact burn_in. Qed.

(* indexing [:, lo:hi] after burn-in b *)
Theorem c10_getitem : forall (A : Type) (be : backend) ops clock b lo hi,
  rgetitem A (fst (run_ops A be (ops ++ [Close]) clock)) b lo hi
  = firstn (hi - lo) (skipn lo (skipn b (appended A ops))).
Proof. exact getitem_spec. Qed.

(* combine_samples: concatenation of the inputs without NaN-containing columns *)
Theorem c10_combine : forall (A : Type) (hasnan : A -> bool) parts c,
  In c (combine A hasnan parts) <-> In c (concat parts) /\ hasnan c = false.
Proof.
  intros A hasnan parts c. unfold combine. rewrite filter_In, Bool.negb_true_iff. tauto.
Qed.

Print Assumptions c10_roundtrip.
Print Assumptions c10_policy_irrelevant.
Print Assumptions c10_burn_in.
Print Assumptions c10_getitem.
Print Assumptions c10_combine.

(* non-vacuity: a sequence that doubles the buffer interval and then halves it again *)
Example c10_nonvacuous :
  let ops := [Append 1; Append 2; Append 3; Append 4; Append 5; Append 6; Flush; Append 7; Append 8; Append 9]%nat in
  let clock := [Some 0; Some 0; Some 10; Some 10; Some 100000; Some 100000; Some 200000; Some 200000; Some 300000; Some 300000]%Z in
  let s4 := fst (run_ops nat NPY (firstn 4 ops) clock) in
  let s := fst (run_ops nat NPY ops clock) in
  interval s4 = 2%nat /\ (interval s, file s, buf s) = (1, [1; 2; 3; 4; 5; 6; 7; 8; 9], [])%nat.
Proof. vm_compute. split; reflexivity. Qed.
