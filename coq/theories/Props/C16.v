(* C16 — step-size autotuning stays positive, diminishing and correctly directed.  Statements only. *)
From Coq Require Import List Bool ZArith Reals Lra.
From HV Require Import Num XReal Integrators Sampler SamplerProofs XSamplerProofs.
Import ListNotations.
Open Scope R_scope.

(* the update equation: NaN counts as 0, min(a,1), subtraction, clamp to the minimal step *)
Theorem c16_update : forall (powf : nat -> xreal) (tg mn : R), 0 < mn ->
  forall i a s w, valid_a a -> powf i = XF w ->
  @autotune_step NumX powf (@Build_tuning NumX true (XF tg) (XF mn)) i a (XF s)
  = XF (clampR mn (s - w * (tg - amin a))).
Proof. exact autotune_update. Qed.

(* finite and positive after every update, for every acceptance probability in [0,inf] U {NaN} *)
Theorem c16_positive_finite : forall (powf : nat -> xreal) (tg mn : R), 0 < mn ->
  forall i a s w, valid_a a -> powf i = XF w ->
  exists r, @autotune_step NumX powf (@Build_tuning NumX true (XF tg) (XF mn)) i a (XF s) = XF r /\ 0 < r.
Proof. exact autotune_positive. Qed.

(* ... and therefore along every run, for every target, sampler, event stream: *)
Theorem c16_run_positive : forall (misfit : @vec NumX -> xreal) (grad : @vec NumX -> @vec NumX) (corr : @vec NumX -> @vec NumX -> @vec NumX * @vec NumX)
    (kin : @vec NumX -> xreal) (kgrad genmom : @vec NumX -> @vec NumX) (lr tg mn : R), 0 < mn ->
  forall (sm : @sampler NumX) evs, tuned tg mn sm -> forall m0 s0, 0 < s0 ->
  let powf i := XF (powR lr i) in
  Forall pos_step (states_before misfit grad corr kin kgrad genmom xexp powf sm 0
                                 (@init_state NumX misfit m0 (XF s0)) evs)
  /\ pos_step (final (@run NumX misfit grad corr kin kgrad genmom xexp powf sm 1 m0 (XF s0) evs)).
Proof.
  intros misfit grad corr kin kgrad genmom lr tg mn Hmn sm evs Ht m0 s0 Hs0. cbv zeta.
  apply (run_steps_positive misfit grad corr kin kgrad genmom lr tg mn Hmn sm evs Ht 0).
  exists s0. split; [reflexivity|exact Hs0].
Qed.

(* direction *)
Theorem c16_grows_after_easy_acceptance : forall (powf : nat -> xreal) (tg mn : R), 0 < mn ->
  forall i a s w, powf i = XF w -> 0 <= w -> tg <= 1 -> 0 < s ->
  (a = XPInf \/ exists r, a = XF r /\ 1 <= r) ->
  exists r', @autotune_step NumX powf (@Build_tuning NumX true (XF tg) (XF mn)) i a (XF s) = XF r' /\ s <= r'.
Proof. exact autotune_grows. Qed.

Theorem c16_shrinks_after_rejection : forall (powf : nat -> xreal) (tg mn : R), 0 < mn ->
  forall i a s w, powf i = XF w -> 0 <= w -> 0 <= tg -> 0 < s ->
  (a = XNaN \/ a = XF 0) ->
  exists r', @autotune_step NumX powf (@Build_tuning NumX true (XF tg) (XF mn)) i a (XF s) = XF r' /\ r' <= Rmax s mn.
Proof. exact autotune_shrinks. Qed.

(* diminishing: the change is at most weight_i * max(target, 1-target); the weights (i+1)^(-lr)
   are positive, at most 1 and strictly decreasing in i *)
Theorem c16_diminishing : forall a s w tg, valid_a a -> 0 <= w -> 0 <= tg <= 1 ->
  Rabs ((s - w * (tg - amin a)) - s) <= w * Rmax tg (1 - tg).
Proof. intros a s w tg Ha Hw Htg. exact (autotune_diminishing tg a s w Ha Hw Htg). Qed.

Theorem c16_weights : forall lr i, 0 < lr ->
  0 < powR lr i <= 1 /\ powR lr (S i) < powR lr i.
Proof. intros lr i H. split; [split; [apply powR_pos|apply powR_le_1; exact H]|apply powR_decreasing; exact H]. Qed.

(* bookkeeping (any arithmetic): the step recorded for proposal k is the step of the state that
   generated proposal k, and both histories have one entry per completed proposal *)
Theorem c16_recorded_is_generating_and_covers : forall (N : NumOps) misfit grad corr kin kgrad genmom expf powf
    (sm : @sampler N) t m0 step0 evs, t_on (tuning_of sm) = true ->
  let r := @run N misfit grad corr kin kgrad genmom expf powf sm t m0 step0 evs in
  rev (hist_s (final r)) = map step (states_before misfit grad corr kin kgrad genmom expf powf sm 0 (init_state misfit m0 step0) evs)
  /\ length (hist_a (final r)) = length evs /\ length (hist_s (final r)) = length evs.
Proof.
  intros N misfit grad corr kin kgrad genmom expf powf sm t m0 step0 evs Hon. cbv zeta.
  destruct (hist_recorded misfit grad corr kin kgrad genmom expf powf sm t evs Hon 0 (init_state misfit m0 step0)) as [H1 H2].
  unfold run. rewrite H1. simpl hist_s. simpl hist_a in H2. rewrite app_nil_r.
  rewrite rev_involutive. split; [reflexivity|]. split; [simpl in H2; rewrite H2; apply Nat.add_0_r|].
  rewrite rev_length, map_length.
  clear. generalize 0%nat (init_state misfit m0 step0). induction evs; intros; simpl; auto.
Qed.

(* learning rates outside (0.5, 1] are refused *)
Definition lr_accepted (lr : R) : bool := Rltb (1/2) lr && Rleb lr 1.
Theorem c16_lr_guard : forall lr, lr_accepted lr = true <-> 1/2 < lr <= 1.
Proof.
  intros lr. unfold lr_accepted. rewrite Bool.andb_true_iff, Rltb_true, Rleb_true. tauto.
Qed.

Print Assumptions c16_update.
Print Assumptions c16_positive_finite.
Print Assumptions c16_run_positive.
Print Assumptions c16_grows_after_easy_acceptance.
Print Assumptions c16_shrinks_after_rejection.
Print Assumptions c16_diminishing.
Print Assumptions c16_weights.
Print Assumptions c16_recorded_is_generating_and_covers.
Print Assumptions c16_lr_guard.

Example c16_nonvacuous : valid_a XNaN /\ valid_a XPInf /\ valid_a (XF 0) /\ clampR 1 (-3) = 1 /\ amin (XF 2) = 1.
Proof.
  unfold valid_a, clampR, amin. repeat split; auto.
  - right; right; exists 0; split; [reflexivity|lra].
  - destruct (Rleb (-3) 0) eqn:E; [reflexivity|]. apply Rleb_false in E. lra.
  - destruct (Rltb 1 2) eqn:E; [reflexivity|]. apply Rltb_false in E. lra.
Qed.
