(* Abstract numeric operations.  Numerical programs of the models are written once over
   this record and instantiated with PrimFloat (binary64, executable, compared bit for bit
   with the implementation) and with extended reals (the instance the theorems are about). *)
From Coq Require Import List Bool ZArith.
Import ListNotations.

Record NumOps := mkNumOps {
  T : Type;
  add : T -> T -> T;
  sub : T -> T -> T;
  mul : T -> T -> T;
  div : T -> T -> T;
  neg : T -> T;
  nsqrt : T -> T;
  ltb : T -> T -> bool;      (* a < b, false when either is NaN *)
  leb : T -> T -> bool;      (* a <= b, false when either is NaN *)
  isnan : T -> bool;
  isinf : T -> bool;         (* +inf or -inf *)
  ofZ : Z -> T
}.

Arguments add {_}. Arguments sub {_}. Arguments mul {_}. Arguments div {_}.
Arguments neg {_}. Arguments nsqrt {_}. Arguments ltb {_}. Arguments leb {_}.
Arguments isnan {_}. Arguments isinf {_}. Arguments ofZ {_}.

Section Vec.
  Context {N : NumOps}.
  Definition vec := list (T N).

  Fixpoint map2 {A B C} (f : A -> B -> C) (a : list A) (b : list B) : list C :=
    match a, b with
    | x :: a', y :: b' => f x y :: map2 f a' b'
    | _, _ => []
    end.

  Definition vadd (a b : vec) : vec := map2 add a b.
  Definition vsub (a b : vec) : vec := map2 sub a b.
  Definition vmul (a b : vec) : vec := map2 mul a b.
  Definition vscale (c : T N) (a : vec) : vec := map (mul c) a.
  Definition vneg (a : vec) : vec := map neg a.
  Definition vsum (a : vec) : T N := fold_left add a (ofZ 0).
  Definition vdot (a b : vec) : T N := vsum (vmul a b).
End Vec.

(* Vector operations used by the integrator programs.  The executable instance is lists of
   numbers; the theorem instances are arbitrary modules (e.g. functions from an index type). *)
Record VecOps (N : NumOps) := mkVecOps {
  VV : Type;
  vo_add : VV -> VV -> VV;
  vo_sub : VV -> VV -> VV;
  vo_scale : T N -> VV -> VV;
  vo_neg : VV -> VV
}.
Arguments VV {N}. Arguments vo_add {N}. Arguments vo_sub {N}. Arguments vo_scale {N}. Arguments vo_neg {N}.

Definition ListVec (N : NumOps) : VecOps N :=
  {| VV := list (T N); vo_add := @vadd N; vo_sub := @vsub N; vo_scale := @vscale N; vo_neg := @vneg N |}.
