(* The plain real-number instance of NumOps (no special values) and vectors as functions from an
   arbitrary index type: the instance used for the geometric theorems about the integrators. *)
From Coq Require Import Reals ZArith FunctionalExtensionality.
From HV Require Import Num XReal.
Open Scope R_scope.

Definition NumR : NumOps :=
  {| T := R; add := Rplus; sub := Rminus; mul := Rmult; div := Rdiv; neg := Ropp; nsqrt := sqrt;
     ltb := Rltb; leb := Rleb; isnan := fun _ => false; isinf := fun _ => false; ofZ := IZR |}.

Definition FunVec (I : Type) : VecOps NumR :=
  @mkVecOps NumR (I -> R)
     (fun f g i => f i + g i)
     (fun f g i => f i - g i)
     (fun (c : R) f i => c * f i)
     (fun f i => - f i).
