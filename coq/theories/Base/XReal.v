(* Extended reals with the IEEE-754 rules for special values written out.
   This is the NumOps instance the theorems about NaN / infinity handling refer to.
   Signed zeros and rounding are not represented (see DESIGN.md, trusted base). *)
From Coq Require Import Reals Bool ZArith Lra.
From HV Require Import Num.
Open Scope R_scope.

Inductive xreal := XF (r : R) | XPInf | XNInf | XNaN.

Definition Rltb (a b : R) : bool := if Rlt_dec a b then true else false.
Definition Rleb (a b : R) : bool := if Rle_dec a b then true else false.
Definition Reqb (a b : R) : bool := if Req_EM_T a b then true else false.

Lemma Rltb_true a b : Rltb a b = true <-> a < b.
Proof. unfold Rltb; destruct (Rlt_dec a b); split; intros; try discriminate; auto; contradiction. Qed.
Lemma Rltb_false a b : Rltb a b = false <-> ~ a < b.
Proof. unfold Rltb; destruct (Rlt_dec a b); split; intros; try discriminate; auto; contradiction. Qed.
Lemma Rleb_true a b : Rleb a b = true <-> a <= b.
Proof. unfold Rleb; destruct (Rle_dec a b); split; intros; try discriminate; auto; contradiction. Qed.
Lemma Rleb_false a b : Rleb a b = false <-> ~ a <= b.
Proof. unfold Rleb; destruct (Rle_dec a b); split; intros; try discriminate; auto; contradiction. Qed.

Definition xneg (a : xreal) : xreal :=
  match a with XF r => XF (- r) | XPInf => XNInf | XNInf => XPInf | XNaN => XNaN end.

Definition xadd (a b : xreal) : xreal :=
  match a, b with
  | XNaN, _ | _, XNaN => XNaN
  | XF x, XF y => XF (x + y)
  | XPInf, XNInf | XNInf, XPInf => XNaN
  | XPInf, _ | _, XPInf => XPInf
  | XNInf, _ | _, XNInf => XNInf
  end.

Definition xsub (a b : xreal) : xreal := xadd a (xneg b).

Definition sign_inf (pos : bool) : xreal := if pos then XPInf else XNInf.

Definition xmul (a b : xreal) : xreal :=
  match a, b with
  | XNaN, _ | _, XNaN => XNaN
  | XF x, XF y => XF (x * y)
  | XF x, XPInf | XPInf, XF x => if Reqb x 0 then XNaN else sign_inf (Rltb 0 x)
  | XF x, XNInf | XNInf, XF x => if Reqb x 0 then XNaN else sign_inf (Rltb x 0)
  | XPInf, XPInf | XNInf, XNInf => XPInf
  | XPInf, XNInf | XNInf, XPInf => XNInf
  end.

Definition xdiv (a b : xreal) : xreal :=
  match a, b with
  | XNaN, _ | _, XNaN => XNaN
  | XF x, XF y => if Reqb y 0 then (if Reqb x 0 then XNaN else sign_inf (Rltb 0 x)) else XF (x / y)
  | XF _, (XPInf | XNInf) => XF 0
  | XPInf, XF y => sign_inf (Rleb 0 y)
  | XNInf, XF y => sign_inf (negb (Rleb 0 y))
  | _, _ => XNaN
  end.

Definition xsqrt (a : xreal) : xreal :=
  match a with
  | XF x => if Rltb x 0 then XNaN else XF (sqrt x)
  | XPInf => XPInf
  | _ => XNaN
  end.

Definition xltb (a b : xreal) : bool :=
  match a, b with
  | XNaN, _ | _, XNaN => false
  | XF x, XF y => Rltb x y
  | XNInf, XNInf => false
  | XNInf, _ => true
  | _, XNInf => false
  | XPInf, _ => false
  | XF _, XPInf => true
  end.

Definition xleb (a b : xreal) : bool :=
  match a, b with
  | XNaN, _ | _, XNaN => false
  | XF x, XF y => Rleb x y
  | XNInf, _ => true
  | _, XPInf => true
  | _, _ => false
  end.

Definition xisnan (a : xreal) : bool := match a with XNaN => true | _ => false end.
Definition xisinf (a : xreal) : bool := match a with XPInf | XNInf => true | _ => false end.

(* exp with exp(-inf) = 0, exp(+inf) = +inf, exp(NaN) = NaN *)
Definition xexp (a : xreal) : xreal :=
  match a with XF x => XF (exp x) | XPInf => XPInf | XNInf => XF 0 | XNaN => XNaN end.

Definition NumX : NumOps :=
  {| T := xreal; add := xadd; sub := xsub; mul := xmul; div := xdiv; neg := xneg;
     nsqrt := xsqrt; ltb := xltb; leb := xleb; isnan := xisnan; isinf := xisinf;
     ofZ := fun z => XF (IZR z) |}.

Definition xfinite (a : xreal) : Prop := exists r, a = XF r.
