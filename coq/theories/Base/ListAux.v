From Coq Require Import List Lia.
Import ListNotations.

Definition consecutive {A} (l : list A) (a b : A) : Prop :=
  exists l1 l2, l = l1 ++ a :: b :: l2.

Lemma consecutive_rev {A} (l : list A) a b : consecutive (rev l) a b <-> consecutive l b a.
Proof.
  split; intros (l1 & l2 & H).
  - exists (rev l2), (rev l1). rewrite <- (rev_involutive l), H.
    rewrite rev_app_distr. simpl. rewrite <- !app_assoc. reflexivity.
  - exists (rev l2), (rev l1). rewrite H, rev_app_distr. simpl. rewrite <- !app_assoc. reflexivity.
Qed.

Lemma consecutive_cons {A} (x : A) l a b :
  consecutive (x :: l) a b <-> (exists l', l = b :: l' /\ x = a) \/ consecutive l a b.
Proof.
  split.
  - intros (l1 & l2 & H). destruct l1 as [|y l1]; simpl in H; inversion H; subst.
    + left. eauto.
    + right. exists l1, l2. reflexivity.
  - intros [(l' & -> & ->)|(l1 & l2 & ->)].
    + exists [], l'. reflexivity.
    + exists (x :: l1), l2. reflexivity.
Qed.

Lemma last_rev_hd {A} (l : list A) d : last (rev l) d = hd d l.
Proof. destruct l as [|x l]; simpl; [reflexivity|]. apply last_last. Qed.

(* all elements but the last one *)
Definition all_but_last {A} (P : A -> Prop) (l : list A) : Prop :=
  forall l1 a b l2, l = l1 ++ a :: b :: l2 -> P a.
