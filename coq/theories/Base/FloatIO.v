(* The PrimFloat instance of NumOps and bit-level comparison of doubles.
   Doubles cross the Python/Coq boundary as hexadecimal float literals (exact). *)
From Coq Require Import List Bool ZArith PrimFloat Uint63.
From HV Require Import Num.
Import ListNotations.

Definition f_ofZ (z : Z) : float :=
  match z with
  | Z0 => PrimFloat.zero
  | Zpos _ => of_uint63 (Uint63.of_Z z)
  | Zneg p => PrimFloat.opp (of_uint63 (Uint63.of_Z (Zpos p)))
  end.

Definition f_isinf (x : float) : bool := is_infinity x.

Definition NumF : NumOps :=
  {| T := float; add := PrimFloat.add; sub := PrimFloat.sub; mul := PrimFloat.mul;
     div := PrimFloat.div; neg := PrimFloat.opp; nsqrt := PrimFloat.sqrt;
     ltb := PrimFloat.ltb; leb := PrimFloat.leb; isnan := PrimFloat.is_nan;
     isinf := f_isinf; ofZ := f_ofZ |}.

(* equality of bit patterns up to the NaN payload *)
Definition fbits_eq (a b : float) : bool :=
  if is_nan a then is_nan b
  else if is_nan b then false
  else PrimFloat.eqb a b && PrimFloat.eqb (PrimFloat.div PrimFloat.one a) (PrimFloat.div PrimFloat.one b).

(* |a-b| <= k ulp-ish: relative closeness 2^-46 used only where stated *)
Definition fclose (a b : float) : bool :=
  if fbits_eq a b then true
  else if is_nan a || is_nan b || is_infinity a || is_infinity b then false
  else
    let d := PrimFloat.abs (PrimFloat.sub a b) in
    let m := PrimFloat.add (PrimFloat.abs a) (PrimFloat.abs b) in
    PrimFloat.leb d (PrimFloat.mul m 0x1p-46%float).

Fixpoint list_eqb {A B} (e : A -> B -> bool) (a : list A) (b : list B) : bool :=
  match a, b with
  | [], [] => true
  | x :: a', y :: b' => e x y && list_eqb e a' b'
  | _, _ => false
  end.

Definition fvec_eq := list_eqb fbits_eq.
Definition fvec_close := list_eqb fclose.

(* indices of the failing cases *)
Fixpoint failing_from {A} (f : A -> bool) (i : nat) (l : list A) : list nat :=
  match l with
  | [] => []
  | x :: l' => if f x then failing_from f (S i) l' else i :: failing_from f (S i) l'
  end.
Definition failing {A} (f : A -> bool) (l : list A) : list nat := failing_from f 0 l.

(* oracle tables: the implementation's logged (argument, value) pairs *)
Fixpoint lookup {V} (tbl : list (list float * V)) (miss : V) (k : list float) : V :=
  match tbl with
  | [] => miss
  | (k', v) :: tbl' => if fvec_eq k' k then v else lookup tbl' miss k
  end.

(* value equality: IEEE equality with NaN = NaN (sign of zero ignored) *)
Definition fsame (a b : float) : bool :=
  if is_nan a then is_nan b else if is_nan b then false else PrimFloat.eqb a b.
Definition fvec_same := list_eqb fsame.
