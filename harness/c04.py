"""C04 — stationarity.  The Coq theorems (finite-state, mathcomp) say: momentum refresh ; involution +
Metropolis test, and symmetric-proposal Metropolis, leave the target invariant.  This harness ties the
code to that composition and looks for failing inputs:
(a) the real transition (real Unit / Diagonal / Full mass matrices and real targets behind logging
wrappers, all three integrators, randomised step on/off, RWMH scalar / per-dimension) is co-executed
with the shared sampler model: it IS refresh ; trajectory ; Metropolis on misfit + kinetic energy;
(b) the moment test of the property text: many independent chains started from exact draws of Gaussian,
Laplace, mixture and box-truncated targets, a few transitions through _propose/_evaluate_acceptance,
first and second moments against closed forms (7 standard errors, Bonferroni-safe)."""
import contextlib
import io
import math
import random
import shutil

import numpy

from .probes import GenBase
from . import common, sampler_runs as sr
from .common import Violation, col


# ----------------------------------------------------------------------------- (a) composition tie

def logged_classes():
    import hmclab
    D, M = hmclab.Distributions, hmclab.MassMatrices

    class LogTarget(D._AbstractDistribution):
        def __init__(self, inner, glog):
            self.inner, self.glog, self.dimensions = inner, glog, inner.dimensions
            self.log = []
            self.lower_bounds, self.upper_bounds = inner.lower_bounds, inner.upper_bounds

        def misfit(self, m):
            a = col(m)
            v = float(self.inner.misfit(m))
            self.log.append(("misfit", a, v))
            self.glog.append((0, a, []))
            return v

        def gradient(self, m):
            a = col(m)
            g = self.inner.gradient(m)
            self.log.append(("gradient", a, col(g)))
            self.glog.append((1, a, []))
            return g

        def corrector(self, q, p):
            self.glog.append((4, col(q), col(p)))
            return self.inner.corrector(q, p)

        def generate(self, repeat=1, rng=None):
            return self.inner.generate(repeat, rng)

        def tables(self):
            return [(a, v) for k, a, v in self.log if k == "misfit"], [(a, v) for k, a, v in self.log if k == "gradient"]

    def log_mass(base):
        class LogMass(base):
            def _setup(self, glog):
                self.glog, self.log, self.gen = glog, [], []

            def kinetic_energy(self, p):
                v = float(super().kinetic_energy(p))
                self.log.append(("kinetic_energy", col(p), v))
                self.glog.append((3, col(p), []))
                return v

            def kinetic_energy_gradient(self, p, position=None, g=None):
                out = super().kinetic_energy_gradient(p, position, g)
                self.log.append(("kinetic_energy_gradient", col(p), col(out)))
                self.glog.append((2, col(p), []))
                return out

            def generate_momentum(self):
                class Tap(GenBase):
                    def __init__(s, rng):
                        s.rng, s.z = rng, None

                    def _z(s, shape):
                        s.z = s.rng.standard_normal(shape) if hasattr(s.rng, "standard_normal") else s.rng.normal(size=shape)
                        return s.z

                    def _u(s, shape, low, high):
                        return s.rng.uniform(low, high, shape)
                tap = Tap(self.rng)
                real = self.rng
                self.rng = tap
                try:
                    mom = super().generate_momentum()
                finally:
                    self.rng = real
                self.gen.append((col(tap.z), col(mom)))
                self.glog.append((6, [], []))
                return mom

            def accept(self):
                self.glog.append((7, [], []))

            def reject(self):
                self.glog.append((8, [], []))
        return LogMass
    return LogTarget, log_mass


def momentum_law_defect(mass, d):
    """None if the momentum refresh is Gibbs for the kinetic energy of the acceptance test, else (A A^T) M^-1"""
    class UnitRng(GenBase):
        def __init__(self, k):
            self.k = k

        def _z(self, shape):
            z = numpy.zeros(shape if shape is not None else (d, 1))
            z.reshape(-1)[self.k] = 1.0
            return z
    saved = getattr(mass, "rng", None)
    cols, minv = [], []
    try:
        for k in range(d):
            mass.rng = UnitRng(k)
            cols.append(numpy.asarray(type(mass).__mro__[1].generate_momentum(mass), dtype=float).reshape(d))
            e = numpy.zeros((d, 1))
            e[k, 0] = 1.0
            minv.append(numpy.asarray(type(mass).__mro__[1].kinetic_energy_gradient(mass, e), dtype=float).reshape(d))
    finally:
        mass.rng = saved
    A, Minv = numpy.array(cols).T, numpy.array(minv).T
    prod = (A @ A.T) @ Minv
    return None if numpy.allclose(prod, numpy.eye(d), rtol=1e-9, atol=1e-9) else prod.round(6).tolist()


def composition_case(rnd, wd, lits):
    import hmclab
    import hmclab.Samplers as S
    from .probes import ScriptedRng, ExpProxy
    D, M = hmclab.Distributions, hmclab.MassMatrices
    LogTarget, log_mass = logged_classes()
    cfg = sr.gen_run(rnd, maxP=6, thin=1, tune=False, special=0.0)
    d = cfg["d"]
    glog = []
    mu = numpy.array([[rnd.randint(-4, 4) / 4.0] for _ in range(d)])
    inner = rnd.choice([lambda: D.Normal(mu, numpy.array([[rnd.choice([0.5, 1.0, 2.0])] for _ in range(d)])),
                        lambda: D.Laplace(mu, numpy.array([[rnd.choice([0.5, 1.0, 2.0])] for _ in range(d)])),
                        lambda: D.Normal(mu, numpy.eye(d) + 0.25 * numpy.ones((d, d)))])()
    target = LogTarget(inner, glog)
    rng = ScriptedRng(normals=[list(z) for z in cfg["zs"]], uniforms=list(cfg["us"]), factors=list(cfg.get("factors", [])))
    proxy = ExpProxy(glog=glog)
    kw = dict(initial_model=numpy.array(cfg["m0"], dtype=float).reshape(d, 1), proposals=cfg["P"], online_thinning=1, overwrite_existing_file=True,
              disable_progressbar=True)
    r = sr.RunResult()
    snaps = []
    base = S.RWMH if cfg["kind"] == "rwmh" else S.HMC

    class Snap(base):
        def _evaluate_acceptance(self_):
            before = self_.accepted_proposals
            out = super()._evaluate_acceptance()
            snaps.append({"acc_before": before, "acc_after": self_.accepted_proposals})
            return out
    smp = Snap(seed=1)
    smp.rng = rng
    if cfg["kind"] == "hmc":
        mk = rnd.choice(["unit", "diagonal", "full", "full_int"])
        if mk == "unit":
            mass = log_mass(M.Unit)(d)
        elif mk == "diagonal":
            mass = log_mass(M.Diagonal)(numpy.array([rnd.choice([0.5, 1.0, 2.0, 4.0]) for _ in range(d)]))
        elif mk == "full":
            mass = log_mass(M.Full)(numpy.eye(d) + 0.25 * numpy.ones((d, d)))
        else:
            mass = log_mass(M.Full)(2 * numpy.eye(d, dtype=int) + numpy.ones((d, d), dtype=int))      # whole numbers, integer dtype
        # hypothesis of the stationarity theorem that this tie cannot see (the momenta enter the model as observed):
        # the refresh draws A z must have covariance A A^T = M for the M of the kinetic energy used in the test
        law = momentum_law_defect(mass, d)
        if law is not None:
            cfg["mass_kind"] = mk
            return cfg, None, f"momentum law: {mk} mass matrix: generate_momentum() = A z with (A A^T) M^-1 = {law} instead of the identity (M^-1 from kinetic_energy_gradient)"
        mass._setup(glog)
        kw.update(stepsize=cfg["stepsize"], randomize_stepsize=cfg["randomize"], amount_of_steps=cfg["steps"], mass_matrix=mass, integrator=cfg["integrator"])
        cfg["mass_kind"] = mk
    else:
        kw["stepsize"] = numpy.array(cfg["stepvec"]).reshape(d, 1) if cfg["stepmode"] == "vector" else cfg["stepsize"]
    import os
    fname = os.path.join(wd, "comp.h5")
    old = S._numpy
    S._numpy = proxy
    exc = None
    try:
        with contextlib.redirect_stdout(io.StringIO()), numpy.errstate(all="ignore"):
            try:
                smp.sample(fname, target, **kw)
            except Exception as e:  # noqa
                exc = e
    finally:
        S._numpy = old
        numpy.seterr(all="warn")
    if exc is not None:
        return cfg, None, f"sample() raised {type(exc).__name__}: {exc}"
    with hmclab.Samples(fname) as s:
        arr = numpy.array(s.numpy)
    r.target, r.proxy, r.glog, r.snaps = target, proxy, glog, snaps
    r.columns = [(list(map(float, arr[:-1, j])), float(arr[-1, j])) for j in range(arr.shape[1])]
    r.cur, r.cur_x, r.acc, r.final_step = col(smp.current_model), float(smp.current_x), smp.accepted_proposals, smp.stepsize
    r.hist_a, r.hist_s = [], []
    if cfg["kind"] == "hmc":
        r.mass = mass
        r.genmom_tbl = mass.gen
    return cfg, sr.coq_case(cfg, r, lits), None


# ----------------------------------------------------------------------------- (b) moment test

LONG_STEP = {"lf": 0.6, "3s": 1.5, "4s": 2.0}


def moment_config(rnd, tier, force=None):
    import hmclab
    D, M = hmclab.Distributions, hmclab.MassMatrices
    d = 2
    tk = rnd.choice(["gaussian", "gaussian_full", "laplace", "mixture", "mixture_scalar", "truncated"])
    if force and "target" in force:
        tk = force["target"]
    mu = numpy.array([[0.5], [-1.0]])
    if tk == "gaussian":
        var = numpy.array([[1.5], [0.5]])
        target = D.Normal(mu, var)
        draw = lambda rng, n: mu + numpy.sqrt(var) * rng.normal(size=(d, n))
        mean, second = mu, var + mu ** 2
        fourth = 3 * var ** 2 + 6 * var * mu ** 2 + mu ** 4
    elif tk == "gaussian_full":
        cov = numpy.array([[1.5, 0.6], [0.6, 0.8]])
        target = D.Normal(mu, cov)
        L = numpy.linalg.cholesky(cov)
        draw = lambda rng, n: mu + L @ rng.normal(size=(d, n))
        var = numpy.diag(cov).reshape(-1, 1)
        mean, second = mu, var + mu ** 2
        fourth = 3 * var ** 2 + 6 * var * mu ** 2 + mu ** 4
    elif tk == "laplace":
        b = numpy.array([[0.8], [1.3]])
        target = D.Laplace(mu, b)
        draw = lambda rng, n: rng.laplace(loc=mu, scale=b, size=(d, n))
        var = 2 * b ** 2
        mean, second = mu, var + mu ** 2
        fourth = 24 * b ** 4 + 6 * var * mu ** 2 + mu ** 4
    elif tk in ("mixture", "mixture_scalar", "mixture_narrow"):
        m1, m2 = mu, mu + numpy.array([[2.0], [1.0]])
        w = 0.35
        if tk == "mixture_narrow":
            # components so narrow that the normalised density exceeds one: the misfit is negative around the modes
            m2 = mu + numpy.array([[0.25], [-0.125]])
            v1, v2 = numpy.array([[0.01], [0.02]]), numpy.array([[0.015], [0.01]])
            target = D.Mixture([D.Normal(m1, v1), D.Normal(m2, v2)], [w, 1 - w])
        elif tk == "mixture":
            v1, v2 = numpy.array([[0.5], [0.7]]), numpy.array([[1.0], [0.4]])
            target = D.Mixture([D.Normal(m1, v1), D.Normal(m2, v2)], [w, 1 - w])
        else:
            # isotropic components given by one number each
            v1, v2 = numpy.full((d, 1), 0.5), numpy.full((d, 1), 2.0)
            target = D.Mixture([D.Normal(m1, 0.5), D.Normal(m2, 2.0)], [w, 1 - w])

        def draw(rng, n):
            pick = rng.uniform(size=(1, n)) < w
            return numpy.where(pick, m1 + numpy.sqrt(v1) * rng.normal(size=(d, n)), m2 + numpy.sqrt(v2) * rng.normal(size=(d, n)))
        mean = w * m1 + (1 - w) * m2
        second = w * (v1 + m1 ** 2) + (1 - w) * (v2 + m2 ** 2)
        g4 = lambda m, v: 3 * v ** 2 + 6 * v * m ** 2 + m ** 4
        fourth = w * g4(m1, v1) + (1 - w) * g4(m2, v2)
    else:
        from scipy.stats import truncnorm
        lo, hi = mu - numpy.array([[1.0], [0.7]]), mu + numpy.array([[0.8], [1.5]])
        target = D.Normal(mu, numpy.ones((d, 1)), lower_bounds=lo, upper_bounds=hi)
        tn = [truncnorm((lo[i, 0] - mu[i, 0]), (hi[i, 0] - mu[i, 0]), loc=mu[i, 0], scale=1.0) for i in range(d)]
        draw = lambda rng, n: numpy.vstack([t.rvs(size=n, random_state=rng) for t in tn])
        mean = numpy.array([[t.mean()] for t in tn])
        second = numpy.array([[t.moment(2)] for t in tn])
        fourth = numpy.array([[t.moment(4)] for t in tn])
    # the density the exact starting draws come from, up to a constant (to compare with exp(-misfit))
    gl = lambda x, m, v: -0.5 * float(numpy.sum((x - m) ** 2 / v)) - 0.5 * float(numpy.sum(numpy.log(2 * numpy.pi * v)))
    if tk == "gaussian":
        logpdf = lambda x: gl(x, mu, var)
    elif tk == "gaussian_full":
        Pm = numpy.linalg.inv(cov)
        logpdf = lambda x: -0.5 * float(((x - mu).T @ Pm @ (x - mu)).item())
    elif tk == "laplace":
        logpdf = lambda x: -float(numpy.sum(numpy.abs(x - mu) / b))
    elif tk in ("mixture", "mixture_scalar", "mixture_narrow"):
        logpdf = lambda x: float(numpy.log(w * numpy.exp(gl(x, m1, v1)) + (1 - w) * numpy.exp(gl(x, m2, v2))))
    else:
        logpdf = lambda x: gl(x, mu, numpy.ones((d, 1)))
    kind = rnd.choice(["hmc", "hmc", "hmc", "rwmh"])
    cfg = {"target": tk, "kind": kind}
    if kind == "hmc":
        masses = ["unit", "diagonal"] + ([] if tk == "truncated" else ["full", "full_int"])
        cfg.update(mass=rnd.choice(masses), integrator=rnd.choice(["lf", "3s", "4s"]), randomize=rnd.random() < 0.5,
                   stepsize=rnd.choice([0.15, 0.3, 0.5]), steps=rnd.randint(2, 6))
    else:
        cfg.update(stepmode=rnd.choice(["scalar", "vector"]), stepsize=rnd.choice([0.5, 1.0]))
    if force:
        if force.get("kind") and force["kind"] != cfg["kind"]:
            cfg = {"target": tk, "kind": force["kind"]}
            if force["kind"] == "hmc":
                cfg.update(mass="diagonal", integrator="lf", randomize=False, stepsize=0.5, steps=4)
            else:
                cfg.update(stepmode="vector", stepsize=1.0)
        cfg.update({k: v for k, v in force.items() if k not in ("target", "kind")})
    cfg["_logpdf"] = logpdf
    return cfg, target, draw, mean, second, fourth


def moment_test(rnd, tier, k, force=None):
    import hmclab
    S, M = hmclab.Samplers, hmclab.MassMatrices
    cfg, target, draw, mean, second, fourth = moment_config(rnd, tier, force)
    logpdf = cfg.pop("_logpdf")
    d = 2
    n = 1500 if tier == "quick" else 6000
    transitions = cfg.pop("transitions", 3)
    rng = numpy.random.default_rng(4000 + k)
    starts = draw(rng, n)
    # the chains are started from draws of a known density: exp(-misfit) must be that density up to a constant
    x0 = starts[:, 0:1]
    worst = 0.0
    with numpy.errstate(all="ignore"):
        for j in range(1, 25):
            xj = starts[:, j:j + 1]
            dm = float(target.misfit(xj.copy())) - float(target.misfit(x0.copy()))
            dl = -(logpdf(xj) - logpdf(x0))
            worst = max(worst, abs(dm - dl) / max(1.0, abs(dl)))
    cfg["density_mismatch"] = worst
    if cfg["kind"] == "hmc":
        smp = S.HMC(seed=1)
        mass = {"unit": lambda: M.Unit(d), "diagonal": lambda: M.Diagonal(numpy.array([0.6, 1.7])), "full": lambda: M.Full(numpy.array([[1.2, 0.3], [0.3, 0.9]])),
                "full_int": lambda: M.Full(numpy.array([[2, 1], [1, 3]]))}[cfg["mass"]]()      # whole numbers, integer dtype
        mass.rng = rng
        smp.mass_matrix, smp.stepsize, smp.amount_of_steps, smp.randomize_stepsize, smp.integrator = mass, cfg["stepsize"], cfg["steps"], cfg["randomize"], cfg["integrator"]
    else:
        smp = S.RWMH(seed=1)
        smp.stepsize = numpy.array([[0.7], [1.2]]) * cfg["stepsize"] if cfg["stepmode"] == "vector" else cfg["stepsize"]
        smp._stepsize_non_scalar_part = 1.0
    smp.rng, smp.distribution, smp.dimensions, smp.autotuning, smp.accepted_proposals = rng, target, d, False, 0
    ends = numpy.empty_like(starts)
    with numpy.errstate(all="ignore"):
        for j in range(n):
            smp.current_model = starts[:, j:j + 1].copy()
            smp.current_x = target.misfit(smp.current_model)
            for _ in range(transitions):
                smp._propose()
                smp._evaluate_acceptance()
            ends[:, j] = smp.current_model[:, 0]
    numpy.seterr(all="warn")
    var1 = second - mean ** 2
    z1 = numpy.abs(ends.mean(axis=1, keepdims=True) - mean) / numpy.sqrt(var1 / n)
    z2 = numpy.abs((ends ** 2).mean(axis=1, keepdims=True) - second) / numpy.sqrt((fourth - second ** 2) / n)
    cfg["acceptance"] = smp.accepted_proposals / (n * transitions)
    cfg["z_first"], cfg["z_second"] = float(z1.max()), float(z2.max())
    # a third statistic, the misfit itself: on the target its law does not change either, and the paired difference end - start
    # is sensitive to mass moving between the modes and the tails
    with numpy.errstate(all="ignore"):
        xs = numpy.array([float(target.misfit(starts[:, j:j + 1].copy())) for j in range(n)])
        xe = numpy.array([float(target.misfit(ends[:, j:j + 1].copy())) for j in range(n)])
    numpy.seterr(all="warn")
    dx = xe - xs
    sd = float(numpy.std(dx, ddof=1))
    cfg["z_misfit"] = float(abs(dx.mean()) / (sd / math.sqrt(n))) if sd > 0 and numpy.isfinite(dx).all() else (0.0 if numpy.isfinite(dx).all() else float("inf"))
    bad = z1.max() > 7 or z2.max() > 7 or cfg["z_misfit"] > 7 or cfg["density_mismatch"] > 1e-9
    return cfg, bad


def public_api_moment_test(rnd, tier, wd, k):
    """The same moment test through the public sample() call, one short run per chain, with the exact starting draws handed over the
    way a user slices them out of an array (flat vectors, rows, columns)."""
    import os
    import hmclab
    S, D = hmclab.Samplers, hmclab.Distributions
    d = 2
    mu = numpy.array([[0.5], [-1.0]])
    var = numpy.array([[1.5], [0.5]])
    target = D.Normal(mu, var)
    n = 800 if tier == "quick" else 2400
    kind = ["rwmh", "hmc"][k % 2]
    form = ["flat", "row", "column"][(k // 2) % 3]
    g = numpy.random.default_rng(7000 + k)
    starts = mu + numpy.sqrt(var) * g.normal(size=(d, n))
    ends = numpy.empty_like(starts)
    f = os.path.join(wd, "pub.h5")
    with contextlib.redirect_stdout(io.StringIO()), numpy.errstate(all="ignore"):
        for j in range(n):
            m0 = {"flat": starts[:, j].copy(), "row": starts[:, j:j + 1].T.copy(), "column": starts[:, j:j + 1].copy()}[form]
            smp = (S.RWMH if kind == "rwmh" else S.HMC)(seed=10 * k + j)
            kw = dict(stepsize=1.0) if kind == "rwmh" else dict(stepsize=0.4, amount_of_steps=3)
            try:
                smp.sample(f, target, proposals=3, initial_model=m0, overwrite_existing_file=True, disable_progressbar=True, **kw)
            except Exception:  # noqa  (a form the sampler refuses is not the subject here)
                numpy.seterr(all="warn")
                return None, False
            ends[:, j] = numpy.asarray(smp.current_model, dtype=float).flatten()
    numpy.seterr(all="warn")
    second = var + mu ** 2
    fourth = 3 * var ** 2 + 6 * var * mu ** 2 + mu ** 4
    z1 = numpy.abs(ends.mean(axis=1, keepdims=True) - mu) / numpy.sqrt(var / n)
    z2 = numpy.abs((ends ** 2).mean(axis=1, keepdims=True) - second) / numpy.sqrt((fourth - second ** 2) / n)
    dx = numpy.array([float(target.misfit(ends[:, j:j + 1].copy())) - float(target.misfit(starts[:, j:j + 1].copy())) for j in range(n)])
    sd = float(numpy.std(dx, ddof=1))
    zm = float(abs(dx.mean()) / (sd / math.sqrt(n))) if sd > 0 else 0.0
    cfg = {"target": "gaussian", "kind": kind, "through": "sample()", "starting_model_form": form, "chains": n, "z_first": float(z1.max()), "z_second": float(z2.max()),
           "z_misfit": zm}
    return cfg, bool(z1.max() > 7 or z2.max() > 7 or zm > 7)


def run(tier, seed):
    common.setup_env()
    rnd = random.Random(seed * 7919 + 4)
    lits = sr.source_literals()
    violations, samples, seen, coq, metas = [], [], set(), [], []
    dist = {"composition_runs": 0, "hmc": 0, "rwmh": 0, "mass": {}, "moment_tests": 0, "moment_chains": 0}
    wd = common.tmpdir("c04_")
    try:
        for i in range(90 if tier == "quick" else 1200):
            cfg, case, err = composition_case(rnd, wd, lits)
            dist["composition_runs"] += 1
            dist[cfg["kind"]] += 1
            if cfg["kind"] == "hmc":
                dist["mass"][cfg["mass_kind"]] = dist["mass"].get(cfg["mass_kind"], 0) + 1
            if err:
                violations.append(Violation("momentum-law" if err.startswith("momentum law") else "transition-raised", err, {"cfg": cfg}))
                continue
            coq.append(case)
            metas.append(cfg)
            seen.add(common.case_hash(cfg))
            if i < 2:
                samples.append({k: cfg[k] for k in ("kind", "d", "P") if k in cfg})
    finally:
        shutil.rmtree(wd, ignore_errors=True)
    res, errors = sr.eval_runs("C04", coq, ["sc_check_cols", "sc_check_accept", "sc_check_trace"])
    bad = sorted({j for fl in res.values() for j in fl})
    # when the composition tie breaks: search for a failing input of the statement itself -- chains started on the
    # target, in the configurations whose tie broke (bounded and unbounded targets), must stay on it
    searched, found = set(), {}
    for j in bad:
        m = metas[j]
        key = (m["kind"], "unit" if str(m.get("mass_kind", "unit")).startswith("unit") else "diagonal", m.get("integrator", "-"))
        if key in searched or len(searched) >= 4:
            continue
        searched.add(key)
        for tk in ("truncated", "gaussian", "gaussian-long-steps", "gaussian-long-steps-randomised", "mixture_narrow-short-steps"):
            force = {"target": tk.split("-")[0], "kind": m["kind"]}
            if m["kind"] == "hmc":
                force.update(mass=key[1], integrator=key[2], stepsize=0.5, steps=5, randomize=False, transitions=12)
                if tk.endswith("short-steps"):
                    force.update(stepsize=0.05, steps=3, transitions=10)
                if tk.endswith("long-steps-randomised"):
                    force.update(stepsize={"lf": 1.4, "3s": 1.5, "4s": 2.0}.get(key[2], 1.2), steps=2, transitions=12, randomize=True)
                if tk.endswith("long-steps"):
                    # steps as long as the integrator is meant for: what a fixed-step bias needs in order to show
                    force.update(stepsize=LONG_STEP.get(key[2], 0.6), steps=2, transitions=30)
            cfgm, badm = moment_test(rnd, tier, 900 + len(searched), force)
            dist["moment_tests"] += 1
            if badm:
                found[key] = cfgm
                violations.append(Violation(f"moments-{cfgm['target']}-{cfgm['kind']}", f"chains started from exact draws of the {cfgm['target']} target leave it after a few transitions: first / second moments "
                                            f"are {cfgm['z_first']:.1f} / {cfgm['z_second']:.1f} standard errors off, the mean misfit {cfgm.get('z_misfit', 0.0):.1f} ({cfgm})", {"moment_cfg": cfgm}))
                break
    for j in bad:
        which = [ck for ck, fl in res.items() if j in fl]
        m = metas[j]
        key = (m["kind"], "unit" if str(m.get("mass_kind", "unit")).startswith("unit") else "diagonal", m.get("integrator", "-"))
        violations.append(Violation("correspondence", f"the real transition ({metas[j]['kind']}, {metas[j].get('mass_kind', '-')} mass, {metas[j].get('integrator', '-')}) is not the composition "
                                    "refresh ; trajectory ; Metropolis of the model (" + ",".join(which) + ")",
                                    {"cfg": metas[j], "no_failing_input_found": key not in found, "failing_input": found.get(key)}))
    for k, log in errors:
        violations.append(Violation("coq-error", "correspondence shard failed: " + log[-300:], {"log": log, "no_failing_input_found": True}))
    kinds = ["gaussian", "gaussian_full", "laplace", "mixture", "mixture_scalar", "truncated"]
    wd2 = common.tmpdir("c04p_")
    try:
        for k in range(4 if tier == "quick" else 12):
            cfgp, badp = public_api_moment_test(rnd, tier, wd2, k)
            dist["moment_tests"] += 1
            if badp:
                violations.append(Violation(f"moments-public-api-{cfgp['kind']}", f"chains started from exact draws of the target (handed to sample() as {cfgp['starting_model_form']} vectors) leave it after 3 proposals: "
                                            f"first / second moments are {cfgp['z_first']:.1f} / {cfgp['z_second']:.1f} standard errors off, the mean misfit {cfgp['z_misfit']:.1f} ({cfgp})", {"moment_cfg": cfgp}))
    finally:
        shutil.rmtree(wd2, ignore_errors=True)
    nm = 8 if tier == "quick" else 64
    for k in range(nm + 7):
        force = {"target": kinds[k % 8] if k % 8 < len(kinds) else "truncated"}                  # every target kind in every run
        if k >= nm + 4:
            # ... and the same long steps with the step size randomised per trajectory (the samplers' default)
            integ = ["lf", "3s", "4s"][k - nm - 4]
            force = {"target": "gaussian", "kind": "hmc", "mass": "unit", "integrator": integ, "stepsize": {"lf": 1.4, "3s": 1.5, "4s": 2.0}[integ], "steps": 2,
                     "randomize": True, "transitions": 12}
        elif k == nm + 3:
            # a target whose misfit is negative where most of its mass is, short steps to match its width
            force = {"target": "mixture_narrow", "kind": "hmc", "mass": "unit", "integrator": rnd.choice(["lf", "3s", "4s"]), "stepsize": 0.05, "steps": 3,
                     "randomize": False, "transitions": 10}
        elif k >= nm:
            # every integrator once with a fixed step as long as it is meant for, and enough transitions for a bias to build up
            integ = ["lf", "3s", "4s"][k - nm]
            force = {"target": "gaussian", "kind": "hmc", "mass": "unit", "integrator": integ, "stepsize": LONG_STEP[integ], "steps": 2, "randomize": False, "transitions": 30}
        elif k % 8 in (0, 1):
            force.update(kind="hmc", mass=["full_int", "full"][k % 2], integrator=rnd.choice(["lf", "3s", "4s"]), stepsize=0.3, steps=4, randomize=False)
        elif k % 8 == 6:
            force.update(kind="rwmh", stepmode="vector", stepsize=1.0)          # the box-truncated target under both samplers
        elif k % 8 == 7:
            force.update(kind="hmc", mass="diagonal", integrator="lf", stepsize=0.5, steps=5, randomize=False)
        cfg, badm = moment_test(rnd, tier, k, force=force)
        dist["moment_tests"] += 1
        dist["moment_chains"] += 1500 if tier == "quick" else 6000
        if badm:
            violations.append(Violation(f"moments-{cfg['target']}-{cfg['kind']}", f"chains started from exact draws of the {cfg['target']} target leave it after a few transitions: first / second moments "
                                        f"are {cfg['z_first']:.1f} / {cfg['z_second']:.1f} standard errors off, the mean misfit {cfg.get('z_misfit', 0.0):.1f}; exp(-misfit) deviates from the density of the draws by "
                                        f"{cfg['density_mismatch']:.2g} (relative, in the log) ({cfg})", {"moment_cfg": cfg}))
        if k < 2:
            samples.append({"moment_test": cfg})
    return {
        "evaluations": dist["composition_runs"] + dist["moment_tests"], "distinct_nontrivial": len(seen),
        "rule": "composition tie: complete runs of the real samplers with real Unit/Diagonal/Full masses and Normal (diag / full) / Laplace targets behind logging wrappers, "
                "scripted random numbers, all integrators; moment tests: 1500 (thorough 6000) independent chains from exact draws of Gaussian, correlated Gaussian, Laplace, "
                "mixture (per-dimension and scalar variances) and box-truncated targets, 3 transitions each (30 for the three long-step configurations, one per integrator) through _propose/_evaluate_acceptance, first and second moments vs closed forms and the paired change of the mean misfit, at 7 standard errors",
        "samples": samples, "violations": violations,
        "traces_validated_against_impl": len(coq) - len(bad),
        "coverage": {"distribution": dist, "correspondence_failures": len(bad)},
        "trusted_base": ["PARTIAL: finite-state theorems; the lift to Lebesgue measure (change of variables with |det J| = 1 from C01) is not mechanised",
                         "moment tests are supporting evidence / failing-input search (false-alarm probability < 1e-9 per comparison), never the verdict alone"],
    }


def replay(doc):
    print(doc["replay"])
    return 1
