"""C16 — step-size autotuning: autotuned sample() runs of the real samplers on scripted acceptance
histories (hash targets with NaN/inf palettes), co-executed with the Coq model, plus the statement
evaluated on the recorded histories (object attributes and file attributes), interrupted runs and
the learning-rate guard."""
import contextlib
import io
import math
import os
import random
import shutil

import numpy

from . import common, sampler_runs as sr
from .common import Violation, same_float, same_vec


def expected_update(s, a, i, cfg):
    w = (i + 1) ** (-cfg["lr"])
    a2 = 0 if math.isnan(a) else a
    s1 = s - w * (cfg["target"] - min(a2, 1))
    if s1 <= 0:
        s1 = max(s1, 1e-18)
    return s1


def near(a, b):
    """the statement is about real numbers: equality up to a few units in the last place (bit-exactness is the
    business of the co-execution with the model, which reports a broken tie as such)"""
    return same_float(a, b) or (math.isfinite(a) and math.isfinite(b) and abs(a - b) <= 1e-12 * max(1.0, abs(a), abs(b)))


def near_vec(a, b):
    a, b = list(a), list(b)
    return len(a) == len(b) and all(near(x, y) for x, y in zip(a, b))


def spec_oracle(cfg, r, completed):
    out = []
    if r.exception is not None:
        return [("sampling-raised", f"sample() raised {type(r.exception).__name__}: {r.exception}")]
    ha, hs = r.hist_a, r.hist_s
    if len(ha) != completed or len(hs) != completed:
        out.append(("history-short", f"{completed} proposals completed but histories hold {len(hs)} step sizes / {len(ha)} acceptance rates"))
    # the statement: the step size stays finite and (strictly) positive -- checked on what was recorded, without tolerance
    steps_seen = [float(v) for v in hs] + ([float(numpy.asarray(r.final_step).flatten()[0])] if r.final_step is not None else [])
    for i, v in enumerate(steps_seen):
        if not (v > 0 and math.isfinite(v)):
            out.append(("step-not-positive", f"step size {'recorded for proposal ' + str(i) if i < len(hs) else 'left on the sampler after the run'} is {v}"))
            break
    exps = [v for _, v in r.proxy.exp_log]
    s0 = 1.0 if (cfg["kind"] == "rwmh" and cfg["stepmode"] == "vector") else cfg["stepsize"]
    s = s0
    for i in range(min(len(hs), len(exps))):
        if not near(hs[i], s):
            out.append(("recorded-step", f"recorded step size {i} is {hs[i]}, the step that generated proposal {i} is {s}"))
            break
        if not same_float(ha[i], exps[i]):
            out.append(("recorded-rate", f"recorded acceptance rate {i} is {ha[i]}, computed was {exps[i]}"))
            break
        s = expected_update(s, exps[i], i, cfg)
        if not (s > 0 and math.isfinite(s)):
            out.append(("nonpositive", f"step size after proposal {i} is {s}"))
            break
    # the step sizes actually used: RWMH proposals are current + step*nsp*z
    if cfg["kind"] == "rwmh":
        s = s0
        nsp = numpy.array(cfg["stepvec"]).reshape(-1, 1) if cfg["stepmode"] == "vector" else 1.0
        reqs, vals = r.rng.requests, getattr(r.rng, "values", [])
        for i, sn in enumerate(r.snaps[:completed]):
            lo_, hi_ = (r.snaps[i - 1].get("req_end", 0) if i else 0), sn.get("req_end", 0)
            zj = [j for j in range(lo_, min(hi_, len(vals))) if reqs[j][0] == "normal"]
            z = (numpy.asarray(vals[zj[0]], dtype=float) if zj else numpy.array(cfg["zs"][i])).reshape(-1, 1)      # the normal draw of this proposal
            want = common.col(numpy.array(sn["cur_before"]).reshape(-1, 1) + s * nsp * z)
            if not near_vec(want, sn["proposed"]):
                out.append(("update-equation", f"proposal {i} was not generated with the step size the update equation gives ({s})"))
                break
            s = expected_update(s, exps[i], i, cfg)
    if completed == len(exps) and completed > 0:
        s = s0
        for i in range(completed):
            s = expected_update(s, exps[i], i, cfg)
        if not near(float(numpy.asarray(r.final_step).flatten()[0]), s):
            out.append(("update-equation", f"final step size {r.final_step} differs from the update equation's {s}"))
    return out[:3]


def lr_guard_cases(wd):
    import hmclab
    from .probes import FnTarget
    out = []
    n = 0
    for cls in (hmclab.Samplers.RWMH, hmclab.Samplers.HMC):
        for lr, ok in ((0.5, False), (0.3, False), (1.0 + 2 ** -40, False), (0.0, False), (-1.0, False), (2.0, False),
                       (float("nan"), False), (float("inf"), False), (float("-inf"), False),          # not numbers in (0.5, 1] either
                       (0.5 + 2 ** -40, True), (1.0, True), (0.75, True)):
            n += 1
            t = FnTarget(1, seed=5, special_rate=0.0)
            raised = None
            with contextlib.redirect_stdout(io.StringIO()), numpy.errstate(all="ignore"):
                try:
                    cls(seed=1).sample(os.path.join(wd, "lr.h5"), t, proposals=2, autotuning=True, learning_rate=lr,
                                       overwrite_existing_file=True, disable_progressbar=True)
                except AssertionError as e:
                    raised = e
                except Exception as e:  # noqa
                    raised = e
            numpy.seterr(all="warn")
            if ok and raised is not None:
                out.append(("lr-guard", f"{cls.__name__}: learning rate {lr} in (0.5, 1] was refused: {raised!r}"))
            if not ok and raised is None:
                out.append(("lr-guard", f"{cls.__name__}: learning rate {lr} outside (0.5, 1] was accepted"))
    return out, n


def run(tier, seed):
    rnd = random.Random(seed * 7919 + 16)
    n = 140 if tier == "quick" else 2000
    wd = common.tmpdir("c16_")
    lits = sr.source_literals()
    cases, coq, violations, samples, seen = [], [], [], [], set()
    dist = {"rwmh": 0, "hmc": 0, "clamped_runs": 0, "nan_rates": 0, "inf_rates": 0, "interrupted": 0, "sampler_reused": 0}
    try:
        for i in range(n):
            cfg = sr.gen_run(rnd, tune=True, maxP=(12 if tier == "quick" else 40),
                             special=rnd.choice([0.0, 0.2, 0.4]))
            interrupted = (i % 7 == 3) and cfg["P"] >= 3
            hook = None
            completed = cfg["P"]
            if interrupted:
                stop_at = rnd.choice([0, rnd.randint(0, cfg["P"] - 1), rnd.randint(1, cfg["P"] - 1)])     # interrupt inside proposal `stop_at` (0 included: nothing completed)

                def hook(sampler, target, rr, stop_at=stop_at):
                    def fault(kind, k):
                        if len(rr.snaps) == stop_at and kind == "misfit" and k > 0:
                            target.fault = None
                            raise KeyboardInterrupt
                    target.fault = fault
                completed = stop_at
                dist["interrupted"] += 1
            if not interrupted and i % 4 == 1:
                # the sampler object has made an autotuned run before: step size, histories and weights start afresh
                # ... with another learning rate, and sometimes the same number of proposals
                cfg0 = dict(cfg, P=(cfg["P"] if rnd.random() < 0.5 else cfg["t"] * rnd.randint(2, 4)), stepsize=cfg["stepsize"] * 2.0,
                            lr=rnd.choice([v for v in (0.55, 0.75, 1.0) if abs(v - cfg["lr"]) > 1e-9]))
                r0 = sr.run_impl(cfg0, wd, tag="first")
                n0 = len(r0.snaps)
                r = sr.run_impl(cfg, wd, reuse=r0)
                r.snaps = r.snaps[n0:]
                cfg["after_earlier_run_of_the_same_sampler"] = cfg0["P"]
                dist["sampler_reused"] += 1
            else:
                r = sr.run_impl(cfg, wd, sampler_hook=hook)
            cases.append((cfg, r, interrupted))
            for key, what in spec_oracle(cfg, r, completed):
                violations.append(Violation(key + ("-interrupted" if interrupted and key == "history-short" else ""),
                                            what, {"case": cfg, "interrupted_at": completed if interrupted else None}))
            coq.append(sr.coq_case(cfg, r, lits) if (r.exception is None and not interrupted) else None)
            dist[cfg["kind"]] += 1
            rates = [v for _, v in r.proxy.exp_log]
            dist["nan_rates"] += sum(1 for v in rates if math.isnan(v))
            dist["inf_rates"] += sum(1 for v in rates if math.isinf(v))
            clamp = any(same_float(v, 1e-18) for v in r.hist_s)
            dist["clamped_runs"] += int(clamp)
            if any(math.isnan(v) or math.isinf(v) for v in rates) and any(0 < v < 1 for v in rates):
                seen.add(common.case_hash(cfg))
            if i < 2:
                samples.append({"case": {k: cfg[k] for k in ("kind", "P", "lr", "target", "stepsize")},
                                "acceptance_rates": rates, "stepsizes": r.hist_s})
        lrv, lrn = lr_guard_cases(wd)
        for key, what in lrv:
            violations.append(Violation(key, what, {"lr_guard": what}))
    finally:
        shutil.rmtree(wd, ignore_errors=True)
    idx = [i for i, c in enumerate(coq) if c is not None]
    res, errors = sr.eval_runs("C16", [coq[i] for i in idx], ["sc_check_tune", "sc_check_trace", "sc_check_cols"])
    bad = sorted({idx[j] for fl in res.values() for j in fl})
    flagged = {common.case_hash(v.replay.get("case")) for v in violations if "case" in v.replay}
    for i in bad:
        cfg = cases[i][0]
        if common.case_hash(cfg) in flagged:
            continue
        which = [ck for ck, fl in res.items() if idx.index(i) in fl]
        violations.append(Violation("correspondence", "autotune model and implementation disagree (" + ",".join(which) + ")",
                                    {"case": cfg, "correspondence": which, "no_failing_input_found": True}))
    for k, log in errors:
        violations.append(Violation("coq-error", "correspondence shard failed: " + log[-300:], {"log": log, "no_failing_input_found": True}))
    return {
        "evaluations": n + lrn, "distinct_nontrivial": len(seen),
        "rule": "seeded autotuned sample() runs (RWMH scalar/per-dimension, HMC lf/3s/4s) on hash targets producing acceptance "
                "probabilities incl. NaN, inf, 0; every 7th run is interrupted inside a proposal >= 1, every 4th runs on a sampler object that already made an autotuned run; 18 learning-rate guard calls; "
                "non-trivial = history containing a NaN/inf rate and a rate strictly inside (0,1)",
        "samples": samples, "violations": violations,
        "traces_validated_against_impl": len(idx) - len(bad),
        "coverage": {"distribution": dist, "correspondence_failures": len(bad)},
        "trusted_base": ["Python float ** for the schedule weight (tabulated with the same expression)",
                         "numpy.exp as tabulated function graph"],
    }


def replay(doc):
    rp = doc["replay"]
    if "case" not in rp:
        print(rp)
        return 1
    cfg = rp["case"]
    wd = common.tmpdir("c16r_")
    try:
        r = sr.run_impl(cfg, wd)
        probs = spec_oracle(cfg, r, cfg["P"])
        res, errors = sr.eval_runs("C16r", [sr.coq_case(cfg, r, sr.source_literals())], ["sc_check_tune", "sc_check_trace"])
    finally:
        shutil.rmtree(wd, ignore_errors=True)
    print("spec oracle:", probs or "ok")
    print("correspondence failures:", {k: v for k, v in res.items() if v}, errors[:1])
    return 1 if (probs or any(res.values()) or errors) else 0
