"""Shared machinery of the /verif checks: environment, float transport, Coq runs, evidence."""
import os
import sys
import re
import json
import math
import time
import glob
import hashlib
import shutil
import struct
import subprocess
import tempfile

VERIF = os.path.dirname(os.path.dirname(os.path.abspath(__file__)))
REPO = os.environ.get("HMCLAB_REPO", "/repo")
COQ = os.path.join(VERIF, "coq")
GEN = os.environ.get("HMCLAB_GEN") or os.path.join(COQ, "gen")      # (override: parallel runs against scratch copies of the repository)
GUARD = "HMCLAB_VERIF"


def setup_env():
    """Make `import hmclab` resolve to /repo's working tree, deterministically."""
    os.environ[GUARD] = "1"
    os.environ.setdefault("MPLBACKEND", "Agg")
    os.environ["PYTHONDONTWRITEBYTECODE"] = "1"
    sys.dont_write_bytecode = True
    if REPO in sys.path:
        sys.path.remove(REPO)
    sys.path.insert(0, REPO)
    import warnings

    warnings.filterwarnings("ignore")


# ----------------------------------------------------------------------------- floats


def fhex(x):
    """A Python float as an exact Coq primitive-float term (string)."""
    x = float(x)
    if math.isnan(x):
        return "nan"
    if math.isinf(x):
        return "infinity" if x > 0 else "neg_infinity"
    h = x.hex()  # e.g. -0x1.8p+1
    if h.startswith("-"):
        return "(-" + h[1:] + ")%float"
    return "(" + h + ")%float"


def fvec(xs):
    return "[" + "; ".join(fhex(v) for v in xs) + "]"


def fvecs(vs):
    return "[" + "; ".join(fvec(v) for v in vs) + "]"


def cbool(b):
    return "true" if b else "false"


def copt(x, f=fhex):
    return "None" if x is None else "(Some " + f(x) + ")"


def col(a):
    """numpy column/array -> list of python floats"""
    import numpy

    return [float(v) for v in numpy.asarray(a, dtype=float).flatten()]


def fbits(x):
    return struct.pack("<d", float(x))


def same_float(a, b):
    """IEEE equality with NaN == NaN, ignoring the sign of zero."""
    a = float(a)
    b = float(b)
    if math.isnan(a) or math.isnan(b):
        return math.isnan(a) and math.isnan(b)
    return a == b


def same_vec(a, b):
    a = list(a)
    b = list(b)
    return len(a) == len(b) and all(same_float(x, y) for x, y in zip(a, b))


# ----------------------------------------------------------------------------- coq


def coq_args():
    return ["-Q", os.path.join(COQ, "theories"), "HV", "-Q", GEN, "HVgen", "-w",
            "-notation-overridden,-deprecated-hint-without-locality,-ambiguous-paths"]


def ensure_built(clean=False, timeout=3000):
    """(Re)build the Coq development (full .vo build). Returns (ok, log)."""
    os.makedirs(GEN, exist_ok=True)
    if not os.path.exists(os.path.join(COQ, "Makefile")) or clean:
        subprocess.run(["coq_makefile", "-f", "_CoqProject", "-o", "Makefile"], cwd=COQ,
                       capture_output=True, text=True)
    if clean:
        subprocess.run(["make", "clean"], cwd=COQ, capture_output=True, text=True)
    p = subprocess.run(["timeout", str(timeout), "make", "-j16"], cwd=COQ,
                       capture_output=True, text=True)
    return p.returncode == 0, (p.stdout + p.stderr)[-4000:]


def run_coq_file(path, timeout=600):
    """coqc a generated file; returns (returncode, stdout+stderr)."""
    out = path[:-2] + ".vo"
    p = subprocess.run(["timeout", str(timeout), "coqc"] + coq_args() + ["-o", out, path],
                       capture_output=True, text=True, cwd=GEN)
    for ext in (".vo", ".glob", ".vok", ".vos"):
        try:
            os.remove(path[:-2] + ext)
        except OSError:
            pass
    try:
        os.remove(os.path.join(os.path.dirname(path), "." + os.path.basename(path)[:-2] + ".aux"))
    except OSError:
        pass
    return p.returncode, p.stdout + p.stderr


FAIL_RE = re.compile(r"=\s*\[(.*?)\]\s*:\s*list nat", re.S)


def eval_cases(pid, header, cases, check_fn, shard=300, timeout=900, keep=False):
    """Evaluate `check_fn : case -> bool` on Coq terms `cases` (list of strings)."""
    res, errors = eval_cases_multi(pid, header, cases, [check_fn], shard, timeout, keep)
    return res[check_fn], errors


def eval_cases_multi(pid, header, cases, check_fns, shard=300, timeout=900, keep=False):
    """Evaluate several `case -> bool` functions on the same Coq terms.

    Writes shards gen/cases_<pid>_<k>.v of the form
        <header>
        Definition cases := [c0; c1; ...].
        Eval vm_compute in (failing f1 cases).  Eval vm_compute in (failing f2 cases). ...
    runs them in parallel (16 at a time) and returns ({fn: failing_indices}, errors)."""
    os.makedirs(GEN, exist_ok=True)
    files = []
    for k in range(0, len(cases), shard):
        path = os.path.join(GEN, f"cases_{pid}_{k // shard}.v")
        with open(path, "w") as f:
            f.write(header + "\n")
            f.write("Definition cases := [\n" + ";\n".join(cases[k:k + shard]) + "\n].\n")
            for fn in check_fns:
                f.write(f"Eval vm_compute in (failing {fn} cases).\n")
        files.append((k, path))
    failing = {fn: [] for fn in check_fns}
    errors = []
    pending = list(files)
    running = []

    def finish(k, path, p):
        out, _ = p.communicate()
        ms = FAIL_RE.findall(out)
        if p.returncode != 0 or len(ms) != len(check_fns):
            errors.append((k, out[-3000:]))
            return
        for fn, body in zip(check_fns, ms):
            for tok in body.split(";"):
                tok = tok.strip().replace("%nat", "")
                if tok:
                    failing[fn].append(k + int(tok))
        if not keep:
            for ext in (".v", ".vo", ".glob", ".vok", ".vos"):
                try:
                    os.remove(path[:-2] + ext)
                except OSError:
                    pass
            try:
                os.remove(os.path.join(GEN, "." + os.path.basename(path)[:-2] + ".aux"))
            except OSError:
                pass

    while pending or running:
        while pending and len(running) < 16:
            k, path = pending.pop(0)
            out = path[:-2] + ".vo"
            running.append((k, path, subprocess.Popen(
                ["timeout", str(timeout), "coqc"] + coq_args() + ["-o", out, path],
                stdout=subprocess.PIPE, stderr=subprocess.STDOUT, text=True, cwd=GEN)))
        k, path, p = running.pop(0)
        finish(k, path, p)
    for fn in failing:
        failing[fn].sort()
    return failing, errors


FORBIDDEN = re.compile(r"\b(Admitted|admit|Axiom|Axioms|Parameter|Parameters|Conjecture|Hypothesis|Variable|Variables|Hypotheses)\b|Unset Guard|bypass_check|type-in-type|impredicative-set|Admit Obligations")

STDLIB_AXIOMS = {
    "ClassicalDedekindReals.sig_forall_dec": "Coq.Reals (standard library real-number axiom)",
    "ClassicalDedekindReals.sig_not_dec": "Coq.Reals (standard library real-number axiom)",
    "FunctionalExtensionality.functional_extensionality_dep": "Coq.Logic.FunctionalExtensionality",
    "Classical_Prop.classic": "Coq.Logic.Classical_Prop (excluded middle)",
    "ProofIrrelevance.proof_irrelevance": "Coq.Logic.ProofIrrelevance",
    "Eqdep.Eq_rect_eq.eq_rect_eq": "Coq.Logic.Eqdep",
    "JMeq.JMeq_eq": "Coq.Logic.JMeq",
}


def scan_forbidden():
    """Look for Admitted / admit / Axiom / Parameter ... outside sections in the development.
    `Variable`/`Hypothesis` are allowed inside a Section only (checked by nesting)."""
    bad = []
    for path in sorted(glob.glob(os.path.join(COQ, "theories", "**", "*.v"), recursive=True)):
        depth = 0
        text = open(path).read()
        text = re.sub(r"\(\*.*?\*\)", lambda m: "\n" * m.group(0).count("\n"), text, flags=re.S)
        for ln, line in enumerate(text.split("\n"), 1):
            if re.match(r"\s*(Section|Module)\s+\w+", line) and ":=" not in line:
                depth += 1
            if re.match(r"\s*End\s+\w+\s*\.", line):
                depth -= 1
            for m in FORBIDDEN.finditer(line):
                w = m.group(0)
                if w in ("Hypothesis", "Variable", "Variables", "Hypotheses") and depth > 0:
                    continue
                if w in ("Parameter", "Parameters") and False:
                    continue
                bad.append(f"{os.path.relpath(path, COQ)}:{ln}: {w}")
    return bad


def check_props(pid, timeout=900):
    """Compile Props/<pid>.v (and Props/<pid>_*.v) afresh and collect every `Print Assumptions` block.

    Returns dict(obligations, discharged, axioms (sorted list), log, ok, theorems)."""
    files = [os.path.join(COQ, "theories", "Props", f"{pid}.v")] + sorted(glob.glob(os.path.join(COQ, "theories", "Props", f"{pid}_*.v")))
    res = dict(obligations=0, discharged=0, axioms=[], theorems=[], ok=True, log="", unexpected=[])
    axioms = set()
    for src in files:
        text = open(src).read()
        names = re.findall(r"^\s*Print Assumptions\s+([\w'.]+)\s*\.", text, flags=re.M)
        os.makedirs(os.path.join(GEN, "props"), exist_ok=True)
        out = os.path.join(GEN, "props", os.path.basename(src)[:-2] + ".vo")
        p = subprocess.run(["timeout", str(timeout), "coqc"] + coq_args() + ["-o", out, src],
                           capture_output=True, text=True, cwd=COQ)
        for ext in (".vo", ".glob", ".vok", ".vos"):
            try:
                os.remove(out[:-3] + ext)
            except OSError:
                pass
        res["obligations"] += len(names)
        res["theorems"] += names
        res["log"] += (p.stdout + p.stderr)[-2000:]
        if p.returncode != 0:
            res["ok"] = False
            continue
        blocks = re.split(r"(?=^Closed under the global context|^Axioms:)", p.stdout, flags=re.M)
        blocks = [b for b in blocks if b.startswith("Closed under") or b.startswith("Axioms:")]
        for b in blocks:
            if b.startswith("Axioms:"):
                for m in re.finditer(r"^([A-Za-z_][\w.']*)\s*:", b, flags=re.M):
                    if m.group(1) != "Axioms":
                        axioms.add(m.group(1))
        if len(blocks) != len(names) or not names:
            res["ok"] = False
        else:
            res["discharged"] += len(blocks)
    unexpected = sorted(a for a in axioms if a not in STDLIB_AXIOMS and not a.startswith("Uint63.")
                        and not a.startswith("PrimFloat.") and not a.startswith("PrimInt63.")
                        and not a.startswith("FloatAxioms.") and not a.startswith("FloatOps."))
    res["axioms"] = sorted(axioms)
    res["unexpected"] = unexpected
    if unexpected:
        res["ok"] = False
    if not res["ok"]:
        res["discharged"] = 0
    res["log"] = res["log"][-3000:]
    return res


# ----------------------------------------------------------------------------- results


class Violation:
    def __init__(self, key, what, replay):
        self.key = key          # classification key (matched against KNOWN_FINDINGS.txt)
        self.what = what        # one line
        self.replay = replay    # JSON-able dict sufficient to re-run the failing input


def load_known_findings():
    path = os.path.join(VERIF, "KNOWN_FINDINGS.txt")
    findings = {}
    if os.path.exists(path):
        for line in open(path):
            line = line.strip()
            if not line.startswith("finding:"):
                continue
            m = re.search(r"property=(\w+)\s+key=(\S+)\s*(.*)", line)
            if m:
                findings.setdefault(m.group(1), {})[m.group(2)] = m.group(3)
    return findings


def case_hash(obj):
    return hashlib.sha256(json.dumps(obj, sort_keys=True, default=str).encode()).hexdigest()[:16]


def tmpdir(prefix):
    base = os.path.join(VERIF, ".work")
    os.makedirs(base, exist_ok=True)
    return tempfile.mkdtemp(prefix=prefix, dir=base)


class TimeLimit(Exception):
    pass


class time_limit:
    """with time_limit(seconds): ... raises TimeLimit in the main thread when the block takes longer (SIGALRM)."""

    def __init__(self, seconds):
        self.seconds = seconds

    def __enter__(self):
        import signal

        def handler(sig, frm):
            raise TimeLimit()
        self.old = signal.signal(signal.SIGALRM, handler)
        signal.alarm(self.seconds)
        return self

    def __exit__(self, *a):
        import signal
        signal.alarm(0)
        signal.signal(signal.SIGALRM, self.old)
        return False


_SPELL = {"n": 0}


def spell_bool(b):
    """The same truth value in the spellings callers use: the literal, a NumPy bool (the result of a computed condition), 0 / 1."""
    import numpy
    _SPELL["n"] += 1
    k = _SPELL["n"] % 3
    return [bool(b), numpy.bool_(b), int(bool(b))][k]


def spell_int(n):
    """An integer as a Python int or as a NumPy integer (an element of an array, the result of Generator.integers)."""
    import numpy
    _SPELL["n"] += 1
    return [int(n), numpy.int64(n), int(n)][_SPELL["n"] % 3]
