"""C10 — Samples container: operation sequences from a grammar on real hmclab.Samples objects (both
back ends, scripted wall clock), co-executed step by step with the Coq container model, plus the
round-trip / burn-in / refusal / combine statement evaluated directly on the files."""
import contextlib
import io
import math
import os
import random
import shutil
import struct

import numpy

from . import common
from .common import Violation

HEADER = """From Coq Require Import List Bool ZArith.
From HV Require Import FloatIO SamplesFile C10Corr.
Import ListNotations.
"""

SPECIALS = [float("nan"), -0.0, float("inf"), float("-inf"), 5e-324, 1e308, -1.5]


class Clock:
    def __init__(self, ticks):
        self.ticks = list(ticks)
        self.reads = 0

    def __call__(self):
        self.reads += 1
        if self.ticks:
            k = self.ticks.pop(0)
        else:
            k = None
        return float("nan") if k is None else k / 1024.0


def gen_case(rnd, tier, long=False):
    be = rnd.choice(["h5", "npy"])
    h = rnd.randint(1, 5)
    nops = rnd.randint(0, 25 if tier == "quick" else 80)
    ops = []
    ncol = 0
    pat = rnd.choice(["fast", "slow", "alternating", "nonmonotone", "nan", "mixed"])
    if long:
        # a long chain written quickly: the flush interval keeps doubling (2, 4, ..., 1024, 2048)
        h, nops, pat = 1, 2300, "fast"
    for _ in range(nops):
        x = rnd.random()
        if x < (0.8 if not long else 0.995):
            ops.append(("append", ncol))
            ncol += 1
        elif x < 0.9:
            ops.append(("flush",))
        else:
            ops.append(("attr", rnd.randint(0, 3), rnd.randint(-5, 5)))
    # clock script: two reads per trigger at most; generate plenty
    ticks, now = [], rnd.randint(0, 5000)
    for k in range(2 * nops + 4):
        if pat == "fast":
            now += rnd.randint(0, 200)
        elif pat == "slow":
            now += rnd.randint(5000, 30000)
        elif pat == "alternating":
            now += rnd.choice([3, 20000]) if (k // 2) % 2 else rnd.choice([1, 11000])
        elif pat == "nonmonotone":
            now += rnd.randint(-20000, 20000)
        elif pat == "nan":
            now += rnd.randint(0, 3000)
        else:
            now += rnd.choice([0, 5, 1024, 1023, 10240, 10241, 50000, -7])
        ticks.append(None if (pat in ("nan", "mixed") and rnd.random() < 0.15) else now)
    # column payloads: unique, some with special values (NaN payload columns matter for combine)
    cols = []
    for i in range(ncol):
        c = [float(i * 8 + r) + 0.25 for r in range(h)]
        if rnd.random() < 0.25:
            c[rnd.randrange(h)] = rnd.choice(SPECIALS)
            c[0] = float(i * 8) + 0.25 if h > 1 else c[0]
        cols.append(c)
    # make sure all columns are pairwise distinct as bytes
    seen = set()
    for i, c in enumerate(cols):
        while col_bytes(c) in seen:
            c[-1] = float(i) + 1000.5
        seen.add(col_bytes(c))
    n = ncol
    queries = []
    for b in sorted({0, 1, max(n - 1, 0), n, n + 1, rnd.randint(0, n + 1)}):
        lo = rnd.randint(0, max(n, 1))
        hi = rnd.randint(lo, max(n, 1) + 1)
        queries.append((b, lo, hi))
    # the caller fills one work column in place and appends it every time (the container must keep the values, not the array)
    return {"be": be, "h": h, "ops": ops, "ticks": ticks, "cols": cols, "queries": queries, "pattern": pat, "reuse_column": rnd.random() < 0.35}


def col_bytes(c):
    return b"".join(struct.pack("<d", v) for v in c)


def run_impl(c, wd, tag="f"):
    import sys
    import hmclab
    SM = sys.modules["hmclab.Samples"]

    fname = os.path.join(wd, f"{tag}.{c['be']}")
    for f in (fname, fname + ".pkl"):
        if os.path.exists(f):
            os.remove(f)
    clock = Clock(c["ticks"])
    old = SM._time
    SM._time = clock
    obs = []
    err = None
    try:
        with contextlib.redirect_stdout(io.StringIO()):
            s = SM.Samples(fname, mode="w", overwrite=True)
            work = numpy.zeros((c["h"], 1))
            for op in c["ops"]:
                if op[0] == "append" and c.get("reuse_column"):
                    work[:, 0] = c["cols"][op[1]]
                    s.append(work)
                elif op[0] == "append":
                    s.append(numpy.array(c["cols"][op[1]], dtype=float).reshape(-1, 1))
                elif op[0] == "flush":
                    s.flush_buffer()
                else:
                    s.write_attribute(f"k{op[1]}", op[2])
                obs.append((len(s._buffer), int(s._buffer_interval), int(s.read_attribute("write_index"))))
            s.close()
            s.close()
    except BaseException as e:  # noqa
        err = e
    finally:
        SM._time = old
    ids = {col_bytes(col): i for i, col in enumerate(c["cols"])}

    def to_ids(arr):
        arr = numpy.asarray(arr, dtype=float)
        if arr.ndim == 1:
            arr = arr.reshape(-1, 1)
        return [ids.get(arr[:, j].astype("<f8").tobytes(), 9999) for j in range(arr.shape[1])]

    out = {"obs": obs, "err": err, "clock_reads": clock.reads, "file": None, "queries": [], "accessors": []}
    n = sum(1 for op in c["ops"] if op[0] == "append")
    with contextlib.redirect_stdout(io.StringIO()):
        try:
            with hmclab.Samples(fname) as r:
                out["file"] = to_ids(r.numpy)
                out["write_index"] = int(r.read_attribute("write_index"))
        except BaseException as e:  # noqa
            out["file"] = []
            out["open_error"] = repr(e)
        for (b, lo, hi) in c["queries"]:
            try:
                with hmclab.Samples(fname, burn_in=b) as r:
                    got = to_ids(r[:, lo:hi])
                    full = numpy.array(r.numpy)
                    try:
                        single = to_ids(numpy.array(r[:, 0]).reshape(-1, 1)) if full.shape[1] else None
                    except IndexError as e:
                        single = [f"IndexError: {e}"]
                    # arbitrary index keys (negative bounds, steps, integers): numpy semantics on the burnt-in array
                    bad_keys = []
                    nn = full.shape[1]
                    keys = [(slice(None), slice(-1, None)), (slice(None), slice(None, -1)), (0, slice(-3, -1)), (slice(None), -1),
                            (slice(None), slice(None, None, 2)), (-1, slice(None)), (slice(None), slice(1, None)), (slice(0, 1), slice(-2, None))]
                    for key in keys:
                        try:
                            want_k = full[key]
                        except IndexError:
                            continue
                        try:
                            got_k = numpy.asarray(r[key])
                        except Exception as e:  # noqa
                            bad_keys.append((repr(key), f"raised {type(e).__name__}"))
                            continue
                        if got_k.shape != numpy.asarray(want_k).shape or not numpy.array_equal(got_k, want_k, equal_nan=True):
                            bad_keys.append((repr(key), f"shape {got_k.shape} vs {numpy.asarray(want_k).shape}"))
                    acc = {"bad_keys": bad_keys, "numpy": to_ids(full),
                           "samples_ok": numpy.array_equal(numpy.array(r.samples), full[:-1, :], equal_nan=True),
                           "misfits_ok": numpy.array_equal(numpy.array(r.misfits).flatten(), full[-1, :].flatten(), equal_nan=True),
                           "single": single}
                out["queries"].append((b, lo, hi, got))
                out["accessors"].append((b, acc))
            except (ValueError, FileNotFoundError) as e:
                out["queries"].append((b, lo, hi, None))
                out["accessors"].append((b, None))
    out["fname"] = fname
    return out


def combine_case(rnd, wd):
    import hmclab
    parts, arrays, nan_ids, k = [], [], [], 0
    h = rnd.randint(2, 4)
    files = []
    for p in range(rnd.randint(1, 3)):
        be = rnd.choice(["h5", "npy"])
        fname = os.path.join(wd, f"comb{p}.{be}")
        n = rnd.randint(1, 5)
        ids = []
        with contextlib.redirect_stdout(io.StringIO()):
            try:
                s = hmclab.Samples(fname, mode="w", overwrite=True)      # (over the part file of the previous case, whatever its height)
                for _ in range(n):
                    col = numpy.array([float(k * 8 + r) for r in range(h)]).reshape(-1, 1)
                    if rnd.random() < 0.3:
                        col[rnd.randrange(h), 0] = float("nan")
                        nan_ids.append(k)
                    s.append(col)
                    arrays.append(col)
                    ids.append(k)
                    k += 1
                s.close()
            except Exception as e:  # noqa
                return parts + [ids], nan_ids, [9997, type(e).__name__]
        parts.append(ids)
        files.append(fname)
    with contextlib.redirect_stdout(io.StringIO()):
        try:
            res = hmclab.combine_samples(files)
            got = []
            for j in range(res.shape[1]):
                key = res[:, j].tobytes()
                got.append(next((i for i, a in enumerate(arrays) if a[:, 0].tobytes() == key), 9999))
        except BaseException as e:  # noqa
            got = [9998]
    return parts, nan_ids, got


def overwrite_case(rnd, wd, j):
    """A chain written over an existing samples file (overwrite=True) is that chain alone: same height or not, both back ends."""
    import hmclab
    out = []
    be = ["h5", "npy"][j % 2]
    fname = os.path.join(wd, f"over{j % 2}.{be}")
    h1 = rnd.randint(2, 4)
    h2 = h1 if rnd.random() < 0.7 else rnd.randint(2, 4)
    n1, n2 = rnd.randint(1, 6), rnd.randint(1, 6)
    try:
        with contextlib.redirect_stdout(io.StringIO()):
            for (h, n, off, ow) in ((h1, n1, 0.0, True), (h2, n2, 1000.0, True)):
                s = hmclab.Samples(fname, mode="w", overwrite=ow)
                cols = [numpy.array([off + 8.0 * c + r for r in range(h)]).reshape(-1, 1) for c in range(n)]
                for cvec in cols:
                    s.append(cvec)
                s.close()
            with hmclab.Samples(fname) as r:
                arr = numpy.array(r.numpy)
                widx = r.read_attribute("write_index") if hasattr(r, "read_attribute") else None
    except Exception as e:  # noqa
        return [(f"overwrite-raised-{be}", f"{n1} columns of height {h1}, then {n2} columns of height {h2} written over them with overwrite=True: {type(e).__name__}: {str(e)[:100]}")]
    want = numpy.hstack(cols)
    if arr.shape != want.shape or arr.tobytes() != want.tobytes():
        out.append((f"overwrite-keeps-old-columns-{be}", f"{n1} columns of height {h1}, then {n2} columns of height {h2} written over them with overwrite=True: "
                    f"the file reads back with shape {arr.shape}, expected {want.shape} (the second chain alone)"))
    elif widx is not None and int(widx) != n2:
        out.append((f"write-index-{be}", f"write_index {widx} after a chain of {n2} columns written over an existing file"))
    return out


def spec_oracle(c, o):
    out = []
    be = c["be"]
    if o["err"] is not None:
        return [("container-raised", f"operation sequence raised {o['err']!r}")]
    n = sum(1 for op in c["ops"] if op[0] == "append")
    if n > 0 and o["file"] != list(range(n)):
        out.append((f"roundtrip-{be}", f"{n} columns appended, file read back holds column ids {o['file'][:12]}"))
    if n > 0 and o.get("write_index") != n:
        out.append((f"write-index-{be}", f"write index {o.get('write_index')} after {n} appended columns"))
    for (b, lo, hi, got), (_, acc) in zip(o["queries"], o["accessors"]):
        if b >= n:
            if got is not None:
                out.append((f"burn-in-not-refused-{be}", f"burn-in {b} >= length {n} was accepted"))
            continue
        want = list(range(n))[b:][lo:hi]
        if got is None:
            out.append((f"burn-in-refused-{be}", f"burn-in {b} < length {n} was refused"))
        elif got != want:
            out.append((f"getitem-{be}", f"n={n}, burn-in {b}: samples[:, {lo}:{hi}] gives columns {got}, expected {want}"))
        if acc is not None:
            if acc["numpy"] != list(range(n))[b:]:
                out.append((f"numpy-{be}", f"n={n}, burn-in {b}: .numpy gives {acc['numpy']}"))
            if not acc["samples_ok"] or not acc["misfits_ok"]:
                out.append((f"samples-misfits-{be}", f"n={n}, burn-in {b}: .samples/.misfits are not the rows of .numpy"))
            for key, why in acc.get("bad_keys", [])[:1]:
                out.append((f"getitem-key-{be}", f"n={n}, burn-in {b}: samples[{key}] differs from the burnt-in array indexed the same way ({why})"))
            if acc["single"] is not None and acc["single"] != [b]:
                out.append((f"getitem-{be}", f"n={n}, burn-in {b}: samples[:, 0] is column {acc['single']}, expected [{b}]"))
    return out[:3]


def coq_case(c, o, comb):
    def op(o_):
        if o_[0] == "append":
            return f"Append {o_[1]}%nat"
        if o_[0] == "flush":
            return "Flush"
        return f"WriteAttr {o_[1]}%nat ({o_[2]})%Z"
    ticks = "[" + "; ".join("None" if t is None else f"Some ({t})%Z" for t in c["ticks"]) + "]"
    obs = "[" + "; ".join(f"({a}%nat, {b}%nat, ({w})%Z)" for a, b, w in o["obs"]) + "]"
    nl = lambda l: "[" + "; ".join(f"{i}%nat" for i in l) + "]"
    qs = "[" + "; ".join(f"({b}%nat, {lo}%nat, {hi}%nat, {'None' if g is None else 'Some ' + nl(g)})" for b, lo, hi, g in o["queries"]) + "]"
    parts, nan_ids, got = comb
    return ("{| t_be := %s; t_ops := [%s]; t_clock := %s;\n t_obs := %s;\n t_file := %s; t_queries := %s;\n"
            " t_parts := [%s]; t_nanids := %s; t_combined := %s |}"
            % ("HDF5" if c["be"] == "h5" else "NPY", "; ".join(op(x) for x in c["ops"]), ticks, obs, nl(o["file"]), qs,
               "; ".join(nl(p) for p in parts), nl(nan_ids), nl(got)))


def run(tier, seed):
    rnd = random.Random(seed * 7919 + 10)
    n = 260 if tier == "quick" else 4000
    wd = common.tmpdir("c10_")
    cases, coq, violations, samples, seen = [], [], [], [], set()
    dist = {"h5": 0, "npy": 0, "doubling": 0, "halving": 0, "empty": 0}
    try:
        for i in range(n):
            c = gen_case(rnd, tier, long=(i == 1))
            o = run_impl(c, wd)
            comb = combine_case(rnd, wd)
            cases.append(c)
            if i % 10 == 0:
                dist["overwrite_cases"] = dist.get("overwrite_cases", 0) + 1
                for key, what in overwrite_case(rnd, wd, i // 10):
                    violations.append(Violation(key, what, {"overwrite_case": i // 10}))
            for key, what in spec_oracle(c, o):
                violations.append(Violation(key, what, {"case": c}))
            want_comb = [i_ for p in comb[0] for i_ in p if i_ not in comb[1]]
            if comb[2] != want_comb:
                violations.append(Violation("combine", f"combine_samples of parts {comb[0]} (NaN columns {comb[1]}) returned columns {comb[2]}",
                                            {"combine": comb}))
            coq.append(coq_case(c, o, comb) if o["err"] is None else None)
            dist[c["be"]] += 1
            ivs = [b for _, b, _ in o["obs"]]
            dbl = any(b2 > b1 for b1, b2 in zip(ivs, ivs[1:]))
            hlv = any(b2 < b1 for b1, b2 in zip(ivs, ivs[1:]))
            dist["doubling"] += int(dbl)
            dist["halving"] += int(hlv)
            dist["empty"] += int(not any(op[0] == "append" for op in c["ops"]))
            if dbl or hlv:
                seen.add(common.case_hash(c))
            if i < 2:
                samples.append({"backend": c["be"], "ops": c["ops"][:12], "clock_pattern": c["pattern"], "observations": o["obs"][:12]})
    finally:
        shutil.rmtree(wd, ignore_errors=True)
    idx = [i for i, x in enumerate(coq) if x is not None]
    failing, errors = common.eval_cases("C10", HEADER, [coq[i] for i in idx], "c10_check", shard=40)
    flagged = {common.case_hash(v.replay.get("case")) for v in violations if "case" in v.replay}
    for j in failing:
        c = cases[idx[j]]
        if common.case_hash(c) in flagged:
            continue
        violations.append(Violation("correspondence", "container model and hmclab.Samples disagree on an operation sequence "
                                    "(buffer length / interval / write index after some op, file content or a read query)",
                                    {"case": c, "correspondence": "C10Corr.c10_check", "no_failing_input_found": True}))
    for k, log in errors:
        violations.append(Violation("coq-error", "correspondence shard failed: " + log[-300:], {"log": log, "no_failing_input_found": True}))
    return {
        "evaluations": n, "distinct_nontrivial": len(seen),
        "rule": "op sequences over {append, flush, write_attribute} + close, heights 1..5, six wall-clock patterns (fast, slow, alternating, "
                "non-monotone, NaN, boundary values 1023/1024/10240/10241 ms), both back ends, one chain of about 2300 columns written quickly (flush interval beyond 1024); read back with burn-ins around the chain "
                "length and random index ranges; one combine_samples case per sequence; non-trivial = buffer interval doubled or halved",
        "samples": samples, "violations": violations,
        "traces_validated_against_impl": len(idx) - len(failing),
        "coverage": {"distribution": dist, "correspondence_failures": len(failing)},
        "trusted_base": ["h5py / numpy.load / AppendNPY return the float64 bits that were stored",
                         "shape of .misfits differs between back ends ((n,1) vs (n,)); values are compared flattened"],
    }


def replay(doc):
    rp = doc["replay"]
    if "case" not in rp:
        print(rp)
        return 1
    c = rp["case"]
    c["ops"] = [tuple(x) for x in c["ops"]]
    c["queries"] = [tuple(x) for x in c["queries"]]
    wd = common.tmpdir("c10r_")
    try:
        o = run_impl(c, wd)
        probs = spec_oracle(c, o)
    finally:
        shutil.rmtree(wd, ignore_errors=True)
    print("spec oracle:", probs or "ok")
    return 1 if probs else 0
