"""Generator of real hmclab distribution objects together with their Coq `dist` terms (Model/Dist.v),
and the interval-arithmetic evaluator used by the closed-form correspondence checks (C05, C13, C14)."""
import math
import os
import re
import subprocess
from fractions import Fraction

import numpy

from . import common

HEADER = """From Coq Require Import Reals List.
From Interval Require Import Tactic.
From HV Require Import Dist DistExtra.
Import ListNotations.
Open Scope R_scope.
Ltac crunch := cbv -[Rplus Rminus Rmult Rdiv Ropp Rinv Rabs exp ln sqrt IZR Rle Rlt Rpower PI].
"""


def q(x):
    """exact rational Coq term of a Python float"""
    f = Fraction(float(x))
    n, d = f.numerator, f.denominator
    if d == 1:
        return f"({n})" if n < 0 else f"{n}"
    return f"(({n}) / {d})" if n < 0 else f"({n} / {d})"


def ql(xs):
    return "[" + "; ".join(q(v) for v in xs) + "]"


def qm(rows):
    return "[" + "; ".join(ql(r) for r in rows) + "]"


def dy(rnd, lo=-3.0, hi=3.0, bits=3):
    s = 1 << bits
    return rnd.randint(int(lo * s), int(hi * s)) / s


def pos(rnd, lo=0.25, hi=4.0, bits=2):
    s = 1 << bits
    return rnd.randint(int(lo * s), int(hi * s)) / s


class Node:
    """A real distribution object, its Coq term, its dimension and an interior evaluation domain."""

    def __init__(self, obj, term, dim, lo, hi, desc, kinks=None, positive=False):
        self.obj, self.term, self.dim, self.lo, self.hi, self.desc = obj, term, dim, lo, hi, desc
        self.kinks = kinks or [[] for _ in range(dim)]
        self.positive = positive


def col(v):
    return numpy.array(v, dtype=float).reshape(-1, 1)


def leaf(rnd, d, D, allow=("normal_scalar", "normal_vec", "normal_full", "laplace", "uniform", "std1d", "himmelblau"),
         normalizable=False, bounds_ok=True):
    kinds = [k for k in allow if not (k == "std1d" and d != 1) and not (k == "himmelblau" and d != 2)]
    if normalizable:
        kinds = [k for k in kinds if k in ("normal_scalar", "normal_vec", "normal_full", "laplace")]
    k = rnd.choice(kinds)
    lo, hi = [-4.0] * d, [4.0] * d
    blo = bhi = None
    if bounds_ok and k not in ("uniform",) and rnd.random() < 0.3:
        blo = [dy(rnd, -4, -2) for _ in range(d)]
        bhi = [dy(rnd, 2, 4) for _ in range(d)]
        lo, hi = blo, bhi
    kw = {} if blo is None else {"lower_bounds": col(blo), "upper_bounds": col(bhi)}
    if k == "std1d":
        T = pos(rnd)
        obj = D.StandardNormal1D(temperature=T)
        if blo is not None:
            obj.update_bounds(col(blo), col(bhi))
        return Node(obj, f"(std_normal1d {q(T)})", 1, lo, hi, f"StandardNormal1D(T={T})")
    if k == "himmelblau":
        T = pos(rnd)
        obj = D.Himmelblau(temperature=T)
        return Node(obj, f"(DHimmel {q(T)})", 2, [-4.0] * 2, [4.0] * 2, f"Himmelblau(T={T})")
    mu = [dy(rnd) for _ in range(d)]
    asint = rnd.random() < 0.15          # whole-number parameters handed over with an integer dtype
    if asint:
        mu = [float(round(m)) for m in mu]
    imu = (lambda v: numpy.array(v).astype(int).reshape(-1, 1)) if asint else col
    if k == "uniform":
        blo = [dy(rnd, -4, -1) for _ in range(d)]
        bhi = [dy(rnd, 1, 4) for _ in range(d)]
        if asint:
            blo, bhi = [float(math.floor(v)) for v in blo], [float(math.ceil(v)) for v in bhi]
        obj = D.Uniform(imu(blo), imu(bhi))
        return Node(obj, f"(uniform {d})", d, blo, bhi, f"Uniform({blo},{bhi})")
    if k == "laplace":
        b = [pos(rnd) for _ in range(d)]
        obj = D.Laplace(imu(mu), col(b), **kw)
        if normalizable:
            obj.normalize()
        c = float(obj.normalization_constant)
        ib = col(obj.inverse_dispersions)
        return Node(obj, f"(laplace {ql(mu)} {ql(ib.flatten())} {q(c)})", d, lo, hi, f"Laplace({mu},{b})", kinks=[[m] for m in mu])
    if k == "normal_scalar":
        var = pos(rnd)
        obj = D.Normal(imu(mu), float(var), **kw)
        if normalizable:
            obj.normalize()
        c = float(obj.normalization_constant)
        iv = [float(obj.inverse_covariance)] * d
        return Node(obj, f"(normal_diag {ql(mu)} {ql(iv)} {q(c)})", d, lo, hi, f"Normal({mu}, scalar {var})")
    if k == "normal_vec" or d == 1:
        var = [pos(rnd) for _ in range(d)]
        obj = D.Normal(imu(mu), col(var), **kw)
        if normalizable:
            obj.normalize()
        c = float(obj.normalization_constant)
        iv = [float(v) for v in numpy.asarray(obj.inverse_covariance).flatten()]
        return Node(obj, f"(normal_diag {ql(mu)} {ql(iv)} {q(c)})", d, lo, hi, f"Normal({mu}, diag {var})")
    a = numpy.array([[dy(rnd, -1, 1) for _ in range(d)] for _ in range(d)])
    cov = a @ a.T + numpy.diag([pos(rnd) for _ in range(d)])
    obj = D.Normal(imu(mu), cov.copy(), **kw)
    if normalizable:
        obj.normalize()
    c = float(obj.normalization_constant)
    P = numpy.asarray(obj.inverse_covariance)
    return Node(obj, f"(DQuad {ql(mu)} {qm(P.tolist())} {q(c)})", d, lo, hi, f"Normal({mu}, full {cov.tolist()})")


ALL_LEAVES = ("normal_scalar", "normal_vec", "normal_full", "laplace", "uniform", "std1d", "himmelblau")


def tree(rnd, d, D, T, depth, normalizable=False, first=None, allow=ALL_LEAVES):
    """Random wrapper nesting of the given dimension.  `first` forces the outermost wrapper, `allow` restricts the
    leaf classes (used to cover every wrapper x leaf combination deterministically)."""
    if first is None and (depth == 0 or rnd.random() < 0.3):
        return leaf(rnd, d, D, allow=allow, normalizable=normalizable)
    k = first or rnd.choice(["additive", "composite", "mixture", "logspace"] if not normalizable else ["mixture_leafs"])
    if k == "additive":
        parts = [tree(rnd, d, D, T, depth - 1, allow=allow) for _ in range(rnd.randint(2, 3))]
        cls = rnd.choice([D.BayesRule, D.AdditiveDistribution])
        if rnd.random() < 0.4:
            # a posterior that is extended after construction
            obj = cls([parts[0].obj])
            for p_ in parts[1:]:
                obj.add_distribution(p_.obj)
        else:
            obj = cls([p.obj for p in parts])
        term = parts[-1].term
        for p in reversed(parts[:-1]):
            term = f"(DAdd {p.term} {term})"
        lo = [max(p.lo[i] for p in parts) for i in range(d)]
        hi = [min(p.hi[i] for p in parts) for i in range(d)]
        if any(h - l < 0.25 for l, h in zip(lo, hi)):
            # the supports of the parts do not overlap (e.g. a box below the positive half-line of a transform): a posterior that is zero
            # everywhere has no interior point to evaluate; one of its parts stands in
            return parts[0]
        kinks = [sum((p.kinks[i] for p in parts), []) for i in range(d)]
        return Node(obj, term, d, lo, hi, f"{cls.__name__}[" + ", ".join(p.desc for p in parts) + "]", kinks, any(p.positive for p in parts))
    if k == "composite" and d >= 2:
        cut = sorted(rnd.sample(range(1, d), rnd.randint(1, min(2, d - 1))))
        sizes = [b - a for a, b in zip([0] + cut, cut + [d])]
        parts = [tree(rnd, n, D, T, depth - 1, allow=allow) for n in sizes]
        obj = D.CompositeDistribution([p.obj for p in parts])
        term = parts[-1].term
        for p in reversed(parts[:-1]):
            term = f"(DComp {p.dim} {p.term} {term})"
        return Node(obj, term, d, sum((p.lo for p in parts), []), sum((p.hi for p in parts), []),
                    "Composite[" + ", ".join(p.desc for p in parts) + "]", sum((p.kinks for p in parts), []),
                    any(p.positive for p in parts))
    if k in ("mixture", "mixture_leafs"):
        n = rnd.randint(2, 3)
        parts = [leaf(rnd, d, D, normalizable=True, bounds_ok=False) for _ in range(n)]
        w = [rnd.randint(1, 8) for _ in range(n)]
        w = [x / sum(w) for x in w]
        obj = D.Mixture([p.obj for p in parts], list(w))
        term = f"(DMix {q(w[-2])} {parts[-2].term} {q(w[-1])} {parts[-1].term})"
        for p, wi in zip(reversed(parts[:-2]), reversed(w[:-2])):
            term = f"(DMix {q(wi)} {p.term} 1 {term})"
        kinks = [sum((p.kinks[i] for p in parts), []) for i in range(d)]
        return Node(obj, term, d, [-4.0] * d, [4.0] * d, "Mixture[" + ", ".join(p.desc for p in parts) + f"; w={w}]", kinks)
    if k == "logspace":
        inner = tree(rnd, d, D, T, depth - 1, allow=allow)
        base = rnd.choice([10.0, 2.0, 3.0, 1.5, math.e])
        obj = T.TransformToLogSpace(inner.obj, base=base)
        # evaluation domain: m = base^x with x in inner's domain
        # (exponents clamped for the sake of magnitudes, consistently: the upper one never below the lower one plus a margin --
        #  with nested transforms the inner domain can start above 3)
        e_lo = [max(l, -3.0) for l in inner.lo]
        e_hi = [min(h, max(3.0, el + 1.0)) for h, el in zip(inner.hi, e_lo)]
        lo = [max(base ** el, 1e-3) for el in e_lo]
        hi = [base ** eh for eh in e_hi]
        def pw(kk):
            try:
                return base ** kk
            except OverflowError:          # a kink of a nested transform far outside every evaluation domain
                return math.inf
        kinks = [[pw(kk) for kk in ks] for ks in inner.kinks]
        return Node(obj, f"(DLog {q(base)} {inner.term})", d, lo, hi, f"LogSpace(base={base})[{inner.desc}]", kinks, True)
    return leaf(rnd, d, D, allow=allow, normalizable=normalizable)


def interior_point(rnd, node, bits=3):
    """A dyadic point strictly inside the domain and away from Laplace kinks."""
    pt = []
    for i in range(node.dim):
        lo, hi = node.lo[i], node.hi[i]
        for _ in range(200):
            t = rnd.random()
            v = lo + (hi - lo) * (0.1 + 0.8 * t)
            s = 1 << (bits + (4 if hi - lo < 1 else 0))
            v = round(v * s) / s
            if lo < v < hi and all(abs(v - kk) > 1e-3 for kk in node.kinks[i]) and (v > 0 or not node.positive):
                break
        pt.append(v)
    return pt


def goal(expr, v, tol_rel=1e-9, tol_abs_floor=1e-12):
    tol = Fraction(tol_rel) * max(1, abs(Fraction(float(v)))) + Fraction(tol_abs_floor)
    return f"Rabs ({expr} - {q(v)}) <= {tol.numerator} / {tol.denominator}"


OKRE = re.compile(r"^(OK|FAIL) (\d+)", re.M)


def run_goals(pid, goals, shard=60, prec=64, timeout=900, header=HEADER):
    """goals: list of Coq propositions (strings).  Returns (set of failing indices, errors)."""
    os.makedirs(common.GEN, exist_ok=True)
    files = []
    for k in range(0, len(goals), shard):
        path = os.path.join(common.GEN, f"iv_{pid}_{k // shard}.v")
        with open(path, "w") as f:
            f.write(header)
            for j, g in enumerate(goals[k:k + shard]):
                f.write(f"Goal {g}.\nProof. crunch. first [ interval with (i_prec {prec}); idtac \"OK {k + j}\" | idtac \"FAIL {k + j}\" ]. Abort.\n")
        files.append((k, path))
    failing, errors, ok = set(), [], set()
    pending, running = list(files), []
    while pending or running:
        while pending and len(running) < 16:
            k, path = pending.pop(0)
            running.append((k, path, subprocess.Popen(["timeout", str(timeout), "coqc"] + common.coq_args() + ["-o", path[:-2] + ".vo", path],
                                                      stdout=subprocess.PIPE, stderr=subprocess.STDOUT, text=True, cwd=common.GEN)))
        k, path, p = running.pop(0)
        out, _ = p.communicate()
        n = min(shard, len(goals) - k)
        seen = {}
        for m in OKRE.finditer(out):
            seen[int(m.group(2))] = m.group(1)
        if p.returncode != 0 or len(seen) != n:
            errors.append((k, out[-2500:]))
        for idx, st in seen.items():
            (ok if st == "OK" else failing).add(idx)
        if p.returncode == 0 and len(seen) == n:
            for ext in (".v", ".vo", ".glob", ".vok", ".vos"):
                try:
                    os.remove(path[:-2] + ext)
                except OSError:
                    pass
            try:
                os.remove(os.path.join(common.GEN, "." + os.path.basename(path)[:-2] + ".aux"))
            except OSError:
                pass
    return failing, errors


_PREVIOUS = {}


def siblings(obj, xa):
    """Evaluates earlier objects of the same dimension (other instances of the same classes, other parameters) at the
    point that is about to be checked: instances must not share state.  Remembers `obj` for later calls."""
    import numpy
    d = xa.shape[0]
    with numpy.errstate(all="ignore"):
        for other in _PREVIOUS.get(d, [])[-2:]:
            try:
                other.misfit(xa.copy())
                other.gradient(xa.copy())
            except Exception:  # noqa
                pass
    _PREVIOUS.setdefault(d, []).append(obj)
    if len(_PREVIOUS[d]) > 4:
        _PREVIOUS[d].pop(0)


def disturb(rnd, obj, xa, p=0.5):
    """Calls that must leave a distribution's misfit()/gradient() as they are: evaluations elsewhere, repeated
    evaluations, generate() with a private generator, corrector on copies.  Exceptions are ignored here (other
    checks look at them); what matters is that the evaluation that follows is unaffected."""
    import numpy
    siblings(obj, xa)
    if rnd.random() > p:
        return "none"
    done = []
    with numpy.errstate(all="ignore"):
        for what in rnd.sample(["elsewhere", "repeat", "generate", "corrector"], rnd.randint(1, 3)):
            try:
                if what == "elsewhere":
                    other = xa + numpy.array([[rnd.choice([-0.5, 0.25, 1.0])] for _ in range(xa.shape[0])])
                    obj.misfit(other.copy())
                    obj.gradient(other.copy())
                elif what == "repeat":
                    obj.misfit(xa.copy())
                    obj.gradient(xa.copy())
                    obj.misfit(xa.copy())
                elif what == "generate":
                    obj.generate(rnd.choice([1, 2]), rng=numpy.random.default_rng(rnd.randrange(1000)))
                else:
                    obj.corrector(xa.copy(), numpy.ones_like(xa))
                done.append(what)
            except Exception:  # noqa
                pass
    return "+".join(done) or "none"


def inplace_consistency(rnd, obj, xa, desc):
    """The same ndarray object evaluated, moved in place, evaluated again (what the integrators do with their
    position buffer) must give what a fresh array with the same values gives.  Returns a list of (key, text)."""
    import numpy
    from .common import same_float
    out = []
    with numpy.errstate(all="ignore"):
        try:
            buf = xa.copy()
            obj.misfit(buf)
            obj.gradient(buf)
            buf += numpy.array([[rnd.choice([-0.25, 0.125, 0.375])] for _ in range(xa.shape[0])])
            m_in, g_in = obj.misfit(buf), numpy.asarray(obj.gradient(buf), dtype=float).flatten()
            m_fr, g_fr = obj.misfit(buf.copy()), numpy.asarray(obj.gradient(buf.copy()), dtype=float).flatten()
        except Exception:  # noqa
            return out
    same_g = len(g_in) == len(g_fr) and all(same_float(a, b) for a, b in zip(g_in, g_fr))
    if not (same_float(float(m_in), float(m_fr)) and same_g):
        out.append(("not-a-function-of-the-point", f"{desc}: after moving the evaluated array in place to {[float(v) for v in buf.flatten()]} misfit / gradient are "
                    f"{float(m_in)} / {list(g_in)}, a fresh array with the same values gives {float(m_fr)} / {list(g_fr)}"))
    # the argument is only read: a read-only array and a strided view into a larger array give the same values and stay as they are
    ro = xa.copy()
    ro.setflags(write=False)
    big = numpy.zeros((2 * xa.shape[0], 2))
    big[::2, 1] = xa[:, 0]
    view = big[::2, 1:2]
    with numpy.errstate(all="ignore"):
        try:
            want_m, want_g = obj.misfit(xa.copy()), numpy.asarray(obj.gradient(xa.copy()), dtype=float).flatten()
        except Exception:  # noqa
            return out
        for name, arr in (("a read-only array", ro), ("a strided view", view)):
            try:
                m, g = obj.misfit(arr), numpy.asarray(obj.gradient(arr), dtype=float).flatten()
            except Exception as e:  # noqa
                out.append(("argument-not-read-only", f"{desc}: misfit / gradient at {name} raised {type(e).__name__}: {str(e)[:100]}"))
                continue
            if not (same_float(float(m), float(want_m)) and len(g) == len(want_g) and all(same_float(a, b) for a, b in zip(g, want_g))):
                out.append(("not-a-function-of-the-point", f"{desc}: misfit / gradient at {name} are {float(m)} / {list(g)}, at a fresh contiguous copy {float(want_m)} / {list(want_g)}"))
        if not (numpy.array_equal(big[::2, 1], xa[:, 0]) and not big[1::2].any() and not big[:, 0].any()):
            out.append(("argument-modified", f"{desc}: evaluating misfit / gradient changed the array it was given (or its neighbours in memory)"))
    return out


COMBOS = [(w, l) for w in ("additive", "composite", "logspace") for l in ("normal_scalar", "normal_vec", "normal_full", "laplace", "uniform")]


def combo_tree(rnd, k, D, T):
    """the k-th wrapper x leaf combination (depth one), dimension 2"""
    w, l = COMBOS[k % len(COMBOS)]
    return tree(rnd, 2, D, T, 1, first=w, allow=(l,))
