"""C07 — the samples file is the chain: complete runs (HDF5 and NPY back ends, all thinnings t | P)
of the real samplers, file read back through hmclab.Samples, compared with per-proposal snapshots,
with the unthinned run of the same scripts, with the target's own misfit, with the metadata the
property lists, and co-executed with the Coq loop model (bit-exact)."""
import math
import random
import shutil

import numpy

from . import common, sampler_runs as sr
from .common import Violation, same_float, same_vec

FULLNAME = {"lf": "leapfrog integrator", "3s": "three stage integrator", "4s": "four stage integrator"}


def spec_oracle(cfg, r, r1):
    out = []
    be = cfg["backend"]
    if r.exception is not None:
        return [("sampling-raised", f"sample() raised {type(r.exception).__name__}: {r.exception}")]
    P, t = cfg["P"], cfg["t"]
    if r.read_error is not None:
        return [(f"unreadable-{be}", f"the {be} file of a complete run (P={P}, t={t}) cannot be read back: "
                 f"{type(r.read_error).__name__}: {r.read_error}")]
    cols = r.columns
    if len(cols) != P // t:
        out.append((f"column-count-{be}", f"P={P}, t={t}: file holds {len(cols)} columns, expected {P // t}"))
    for j, (m, x) in enumerate(cols):
        if j * t >= len(r.snaps):
            break
        sn = r.snaps[j * t]
        if not (same_vec(m, sn["cur_after"]) and same_float(x, sn["x_after"])):
            out.append(("column-state", f"column {j} is not the chain state/misfit after proposal {j * t}"))
            break
        if not same_float(x, r.target.misfit_value(numpy.array(m).reshape(-1, 1))):
            out.append(("column-misfit", f"stored misfit of column {j} is not the target's misfit at the stored state"))
            break
    if r1 is not None and r1.columns is not None:
        want = r1.columns[::t]
        if len(want) != len(cols) or any(not (same_vec(a[0], b[0]) and same_float(a[1], b[1])) for a, b in zip(want, cols)):
            out.append(("thinning", f"run with thinning {t} is not every {t}-th column of the unthinned run with the same random numbers"))
    a = r.attrs
    exp = {"proposals": P, "online_thinning": t, "write_index": len(cols),
           "sampler": "Random Walk Metropolis Hastings" if cfg["kind"] == "rwmh" else "Hamiltonian Monte Carlo"}
    for k, v in exp.items():
        got = a.get(k)
        if isinstance(got, bytes):
            got = got.decode()
        if got is None or (got != v):
            out.append((f"attr-{k}-{be}", f"attribute {k} is {got!r}, expected {v!r} ({be} back end)"))
    ar = a.get("acceptance_rate")
    accepted = sum(1 for sn in r.snaps if sn["acc_after"] > sn["acc_before"]) if len(r.snaps) == P else r.acc
    if ar is None or not same_float(float(ar), accepted / P):
        out.append(("attr-acceptance_rate", f"acceptance_rate attribute {ar} != accepted/completed = {accepted}/{P} (accepted counted from the transitions of this run)"))
    if cfg["kind"] == "hmc":
        tun = {"stepsize": cfg["stepsize"], "amount_of_steps": cfg["steps"], "mass_matrix": "scripted mass matrix",
               "integrator": FULLNAME[cfg["integrator"]]}
    else:
        tun = {"stepsize": ("ndarray" if (cfg["stepmode"] == "vector" and not cfg["tune"]) else
                            (1.0 if cfg["stepmode"] == "vector" else cfg["stepsize"]))}
    for k, v in tun.items():
        got = a.get(k)
        if isinstance(got, bytes):
            got = got.decode()
        ok = (same_float(got, v) if isinstance(v, float) and not isinstance(got, str) and got is not None else got == v)
        if not ok:
            out.append((f"attr-{k}", f"tuning attribute {k} is {got!r}, expected {v!r}"))
    return out[:4]


def own_generator_cases(rnd, wd):
    """thinned = every t-th unthinned column for runs that use the sampler's own seeded generator (seed 0 included)"""
    import contextlib
    import io
    import os
    import hmclab
    out = []
    target = hmclab.Distributions.Normal(numpy.array([[0.5], [-0.25]]), numpy.array([[1.0], [2.0]]))
    for sd in (0, 1, rnd.randrange(2, 1 << 20)):
        for kind in ("rwmh", "hmc"):
            be = rnd.choice(["h5", "npy"])
            t = rnd.choice([2, 3, 4])
            cols = {}
            for thin in (1, t):
                cls = hmclab.Samplers.RWMH if kind == "rwmh" else hmclab.Samplers.HMC
                f = os.path.join(wd, f"own_{thin}.{be}")
                kw = dict(stepsize=0.4, **({"amount_of_steps": 3} if kind == "hmc" else {}))
                with contextlib.redirect_stdout(io.StringIO()), numpy.errstate(all="ignore"):
                    cls(seed=sd).sample(f, target, proposals=12 * t, online_thinning=thin, initial_model=numpy.zeros((2, 1)), overwrite_existing_file=True,
                                        disable_progressbar=True, **kw)
                with hmclab.Samples(f) as s:
                    cols[thin] = numpy.array(s.numpy)
            if cols[t].shape != cols[1][:, ::t].shape or cols[t].tobytes() != cols[1][:, ::t].tobytes():
                out.append(("thinning", f"{kind}, seed={sd}, {be}: the run with thinning {t} is not every {t}-th column of the unthinned run with the same seed"))
                continue
            # the same thinned run stopped by Ctrl-C somewhere off the thinning grid: every column it stored is still the state after
            # proposal j*t, i.e. the file is a leading part of the complete thinned run (how many columns is C08's subject)
            stop_at = rnd.randint(3, 10 * t) * (4 if kind == "hmc" else 1) + 1

            class Stopping(type(target)):
                calls = 0

                def misfit(self_, m):
                    type(self_).calls += 1
                    if type(self_).calls == stop_at:
                        raise KeyboardInterrupt()
                    return super().misfit(m)
            stopping = Stopping(numpy.array([[0.5], [-0.25]]), numpy.array([[1.0], [2.0]]))
            f = os.path.join(wd, f"own_stopped.{be}")
            with contextlib.redirect_stdout(io.StringIO()), numpy.errstate(all="ignore"):
                cls(seed=sd).sample(f, stopping, proposals=12 * t, online_thinning=t, initial_model=numpy.zeros((2, 1)), overwrite_existing_file=True,
                                    disable_progressbar=True, **kw)
            try:
                with hmclab.Samples(f) as s:
                    got = numpy.array(s.numpy)
            except Exception:  # noqa  (a run stopped before its first stored column: nothing to compare)
                got = None
            if got is not None and (got.shape[1] > cols[t].shape[1] or got.tobytes() != cols[t][:, :got.shape[1]].tobytes()):
                out.append(("thinning-interrupted", f"{kind}, seed={sd}, {be}, thinning {t}, Ctrl-C at misfit call {stop_at}: the {got.shape[1]} stored columns are not the leading "
                            f"columns of the complete thinned run (a stored column is not the state after proposal j*t)"))
    numpy.seterr(all="warn")
    return out


def exchange_cases(rnd, wd):
    """the stored misfit is the chain's OWN target at the stored state also when the state came from a tempering exchange
    (two real chain processes, exchange at every proposal; the network side of the exchange is C12's subject)"""
    import contextlib
    import io
    import os
    import hmclab
    out = []
    d = rnd.choice([2, 3])
    targets = [hmclab.Distributions.Normal(numpy.zeros((d, 1)), 1.0),
               hmclab.Distributions.Normal(numpy.full((d, 1), 0.5), rnd.choice([2.0, 4.0]))]
    for kind in ("rwmh", "hmc"):
        cls = hmclab.Samplers.RWMH if kind == "rwmh" else hmclab.Samplers.HMC
        be = rnd.choice(["h5", "npy"])
        t = rnd.choice([1, 2, 3])
        P = 30 * t
        files = [os.path.join(wd, f"exch_{kind}_{i}.{be}") for i in range(2)]
        try:
            with contextlib.redirect_stdout(io.StringIO()), contextlib.redirect_stderr(io.StringIO()), numpy.errstate(all="ignore"):
                hmclab.Samplers.ParallelSampleSMP(seed=rnd.randrange(1, 1000)).sample(
                    [cls(seed=rnd.randrange(1, 1000)), cls(seed=rnd.randrange(1, 1000))], files, targets, proposals=P, exchange=True,
                    exchange_interval=1, initial_model=[numpy.zeros((d, 1)), numpy.ones((d, 1))], overwrite_existing_files=True,
                    kwargs={"disable_progressbar": True, "online_thinning": t, "stepsize": 0.3})
        except Exception as e:  # noqa
            out.append(("exchange-run-raised", f"{kind}, {be}: ParallelSampleSMP with exchange raised {type(e).__name__}: {e}"))
            continue
        for i, (f, tg) in enumerate(zip(files, targets)):
            with hmclab.Samples(f) as s:
                data = numpy.array(s.numpy)
            if data.shape != (d + 1, P // t):
                out.append(("exchange-columns", f"{kind}, {be}, chain {i}: {data.shape[1]} columns for P={P}, t={t}"))
                continue
            for j in range(data.shape[1]):
                x = float(tg.misfit(data[:d, j][:, None].copy()))
                if not numpy.isclose(x, data[d, j], rtol=1e-9, atol=1e-12):
                    out.append(("exchange-stale-misfit", f"{kind}, {be}, thinning {t}, chain {i}, column {j}: stored misfit {data[d, j]!r}, the chain's own target gives "
                                f"{x!r} at the stored state (two chains exchanging at every proposal)"))
                    break
    numpy.seterr(all="warn")
    return out


def run(tier, seed):
    rnd = random.Random(seed * 7919 + 7)
    n = 110 if tier == "quick" else 1500
    wd = common.tmpdir("c07_")
    lits = sr.source_literals()
    cases, coq, violations, samples, seen = [], [], [], [], set()
    dist = {"h5": 0, "npy": 0, "thin>1": 0, "rwmh": 0, "hmc": 0, "single_column": 0, "overwrites_earlier_file": 0, "sampler_reused": 0, "long_runs": 0}
    try:
        # one long chain per back end, written quickly: the write buffer of the samples file grows past 1024 columns
        for be in ("h5", "npy"):
            cfgL = sr.gen_run(rnd, kind="rwmh", thin=1, tune=False, maxP=2400, special=0.0)
            cfgL["P"] = 2400
            cfgL["zs"] = [[rnd.randint(-48, 48) / 16.0 for _ in range(cfgL["d"])] for _ in range(2400)]
            cfgL["us"] = [rnd.randint(0, 1023) / 1024.0 for _ in range(2400)]
            cfgL["backend"] = be
            rL = sr.run_impl(cfgL, wd, tag="long")
            dist["long_runs"] += 1
            for key, what in spec_oracle(cfgL, rL, None):
                violations.append(Violation(key, what, {"case": cfgL, "long_run": True}))
        for key, what in own_generator_cases(rnd, wd):
            violations.append(Violation(key, what, {"own_generator": what}))
        for key, what in exchange_cases(random.Random(seed * 7919 + 11), wd):   # (its own stream: the cases below are unchanged)
            violations.append(Violation(key, what, {"exchange": what, "stream_seed": seed * 7919 + 11}))
        for i in range(n):
            t = rnd.choice([1, 2, 3, 4, 5, 6])
            cfg = sr.gen_run(rnd, thin=t, maxP=(12 if tier == "quick" else 60))
            cfg["backend"] = "npy" if i % 2 else "h5"
            if rnd.random() < 0.4:
                cfg["stale"] = {"seed": rnd.randrange(1000), "P": rnd.choice([4, 8, 20, 40]), "t": rnd.choice([1, 2]),
                                "d": cfg["d"] + (1 if rnd.random() < 0.25 else 0)}
            if rnd.random() < 0.3:
                # the sampler object has already made an earlier (burn-in) run: the file describes THIS run only
                cfg0 = dict(cfg, P=cfg["t"] * rnd.choice([1, 2, 3]))
                cfg0.pop("stale", None)
                r0 = sr.run_impl(cfg0, wd, tag="first")
                n0 = len(r0.snaps)
                r = sr.run_impl(cfg, wd, reuse=r0)
                r.snaps = r.snaps[n0:]
                cfg["after_earlier_run_of_the_same_sampler"] = cfg0["P"]
                dist["sampler_reused"] += 1
            else:
                r = sr.run_impl(cfg, wd)
            r1 = None
            if cfg["t"] > 1:
                cfg1 = dict(cfg, t=1, backend="h5")
                r1 = sr.run_impl(cfg1, wd)
            cases.append((cfg, r))
            for key, what in spec_oracle(cfg, r, r1):
                violations.append(Violation(key, what, {"case": cfg}))
            coq.append(sr.coq_case(cfg, r, lits) if (r.exception is None and r.columns is not None) else None)
            dist[cfg["backend"]] += 1
            dist[cfg["kind"]] += 1
            dist["thin>1"] += int(cfg["t"] > 1)
            dist["single_column"] += int(cfg["P"] == cfg["t"])
            dist["overwrites_earlier_file"] += int(bool(cfg.get("stale")))
            if cfg["t"] > 1 and r.snaps and any(s["acc_after"] > s["acc_before"] for s in r.snaps):
                seen.add(common.case_hash(cfg))
            if i < 2:
                samples.append({"case": {k: cfg[k] for k in ("kind", "P", "t", "backend", "d")},
                                "columns": r.columns[:3] if r.columns else None, "attrs": {k: str(v) for k, v in getattr(r, "attrs", {}).items()}})
    finally:
        shutil.rmtree(wd, ignore_errors=True)
    idx = [i for i, c in enumerate(coq) if c is not None]
    res, errors = sr.eval_runs("C07", [coq[i] for i in idx], ["sc_check_cols", "sc_check_accept"])
    bad = sorted({idx[j] for fl in res.values() for j in fl})
    flagged = {common.case_hash(v.replay.get("case")) for v in violations if "case" in v.replay}
    for i in bad:
        cfg = cases[i][0]
        if common.case_hash(cfg) in flagged:
            continue
        which = [ck for ck, fl in res.items() if idx.index(i) in fl]
        violations.append(Violation("correspondence", "loop model and implementation disagree (" + ",".join(which) + ")",
                                    {"case": cfg, "correspondence": which, "no_failing_input_found": True}))
    for k, log in errors:
        violations.append(Violation("coq-error", "correspondence shard failed: " + log[-300:], {"log": log, "no_failing_input_found": True}))
    return {
        "evaluations": n, "distinct_nontrivial": len(seen),
        "rule": "seeded complete runs, thinning t in 1..6 with t | P, alternating HDF5/NPY back ends, RWMH and HMC, 40% over an earlier file at the same path, 30% on a sampler "
                "object that already made a run, two chains of 2400 proposals (statement oracle only), two pairs of real chain processes exchanging at every proposal (own misfit of every stored column); each thinned "
                "run is repeated unthinned with the same scripted random numbers; non-trivial = t > 1 and at least one accepted proposal",
        "samples": samples, "violations": violations,
        "traces_validated_against_impl": len(idx) - len(bad),
        "coverage": {"distribution": dist, "correspondence_failures": len(bad)},
        "trusted_base": ["h5py / numpy.load return the float64 bits that were stored"],
    }


def replay(doc):
    if "exchange" in doc["replay"]:
        wd = common.tmpdir("c07r_")
        try:
            probs = exchange_cases(random.Random(doc["replay"].get("stream_seed", 11)), wd)
        finally:
            shutil.rmtree(wd, ignore_errors=True)
        print("exchange runs:", probs or "ok")
        return 1 if probs else 0
    cfg = doc["replay"]["case"]
    wd = common.tmpdir("c07r_")
    try:
        if cfg.get("after_earlier_run_of_the_same_sampler"):
            cfg0 = dict(cfg, P=cfg["after_earlier_run_of_the_same_sampler"])
            cfg0.pop("stale", None)
            r0 = sr.run_impl(cfg0, wd, tag="first")
            n0 = len(r0.snaps)
            r = sr.run_impl(cfg, wd, reuse=r0)
            r.snaps = r.snaps[n0:]
        else:
            r = sr.run_impl(cfg, wd)
        cfg1 = dict(cfg, t=1, backend="h5")
        cfg1.pop("stale", None)
        r1 = sr.run_impl(cfg1, wd) if cfg["t"] > 1 else None
        probs = spec_oracle(cfg, r, r1)
    finally:
        shutil.rmtree(wd, ignore_errors=True)
    print("spec oracle:", probs or "ok")
    return 1 if probs else 0
