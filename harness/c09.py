"""C09 — seeded runs are reproducible and independent of observers.
(a) static: an AST scan of hmclab regenerates the effect table (who reads NumPy's global stream, a fresh
unseeded generator, the clock; who calls whom) into coq/gen/Effects_gen.v; Coq checks the policy on the
closure of the call graph (soundness theorem c09_policy_sound);
(b) dynamic: the same seeded run is repeated under perturbations of everything that must not matter
(global numpy state, unrelated library activity, storage back end, diagnostic mode, progress bar,
visual samplers with / without animation, write-buffer timing) and the stored arrays are compared bitwise;
shorter run = prefix; different seeds differ; generate(rng=seeded) is deterministic."""
import ast
import contextlib
import glob
import io
import os
import random
import shutil
import sys

import numpy

from . import common
from .common import Violation

GENERIC_METHODS = {"append", "copy", "close", "update", "pop", "get", "items", "keys", "values", "sum", "min", "max", "flatten", "reshape",
                   "astype", "sort", "format", "join", "write", "read", "item", "dot", "transpose", "remove", "insert", "extend", "index", "count", "mean"}
EFFECTS = ["SelfRng", "ParamRng", "GlobalNumpyRandom", "FreshUnseeded", "Clock"]


# ----------------------------------------------------------------------------- static part

def scan():
    files = sorted(glob.glob(os.path.join(common.REPO, "hmclab", "*.py")) + glob.glob(os.path.join(common.REPO, "hmclab", "Distributions", "*.py"))
                   + [os.path.join(common.REPO, "hmclab", "Helpers", f) for f in ("Timers.py", "RandomMatrices.py", "AppendNPY.py")])
    files = [f for f in files if not f.endswith(("_version.py", "Visualization.py", "__init__.py"))]
    table = {}
    for path in files:
        mod = os.path.relpath(path, os.path.join(common.REPO, "hmclab"))[:-3].replace(os.sep, ".")
        tree = ast.parse(open(path).read())

        def visit(node, prefix):
            for ch in ast.iter_child_nodes(node):
                if isinstance(ch, ast.ClassDef):
                    visit(ch, prefix + ch.name + ".")
                elif isinstance(ch, (ast.FunctionDef, ast.AsyncFunctionDef)):
                    name = f"{mod}:{prefix}{ch.name}"
                    table[name] = analyse(ch)
                    visit(ch, prefix + ch.name + ".")
        visit(tree, "")
    return table


def analyse(fn):
    effs, calls = set(), set()
    argnames = {a.arg for a in fn.args.args + fn.args.kwonlyargs}
    body_nodes = []
    for st in fn.body:
        body_nodes.extend(ast.walk(st))
    for n in body_nodes:
        if isinstance(n, (ast.FunctionDef, ast.ClassDef)):
            continue
        if isinstance(n, ast.Call):
            f = n.func
            s = ast.unparse(f)
            if s.startswith(("_numpy.random.", "numpy.random.", "np.random.")):
                last = s.split(".")[-1]
                if last == "default_rng":
                    if not n.args and not n.keywords:
                        effs.add("FreshUnseeded")
                elif last not in ("Generator", "SeedSequence", "PCG64"):
                    effs.add("GlobalNumpyRandom")
            elif s in ("_time", "time.time", "_time.time", "_datetime.now", "datetime.now", "_datetime.datetime.now"):
                effs.add("Clock")
            elif ".rng." in s or s.startswith("self.rng."):
                effs.add("SelfRng")
            elif s.startswith("rng.") and "rng" in argnames:
                effs.add("ParamRng")
            elif s.startswith("rng."):
                effs.add("SelfRng")
            if isinstance(f, ast.Attribute):
                # container / ndarray method names are not hmclab calls unless made on the samples object
                if f.attr in GENERIC_METHODS and "self.samples" not in s:
                    pass
                else:
                    calls.add(f.attr)
            elif isinstance(f, ast.Name):
                calls.add(f.id)
            elif isinstance(f, ast.Subscript) and "integrators" in ast.unparse(f.value):
                calls.add("__integrators__")
    return effs, calls


def build_graph(table):
    names = sorted(table)
    ids = {n: i for i, n in enumerate(names)}
    by_simple = {}
    for n in names:
        by_simple.setdefault(n.split(":")[1].split(".")[-1], []).append(n)
    edges = {}
    for n in names:
        out = set()
        for c in table[n][1]:
            if c == "__integrators__":
                out.update(m for m in names if ".HMC._propagate_" in m.replace(":", ".") or "HMC_visual._propagate_" in m)
            else:
                out.update(by_simple.get(c, []))
        edges[n] = sorted(out)
    return names, ids, edges


def closure(roots, edges):
    seen, todo = set(roots), list(roots)
    while todo:
        f = todo.pop()
        for g in edges.get(f, []):
            if g not in seen:
                seen.add(g)
                todo.append(g)
    return sorted(seen)


def static_check(known_keys):
    table = scan()
    names, ids, edges = build_graph(table)
    t_roots = [n for n in names if n.startswith("Samplers:") and n.split(".")[-1] in ("_propose", "_evaluate_acceptance", "autotune")
               and "_AbstractSampler" not in n]
    g_roots = [n for n in names if n.split(".")[-1] == "generate"]
    problems = []
    waived = set()
    if len(t_roots) < 6 or len(g_roots) < 8:
        problems.append(("effect-scan-incomplete", f"the scan found only {len(t_roots)} transition roots / {len(g_roots)} generate functions"))
    Ct, Cg = closure(t_roots, edges), closure(g_roots, edges)
    for f in Ct:
        bad = table[f][0] & {"GlobalNumpyRandom", "FreshUnseeded", "Clock"}
        if bad:
            key = "ambient-in-transition:" + f.split(":")[1]
            if key in known_keys:
                waived.add(f)
            problems.append((key, f"{f} is reachable from a sampling transition and reads {sorted(bad)}"))
    for f in Cg:
        bad = table[f][0] & {"GlobalNumpyRandom", "FreshUnseeded", "Clock", "SelfRng"}
        if bad and f not in Ct:
            key = "ambient-in-generate:" + f.split(":")[1]
            if key in known_keys:
                waived.add(f)
            problems.append((key, f"{f} is reachable from a generate() and reads {sorted(bad)} instead of only the generator it is given"))
    # Coq: policy on the closures (effects of waived known findings removed, listed in the evidence)
    os.makedirs(common.GEN, exist_ok=True)
    path = os.path.join(common.GEN, "Effects_gen.v")
    nl = lambda l: "[" + "; ".join(str(ids[x]) for x in l) + "]"
    with open(path, "w") as fh:
        fh.write("(* GENERATED from /repo/hmclab by harness/c09.py -- do not edit *)\nFrom Coq Require Import List Bool Arith.\nFrom HV Require Import Effects EffectsProofs.\nImport ListNotations.\n\n")
        fh.write("Definition table : list entry := [\n")
        rows = []
        for n in names:
            effs = [] if n in waived else sorted(table[n][0], key=EFFECTS.index)
            rows.append("  {| fn := %d; effects := [%s]; callees := %s |}  (* %s *)" % (ids[n], "; ".join(effs), nl(edges[n]), n))
        fh.write(";\n".join(rows) + "\n].\n")
        fh.write(f"Definition transition_roots := {nl(t_roots)}.\nDefinition generate_roots := {nl(g_roots)}.\n")
        fh.write(f"Definition Ct := {nl(Ct)}.\nDefinition Cg := {nl(Cg)}.\n")
        fh.write("Lemma transition_policy_checked : check table transition_roots Ct transition_policy = true.\nProof. vm_compute. reflexivity. Qed.\n")
        fh.write("Lemma generate_policy_checked : check table generate_roots Cg (fun e => negb (has GlobalNumpyRandom e) && negb (has FreshUnseeded e) && negb (has Clock e)) = true.\nProof. vm_compute. reflexivity. Qed.\n")
        fh.write("Theorem transitions_read_only_their_own_generator : forall f, reach table transition_roots f -> transition_policy (effects_of table f) = true.\n"
                 "Proof. exact (check_sound table transition_roots Ct transition_policy transition_policy_checked). Qed.\n")
    rc, out = common.run_coq_file(path)
    unknown = [p for p in problems if p[0] not in known_keys]
    if rc != 0 and not unknown:
        problems.append(("effect-policy-coq", "Effects_gen.v does not check although the scan reported nothing new: " + out[-400:]))
    info = {"functions": len(names), "transition_roots": len(t_roots), "generate_roots": len(g_roots), "transition_closure": len(Ct),
            "generate_closure": len(Cg), "waived": sorted(waived), "coq_ok": rc == 0}
    return problems, info


# ----------------------------------------------------------------------------- dynamic part

def make_target(rnd, D, d):
    k = rnd.choice(["normal", "bounded", "laplace", "mixture", "himmelblau", "linear", "bayes"])
    col = lambda v: numpy.array(v, dtype=float).reshape(-1, 1)
    mu = col([rnd.randint(-8, 8) / 8.0 for _ in range(d)])
    if k == "normal":
        return D.Normal(mu, col([rnd.choice([0.5, 1.0, 2.0]) for _ in range(d)])), k, d
    if k == "bounded":
        return D.Normal(mu, numpy.ones((d, 1)), lower_bounds=mu - 1.5, upper_bounds=mu + 2.0), k, d
    if k == "laplace":
        return D.Laplace(mu, col([rnd.choice([0.5, 1.0, 2.0]) for _ in range(d)])), k, d
    if k == "mixture":
        return D.Mixture([D.Normal(mu, numpy.ones((d, 1))), D.Normal(mu + 2.0, 0.5 * numpy.ones((d, 1)))], [0.3, 0.7]), k, d
    if k == "himmelblau":
        return D.Himmelblau(temperature=20.0), k, 2
    if k == "linear":
        G = numpy.array([[rnd.randint(-4, 4) / 4.0 for _ in range(d)] for _ in range(d + 1)])
        return D.LinearMatrix(G, numpy.ones((d + 1, 1)), 1.0, dtype=numpy.dtype("float64")), k, d
    return D.BayesRule([D.Uniform(mu - 3.0, mu + 3.0), D.Normal(mu, numpy.ones((d, 1)))]), k, d


def one_run(cfg, wd, tag, perturb=None, backend="h5", diagnostic=False, progressbar=False, visual=None, clock=None, proposals=None, seed=None, mass_history=None):
    import hmclab
    S, M, D = hmclab.Samplers, hmclab.MassMatrices, hmclab.Distributions
    if perturb:
        perturb()
    rnd = random.Random(cfg["tseed"])
    target, tk, d = make_target(rnd, D, cfg["d"])
    if cfg.get("stiff"):
        # a narrow target and a step far too long for it: the first proposals are rejected and the additive update drives
        # the step size below zero, i.e. to its floor, within a proposal or two
        d = cfg["d"]
        target, tk = D.Normal(numpy.zeros((d, 1)), numpy.full((d, 1), 2.0 ** -12)), "stiff"
    seed = cfg["seed"] if seed is None else seed
    kw = dict(proposals=proposals or cfg["P"], online_thinning=cfg["t"], overwrite_existing_file=True, disable_progressbar=not progressbar,
              diagnostic_mode=diagnostic, autotuning=cfg["tune"], initial_model=numpy.zeros((d, 1)) + (1.0 if tk == "himmelblau" else 0.0))
    if tk == "bounded" or tk == "bayes":
        kw["initial_model"] = numpy.array(target.lower_bounds if target.lower_bounds is not None else numpy.zeros((d, 1))) + 1.0
    if cfg["kind"] == "hmc":
        cls = S.HMC if not visual else S.HMC_visual
        mk = cfg["mass"]
        mass = {"unit": lambda: M.Unit(d), "diagonal": lambda: M.Diagonal(numpy.arange(1, d + 1, dtype=float)),
                "full": lambda: M.Full(numpy.eye(d) + 0.25 * numpy.ones((d, d))), "none": lambda: None}[mk]()
        if mass is not None and mass_history == "own-generator":
            # the same matrix, built with a generator of its own
            g = numpy.random.default_rng(4242)
            mass = {"unit": lambda: M.Unit(d, g), "diagonal": lambda: M.Diagonal(numpy.arange(1, d + 1, dtype=float), g),
                    "full": lambda: M.Full(numpy.eye(d) + 0.25 * numpy.ones((d, d)), g) if "rng" in M.Full.__init__.__code__.co_varnames else M.Full(numpy.eye(d) + 0.25 * numpy.ones((d, d)))}[mk]()
        if mass is not None and mass_history == "used-by-another-sampler":
            # the mass matrix object has already served another sampler (other seed, other target)
            with contextlib.redirect_stdout(io.StringIO()), contextlib.redirect_stderr(io.StringIO()), numpy.errstate(all="ignore"):
                S.HMC(seed=987).sample(os.path.join(wd, "other_" + tag + ".h5"), D.Normal(numpy.zeros((d, 1)), numpy.ones((d, 1))), proposals=5, mass_matrix=mass,
                                       stepsize=0.2, amount_of_steps=2, overwrite_existing_file=True, disable_progressbar=True)
        kw.update(stepsize=cfg["stepsize"], amount_of_steps=cfg["steps"], mass_matrix=mass, integrator=cfg["integrator"] if not visual else "lf",
                  randomize_stepsize=cfg["randomize"])
    else:
        cls = S.RWMH if not visual else S.RWMH_visual
        kw.update(stepsize=cfg["stepsize"])
    seed = common.spell_int(seed)          # a seed is a seed, as Python int or as NumPy integer
    smp = cls(seed=seed) if not visual else cls(animate_proposals=(visual == "animate"), seed=seed)
    fname = os.path.join(wd, f"{tag}.{backend}")
    SM = sys.modules["hmclab.Samples"]
    old_time = SM._time
    if clock is not None:
        SM._time = clock
    try:
        with contextlib.redirect_stdout(io.StringIO()), contextlib.redirect_stderr(io.StringIO()), numpy.errstate(all="ignore"):
            smp.sample(fname, target, **kw)
    finally:
        SM._time = old_time
        numpy.seterr(all="warn")
        if visual:
            import matplotlib.pyplot as plt
            plt.close("all")
    with hmclab.Samples(fname) as s:
        return numpy.array(s.numpy)


def gen_cfg(rnd):
    kind = rnd.choice(["hmc", "hmc", "rwmh"])
    return {"kind": kind, "d": rnd.choice([2, 3]), "P": rnd.choice([8, 12, 20]), "t": rnd.choice([1, 2]),
            "seed": rnd.choice([0, 1, rnd.randrange(1 << 30), rnd.randrange(1 << 30)]),       # 0 is a seed like any other
            "tseed": rnd.randrange(1 << 30),
            "tune": rnd.random() < 0.3, "stepsize": rnd.choice([0.1, 0.3, 0.6]), "steps": rnd.randint(1, 4), "integrator": rnd.choice(["lf", "3s", "4s"]),
            "mass": rnd.choice(["unit", "diagonal", "full", "none"]), "randomize": rnd.random() < 0.5}


def perturbations(rnd):
    import hmclab

    def reseed_global():
        numpy.random.seed(rnd.randrange(1 << 30))
        numpy.random.rand(rnd.randint(1, 50))

    def library_activity():
        numpy.random.seed(rnd.randrange(1 << 30))
        D, M, S = hmclab.Distributions, hmclab.MassMatrices, hmclab.Samplers
        m = M.Diagonal(numpy.ones(3))
        m.generate_momentum()
        M.Full(numpy.eye(2)).generate_momentum()
        D.Normal(numpy.zeros((2, 1)), numpy.ones((2, 1))).generate(3)
        D.Normal.create_default(3)
        S.HMC(seed=5)
        S.RWMH()

    def nothing():
        pass
    return [("global-rng-state", reseed_global), ("unrelated-library-activity", library_activity), ("repeat", nothing)]


class ScriptClock:
    def __init__(self, step, stall_every=None, stall=50.0):
        self.t, self.step, self.n, self.stall_every, self.stall = 0.0, step, 0, stall_every, stall

    def __call__(self):
        self.n += 1
        # a clock that changes regime: mostly `step` apart, every stall_every-th reading after a long pause
        self.t += self.stall if (self.stall_every and self.n % self.stall_every == 0) else self.step
        return self.t


def run(tier, seed):
    common.setup_env()
    import hmclab
    rnd = random.Random(seed * 7919 + 9)
    known = set(common.load_known_findings().get("C09", {}))
    violations, samples, seen = [], [], set()
    sprobs, info = static_check(known)
    for key, what in sprobs:
        violations.append(Violation(key, what, {"static": what, "no_failing_input_found": key == "effect-policy-coq"}))
    n = 14 if tier == "quick" else 150
    dist = {"configs": 0, "runs": 0, "comparisons": 0, "visual": 0, "npy": 0, "diagnostic": 0, "generate_checks": 0}
    wd = common.tmpdir("c09_")
    try:
        for i in range(n):
            cfg = gen_cfg(rnd)
            if i < 2 or (cfg["tune"] and rnd.random() < 0.3):
                # tuning under stress: a step far too long for the target, early proposals rejected, the update drives the step to its floor
                cfg["tune"], cfg["stepsize"], cfg["stiff"] = True, rnd.choice([0.5, 0.25]), True
                if i < 2:
                    cfg["kind"] = ("rwmh", "hmc")[i]
                dist["tuning_to_the_floor"] = dist.get("tuning_to_the_floor", 0) + 1
            dist["configs"] += 1
            try:
                base = one_run(cfg, wd, "base")
            except Exception as e:  # noqa
                violations.append(Violation("run-raised", f"seeded run raised {type(e).__name__}: {e}", {"cfg": cfg}))
                continue
            dist["runs"] += 1
            variants = []
            for name, fn in perturbations(rnd):
                variants.append((name, dict(perturb=fn)))
            variants.append(("npy-backend", dict(backend="npy")))
            variants.append(("diagnostic-mode", dict(diagnostic=True)))
            variants.append(("progress-bar", dict(progressbar=True)))
            variants.append(("slow-write-clock", dict(clock=ScriptClock(50.0))))
            variants.append(("fast-write-clock", dict(clock=ScriptClock(1e-4))))
            variants.append(("fast-then-stalling-write-clock", dict(clock=ScriptClock(1e-4, stall_every=rnd.choice([5, 7, 11])))))
            if cfg["kind"] == "hmc" and cfg["mass"] != "none":
                variants.append(("mass-matrix-used-by-another-sampler", dict(mass_history="used-by-another-sampler")))
                variants.append(("mass-matrix-with-its-own-generator", dict(mass_history="own-generator")))
            if cfg["d"] >= 2 and i % 3 == 0 and (cfg["kind"] == "rwmh" or cfg["integrator"] == "lf"):
                variants.append(("visual-plain", dict(visual="plain")))
                variants.append(("visual-animated", dict(visual="animate")))
                dist["visual"] += 2
            for name, kw in variants:
                try:
                    other = one_run(cfg, wd, "var", **kw)
                except Exception as e:  # noqa
                    violations.append(Violation(f"run-raised-{name}", f"seeded run under '{name}' raised {type(e).__name__}: {e}", {"cfg": cfg, "variant": name}))
                    continue
                dist["runs"] += 1
                dist["comparisons"] += 1
                dist["npy"] += int(name == "npy-backend")
                dist["diagnostic"] += int(name == "diagnostic-mode")
                if other.shape != base.shape or other.tobytes() != base.tobytes():
                    violations.append(Violation(f"not-reproducible-{name}", f"same seed, target and settings ({cfg['kind']}, mass {cfg['mass']}) but different samples under '{name}'",
                                                {"cfg": cfg, "variant": name}))
            seen.add(common.case_hash(cfg))
            longer = one_run(cfg, wd, "long", proposals=cfg["P"] * 2)
            dist["comparisons"] += 1
            if longer[:, :base.shape[1]].tobytes() != base.tobytes():
                violations.append(Violation("not-a-prefix", f"run with {cfg['P']} proposals is not a prefix of the run with {cfg['P'] * 2} proposals (same seed)", {"cfg": cfg}))
            otherseed = one_run(cfg, wd, "seed2", seed=cfg["seed"] + 1)
            moved = base.shape[1] > 1 and any(base[:, j].tobytes() != base[:, 0].tobytes() for j in range(1, base.shape[1]))
            if otherseed.tobytes() == base.tobytes() and moved:        # a chain that never left its start says nothing about the seed
                violations.append(Violation("seed-ignored", "two different seeds give identical chains", {"cfg": cfg}))
            if i < 2:
                samples.append({"cfg": cfg, "variants": [v[0] for v in variants], "columns": int(base.shape[1])})
        # generate(rng=seeded) is a deterministic function of the generator
        D = hmclab.Distributions
        for k in range(20 if tier == "quick" else 200):
            target, tk, d = make_target(random.Random(k), D, 2)
            if tk in ("himmelblau", "linear", "bayes"):
                continue
            dist["generate_checks"] += 1
            numpy.random.seed(k)
            a = target.generate(5, rng=numpy.random.default_rng(123))
            numpy.random.seed(k + 1)
            numpy.random.rand(7)
            b = target.generate(5, rng=numpy.random.default_rng(123))
            if numpy.asarray(a).tobytes() != numpy.asarray(b).tobytes():
                violations.append(Violation(f"generate-not-deterministic-{type(target).__name__}", f"{type(target).__name__}.generate(rng=default_rng(123)) differs between two calls", {"target": tk}))
    finally:
        shutil.rmtree(wd, ignore_errors=True)
    return {
        "evaluations": dist["runs"] + dist["generate_checks"], "distinct_nontrivial": len(seen),
        "rule": "seeded HMC (lf/3s/4s, Unit/Diagonal/Full/default mass, autotuning on/off) and RWMH runs on 7 target kinds; every configuration is re-run under: reseeded and "
                "consumed global numpy stream, unrelated library activity, NPY back end, diagnostic mode, progress bar, slow and fast write-buffer clocks, a mass matrix object that already served another sampler or was built with its own generator, visual samplers "
                "with and without animation; doubled proposal count (prefix); seed+1 (must differ); static effect scan of all of hmclab",
        "samples": samples, "violations": violations,
        "traces_validated_against_impl": dist["comparisons"],
        "coverage": {"distribution": dist, "effect_table": info},
        "trusted_base": ["AST scan harness/c09.py: call edges are by simple method name (over-approximation), effects by syntactic patterns",
                         "'different seeds give different chains' is tested only"],
    }


def replay(doc):
    print(doc["replay"])
    return 1
