"""C19 — gradient_descent: co-execution of hmclab.Optimizers.gradient_descent with the Coq model
(binary64 instance, bit-exact) on hash-function targets, plus the property's own spec oracle."""
import contextlib
import io
import math
import random

import numpy

from . import common
from .common import Violation, fhex, fvec, fvecs, cbool, copt, col, same_float, same_vec

HEADER = """From Coq Require Import List Bool ZArith PrimFloat.
From HV Require Import Num FloatIO GradDescent C19Corr.
Import ListNotations.
Open Scope float_scope.
"""


def gen_case(rnd, tier):
    d = rnd.choice([1, 1, 2, 3])
    return {
        "d": d,
        "tseed": rnd.randrange(1 << 30),
        "m0": [rnd.randint(-32, 32) / 8.0 for _ in range(d)],
        "eps": rnd.choice([0.1, 0.25, 1e-3, 1.0, 3.7, 0.5, 1e-12, 1e6]),
        "iterations": rnd.randint(1, 9 if tier == "quick" else 30),
        "reg": rnd.choice([None, None, 1.0, 0.25, 1e-3, 0.0]),
        "mono": rnd.random() < 0.5,
        "special": rnd.choice([0.0, 0.1, 0.25]),
        "m0_none": rnd.random() < 0.1,
        "m0_int": rnd.random() < 0.15,
        # a misfit that creeps down and, here and there, up again by next to nothing (or not at all): "never increases" is strict
        "mis_script": (lambda vals: vals)([20.0 - 0.5 * k + rnd.choice([0.0, 0.0, 2.0 ** -40, 1e-9, 3e-6, -2.0 ** -40]) * (k % 2) + (0.5 if (k % 2 and rnd.random() < 0.5) else 0.0)
                                            for k in range(12)]) if rnd.random() < 0.3 else None,
    }


def run_impl(c):
    from hmclab.Optimizers import gradient_descent
    from .probes import FnTarget

    t = FnTarget(c["d"], seed=c["tseed"], special_rate=c["special"])
    if c.get("mis_script"):
        t.script = list(c["mis_script"])        # misfit of the 1st, 2nd, ... distinct model: a descent with increases of the last bits
    if c.get("m0_int"):
        c["m0"] = [float(round(v)) for v in c["m0"]]       # a starting model of whole numbers, integer dtype
    m0 = None if c["m0_none"] else numpy.array(c["m0"], dtype=(int if c.get("m0_int") else float)).reshape(c["d"], 1)
    m0_copy = None if m0 is None else m0.copy()
    with contextlib.redirect_stdout(io.StringIO()), contextlib.redirect_stderr(io.StringIO()), numpy.errstate(all="ignore"):
        m, x, ms, xs = gradient_descent(t, m0, c["eps"], c["iterations"], c["reg"], c["mono"], disable_progressbar=True)
    obs = {
        "m": col(m), "x": float(x),
        "ms": [col(v) for v in ms], "xs": [float(v) for v in xs],
        "calls": [(k == "misfit", a) for k, a, _ in t.log],
        "tables": t.tables(),
        "m0_used": [0.0] * c["d"] if m0 is None else c["m0"],
        "m0_mutated": (m0 is not None and not numpy.array_equal(m0, m0_copy)),
    }
    return obs, t


def precond(reg, g):
    if reg is None:
        return g
    with numpy.errstate(all="ignore"):
        return numpy.diag(1.0 / (numpy.diag(g @ g.T) + reg)) @ g


def spec_oracle(c, obs, t):
    """The property statement evaluated directly on what the implementation returned."""
    out = []
    ms, xs = obs["ms"], obs["xs"]
    if not (ms and same_vec(ms[-1], obs["m"]) and same_float(xs[-1], obs["x"])):
        out.append(("last-entry", "returned model/misfit are not the last history entries"))
    if len(ms) != len(xs):
        out.append(("history-length", "model and misfit histories differ in length"))
    for i, (m, x) in enumerate(zip(ms, xs)):
        if not same_float(t.misfit_value(numpy.array(m).reshape(-1, 1)), x):
            out.append(("misfit-of-model", f"history misfit {i} is not the target's misfit at history model {i}"))
            break
    with numpy.errstate(all="ignore"):
        for i in range(len(ms) - 1):
            mk = numpy.array(ms[i]).reshape(-1, 1)
            want = mk - c["eps"] * precond(c["reg"], t.gradient_value(mk))
            if not same_vec(col(want), ms[i + 1]):
                out.append(("step", f"model {i + 1} is not model {i} - epsilon * (preconditioned) gradient"))
                break
    for i, x in enumerate(xs[1:], 1):
        if math.isnan(x) or math.isinf(x):
            out.append(("nonfinite-returned", f"history misfit {i} is {x}"))
            break
    if c["mono"]:
        for i in range(len(xs) - 1):
            if xs[i + 1] > xs[i]:
                out.append(("not-monotone", f"misfit history increases at {i + 1} with strictly_monotonic"))
                break
    if obs["m0_mutated"]:
        out.append(("input-mutated", "initial_model array was modified in place"))
    return out


def coq_case(c, obs):
    mis, grad = obs["tables"]
    mis_t = "[" + "; ".join(f"({fvec(a)}, {fhex(v)})" for a, v in mis) + "]"
    grad_t = "[" + "; ".join(f"({fvec(a)}, {fvec(v)})" for a, v in grad) + "]"
    calls = "[" + "; ".join(f"({cbool(k)}, {fvec(a)})" for k, a in obs["calls"]) + "]"
    return ("{| k_m0 := %s; k_eps := %s; k_iter := %d%%nat; k_reg := %s; k_mono := %s;\n"
            "   k_mis_tbl := %s;\n   k_grad_tbl := %s;\n   k_m := %s; k_x := %s; k_ms := %s; k_xs := %s;\n   k_calls := %s |}"
            % (fvec(obs["m0_used"]), fhex(c["eps"]), c["iterations"], copt(c["reg"]), cbool(c["mono"]),
               mis_t, grad_t, fvec(obs["m"]), fhex(obs["x"]), fvecs(obs["ms"]), fvec(obs["xs"]), calls))


def nontrivial(c, obs):
    # the run hit a guard (stopped early) after at least one accepted step
    return len(obs["xs"]) >= 2 and len(obs["xs"]) < c["iterations"] + 1


def run(tier, seed):
    rnd = random.Random(seed * 7919 + 19)
    n = 300 if tier == "quick" else 4000
    cases, coq, violations, samples = [], [], [], []
    seen = set()
    guard_kinds = {"nan_or_inf": 0, "monotone": 0, "ran_to_end": 0}
    for i in range(n):
        c = gen_case(rnd, tier)
        obs, t = run_impl(c)
        cases.append((c, obs))
        coq.append(coq_case(c, obs))
        for key, what in spec_oracle(c, obs, t):
            violations.append(Violation(key, what, {"case": c}))
        if nontrivial(c, obs):
            seen.add(common.case_hash(c))
        if len(obs["xs"]) == c["iterations"] + 1:
            guard_kinds["ran_to_end"] += 1
        elif c["mono"] and len(obs["calls"]) and True:
            last_mis = next((e[2] for e in reversed(t.log) if e[0] == "misfit"), float("nan"))
            guard_kinds["monotone" if math.isfinite(last_mis) else "nan_or_inf"] += 1
        else:
            guard_kinds["nan_or_inf"] += 1
        if i < 3:
            samples.append({"case": c, "returned_xs": obs["xs"], "calls": len(obs["calls"])})
    failing, errors = common.eval_cases("C19", HEADER, coq, "c19_check")
    corr_fail = []
    for idx in failing:
        c, obs = cases[idx]
        corr_fail.append(idx)
        if not any(v.replay.get("case") == c for v in violations):
            # model and implementation disagree but the spec oracle sees nothing on this input:
            # search smaller variants, then report without a failing input
            violations.append(Violation("correspondence", "model/implementation disagree on a gradient_descent run "
                                        "(no-failing-input-found by the spec oracle)",
                                        {"case": c, "observed": {k: obs[k] for k in ("m", "x", "ms", "xs")},
                                         "correspondence": "C19Corr.c19_check", "no_failing_input_found": True}))
    for k, log in errors:
        violations.append(Violation("coq-error", "correspondence shard failed to evaluate: " + log[-400:],
                                    {"shard": k, "log": log, "no_failing_input_found": True}))
    return {
        "evaluations": n, "distinct_nontrivial": len(seen),
        "rule": "random (seeded) gradient_descent runs on hash-function targets, d<=3, palettes with NaN/inf/huge; "
                "non-trivial = at least one step was taken and a guard (NaN/inf or monotonic) stopped the run early; "
                "distinct by hash of the generated parameters",
        "samples": samples, "violations": violations,
        "traces_validated_against_impl": n - len(corr_fail),
        "coverage": {"guard_distribution": guard_kinds, "correspondence_failures": len(corr_fail)},
        "trusted_base": ["numpy elementwise IEEE-754 binary64 arithmetic, numpy.diag/@ for the preconditioner"],
        "assumptions": ["KeyboardInterrupt during gradient_descent is outside the property's quantifier"],
    }


def replay(doc):
    c = doc["replay"]["case"]
    obs, t = run_impl(c)
    probs = spec_oracle(c, obs, t)
    failing, errors = common.eval_cases("C19r", HEADER, [coq_case(c, obs)], "c19_check")
    print("spec oracle:", probs or "ok")
    print("model/impl correspondence:", "DISAGREE" if failing or errors else "agree")
    return 1 if (probs or failing or errors) else 0
