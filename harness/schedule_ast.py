"""Static tie for C01: translate the bodies of HMC._propagate_leapfrog, _propagate_3_stage_simplified,
_propagate_4_stage_simplified and HMC_visual._propagate_leapfrog_visual (as they are in /repo NOW)
into Coq drift/kick programs (coq/gen/Schedule_gen.v) and let Coq prove them equal to the model's
programs by reflexivity.  The translator fails closed: any statement it does not recognise, or that
touches position / momentum / the distribution / the mass matrix / the RNG in an unknown way, is an error."""
import ast
import inspect
import os
import subprocess

from . import common

STATE = {"position", "momentum", "dXdpos"}
GUARDED_ATTRS = {"distribution", "mass_matrix", "rng", "current_model", "current_momentum", "stepsize",
                 "amount_of_steps", "randomize_stepsize", "proposed_model", "proposed_momentum"}


class Unknown(Exception):
    pass


def src(node):
    return ast.unparse(node)


def is_self_attr(node, name):
    return isinstance(node, ast.Attribute) and isinstance(node.value, ast.Name) and node.value.id == "self" and node.attr == name


class Translator:
    def __init__(self, fn):
        self.fn = fn
        self.lets = []          # (name, coq expr)
        self.lits = []          # literal parameters in order of appearance
        self.coefs = set()      # names of coefficient variables
        self.ls_bound = False
        self.consts = {}
        self.done_q = self.done_p = False

    # ---- coefficient expressions
    def expr(self, e):
        if isinstance(e, ast.Constant) and isinstance(e.value, (int, float)) and not isinstance(e.value, bool):
            v = float(e.value)
            if v == 0.5:
                return "(div (ofZ 1) (ofZ 2))"
            if v == int(v) and abs(v) < 1000:
                return f"(ofZ ({int(v)}))"
            self.lits.append(v)
            return f"lit{len(self.lits) - 1}"
        if isinstance(e, ast.Name):
            if e.id == "local_stepsize":
                if not self.ls_bound:
                    raise Unknown("local_stepsize used before it is assigned")
                return "ls"
            if e.id in self.coefs:
                return e.id + "_"
            raise Unknown(f"unknown name {e.id} in a coefficient")
        if isinstance(e, ast.BinOp) and type(e.op) in (ast.Add, ast.Sub, ast.Mult, ast.Div):
            f = {ast.Add: "add", ast.Sub: "sub", ast.Mult: "mul", ast.Div: "div"}[type(e.op)]
            return f"({f} {self.expr(e.left)} {self.expr(e.right)})"
        raise Unknown("coefficient expression not understood: " + src(e))

    def split_product(self, e, is_tail):
        """e = coef * tail, where tail satisfies is_tail; returns the Coq coefficient."""
        if isinstance(e, ast.BinOp) and isinstance(e.op, ast.Mult) and is_tail(e.right):
            return self.expr(e.left)
        raise Unknown("update is not `coefficient * call`: " + src(e))

    def is_kgrad(self, e):
        return (isinstance(e, ast.Call) and isinstance(e.func, ast.Attribute) and e.func.attr == "kinetic_energy_gradient"
                and is_self_attr(e.func.value, "mass_matrix") and [src(a) for a in e.args] == ["momentum", "position", "dXdpos"]
                and not e.keywords)

    def inert(self, st):
        """A statement that can neither change the trajectory nor call the target / mass matrix / rng."""
        for n in ast.walk(st):
            if isinstance(n, ast.Name) and isinstance(n.ctx, (ast.Store, ast.Del)) and (n.id in STATE or n.id in self.coefs or n.id == "local_stepsize"):
                return False
            if isinstance(n, ast.Attribute) and isinstance(n.value, ast.Name) and n.value.id == "self" and n.attr in GUARDED_ATTRS:
                return False
            if isinstance(n, (ast.Return, ast.Break, ast.Continue, ast.Raise, ast.While, ast.For)):
                return False
            if isinstance(n, ast.Call) and isinstance(n.func, ast.Attribute) and n.func.attr in ("corrector", "gradient", "misfit"):
                return False
            if isinstance(n, (ast.AugAssign,)) and isinstance(n.target, ast.Subscript) and isinstance(n.target.value, ast.Name) and n.target.value.id in STATE:
                return False
            if isinstance(n, ast.Subscript) and isinstance(n.ctx, ast.Store) and isinstance(n.value, ast.Name) and n.value.id in STATE:
                return False
        return True

    # ---- statements
    def block(self, stmts, top):
        """returns a list of segments: ('seq', [instr...]) or ('loop', 'n'|'n-1', [instr...])"""
        segs, cur = [], []
        i = 0
        while i < len(stmts):
            st = stmts[i]
            i += 1
            if isinstance(st, ast.Expr) and isinstance(st.value, ast.Constant) and isinstance(st.value.value, str):
                continue
            # position += coef * KEgrad(...)   followed by   corrector(position, momentum)
            if isinstance(st, ast.AugAssign) and isinstance(st.target, ast.Name) and st.target.id == "position" and isinstance(st.op, ast.Add):
                coef = self.split_product(st.value, self.is_kgrad)
                while i < len(stmts) and not self.is_corrector(stmts[i]):
                    if not self.inert(stmts[i]):
                        raise Unknown("between a position update and the corrector: " + src(stmts[i])[:80])
                    i += 1
                if i >= len(stmts):
                    raise Unknown("position update without a following corrector call")
                i += 1
                cur.append(f"Drift {coef}")
                continue
            # dXdpos = gradient(position) ; momentum -= coef * dXdpos
            if (isinstance(st, ast.Assign) and len(st.targets) == 1 and isinstance(st.targets[0], ast.Name) and st.targets[0].id == "dXdpos"
                    and isinstance(st.value, ast.Call) and isinstance(st.value.func, ast.Attribute) and st.value.func.attr == "gradient"
                    and is_self_attr(st.value.func.value, "distribution") and [src(a) for a in st.value.args] == ["position"]):
                if i >= len(stmts):
                    raise Unknown("gradient without momentum update")
                nx = stmts[i]
                i += 1
                if not (isinstance(nx, ast.AugAssign) and isinstance(nx.target, ast.Name) and nx.target.id == "momentum" and isinstance(nx.op, ast.Sub)):
                    raise Unknown("gradient evaluation not followed by `momentum -= c * dXdpos`: " + src(nx)[:80])
                coef = self.split_product(nx.value, lambda e: isinstance(e, ast.Name) and e.id == "dXdpos")
                cur.append(f"Kick {coef}")
                continue
            if isinstance(st, ast.For):
                if not top:
                    raise Unknown("nested loop")
                count = self.loop_count(st.iter)
                if st.orelse:
                    raise Unknown("for/else")
                inner = self.block(st.body, False)
                if len(inner) != 1 or inner[0][0] != "seq":
                    raise Unknown("loop body is not a straight-line sequence")
                if cur:
                    segs.append(("seq", cur))
                    cur = []
                segs.append(("loop", count, inner[0][1]))
                continue
            if top and self.header(st):
                continue
            if self.inert(st):
                continue
            raise Unknown("statement not understood: " + src(st)[:100])
        if cur:
            segs.append(("seq", cur))
        return segs

    def is_corrector(self, st):
        return (isinstance(st, ast.Expr) and isinstance(st.value, ast.Call) and isinstance(st.value.func, ast.Attribute)
                and st.value.func.attr == "corrector" and is_self_attr(st.value.func.value, "distribution")
                and [src(a) for a in st.value.args] == ["position", "momentum"])

    def loop_count(self, it):
        if isinstance(it, ast.Name) and it.id in self.consts:
            it = self.consts[it.id]
        s = src(it)
        if s == "range(self.amount_of_steps)":
            return "n"
        if s == "range(self.amount_of_steps - 1)":
            return "n-1"
        raise Unknown("loop range not understood: " + s)

    def header(self, st):
        """initialisation statements allowed at the top level"""
        s = src(st)
        if s in ("position = self.current_model.copy()", "momentum = self.current_momentum.copy()", "dXdpos = None"):
            return True
        if s in ("self.proposed_model = position.copy()", "self.proposed_model = _numpy.copy(position)"):
            self.done_q = True
            return True
        if s in ("self.proposed_momentum = momentum.copy()", "self.proposed_momentum = _numpy.copy(momentum)"):
            self.done_p = True
            return True
        if isinstance(st, ast.If) and src(st.test) == "self.randomize_stepsize":
            if self.ls_bound:
                raise Unknown("local_stepsize assigned twice")
            if (len(st.body) == 1 and src(st.body[0]) == "local_stepsize = self.rng.uniform(0.5, 1.5) * self.stepsize"
                    and len(st.orelse) == 1 and src(st.orelse[0]) == "local_stepsize = self.stepsize"):
                self.ls_bound = True
                return True
            raise Unknown("step-size randomisation block not understood: " + s[:120])
        if isinstance(st, ast.Assign) and len(st.targets) == 1 and isinstance(st.targets[0], ast.Name):
            name = st.targets[0].id
            if name == "verbose_integration" and isinstance(st.value, ast.Constant) and st.value.value is False:
                self.consts[name] = False
                return True
            if name in STATE or name == "local_stepsize":
                return False
            try:
                e = self.expr(st.value)
            except Unknown:
                return False
            if self.ls_bound and False:
                return False
            self.coefs.add(name)
            self.lets.append((name + "_", e))
            return True
        if isinstance(st, ast.AugAssign) and isinstance(st.target, ast.Name) and st.target.id in self.coefs and isinstance(st.op, ast.Mult):
            e = self.expr(st.value)
            self.lets.append((st.target.id + "_", f"(mul {st.target.id}_ {e})"))
            return True
        if isinstance(st, ast.If) and isinstance(st.test, ast.Name) and self.consts.get(st.test.id) is False:
            # statically false branch: only the else part is live; it may bind the loop iterator
            for s2 in st.orelse:
                if (isinstance(s2, ast.Assign) and len(s2.targets) == 1 and isinstance(s2.targets[0], ast.Name)
                        and src(s2.value).startswith("range(")):
                    self.consts[s2.targets[0].id] = s2.value
                elif not self.inert(s2):
                    raise Unknown("else branch of verbose_integration: " + src(s2)[:80])
            return True
        if (isinstance(st, ast.If) and len(st.body) == 1 and isinstance(st.body[0], ast.Return)
                and src(st.body[0]) == "return super()._propagate_leapfrog()" and not st.orelse):
            return True     # HMC_visual delegates to the plain leapfrog when not animating
        return False

    def translate(self, name):
        segs = self.block(self.fn.body, True)
        if not (self.done_q and self.done_p):
            raise Unknown("proposed_model / proposed_momentum are not assigned from position / momentum")
        if not self.ls_bound:
            raise Unknown("local_stepsize is never assigned")
        parts = []
        for s in segs:
            if s[0] == "seq":
                parts.append("[" + "; ".join(s[1]) + "]")
            else:
                parts.append(f"repeat_prog ({'n' if s[1] == 'n' else 'n - 1'}) [" + "; ".join(s[2]) + "]")
        body = " ++ ".join(parts) if parts else "[]"
        lets = "".join(f"  let {n} := {e} in\n" for n, e in self.lets)
        params = "".join(f" (lit{k} : T N)" for k in range(len(self.lits)))
        return (f"Definition gen_{name} {{N : NumOps}}{params} (n : nat) (ls : T N) : list (@instr N) :=\n{lets}  {body}.\n",
                len(self.lits), list(self.lits))


def extract():
    import hmclab.Samplers as S
    tree = ast.parse(inspect.getsource(S))
    fns = {}
    for cls in tree.body:
        if isinstance(cls, ast.ClassDef) and cls.name in ("HMC", "HMC_visual"):
            for f in cls.body:
                if isinstance(f, ast.FunctionDef) and f.name.startswith("_propagate_"):
                    fns[(cls.name, f.name)] = f
    want = {"lf": ("HMC", "_propagate_leapfrog"), "s3": ("HMC", "_propagate_3_stage_simplified"),
            "s4": ("HMC", "_propagate_4_stage_simplified"), "lfv": ("HMC_visual", "_propagate_leapfrog_visual")}
    out, nl, lits = [], {}, {}
    for key, loc in want.items():
        if loc not in fns:
            raise Unknown(f"method {loc} not found")
        t = Translator(fns[loc])
        text, n, lv = t.translate(key)
        out.append(text)
        nl[key] = n
        lits[key] = lv
    # which method each integrator name dispatches to
    disp = {}
    for cls in tree.body:
        if isinstance(cls, ast.ClassDef) and cls.name in ("HMC", "HMC_visual"):
            for st in cls.body:
                if isinstance(st, ast.Assign) and src(st.targets[0]) == "integrators" and isinstance(st.value, ast.Dict):
                    disp[cls.name] = {k.value: src(v) for k, v in zip(st.value.keys, st.value.values)}
    return out, nl, lits, disp


def check():
    try:
        defs, nl, lits, disp = extract()
    except Unknown as e:
        return False, "translator failed closed: " + str(e)
    except Exception as e:  # noqa
        return False, "translator crashed: " + repr(e)
    want_disp = {"HMC": {"lf": "_propagate_leapfrog", "3s": "_propagate_3_stage_simplified", "4s": "_propagate_4_stage_simplified"},
                 "HMC_visual": {"lf": "_propagate_leapfrog_visual"}}
    if disp != want_disp:
        return False, f"integrator dispatch tables changed: {disp}"
    if (nl["lf"], nl["s3"], nl["s4"], nl["lfv"]) != (0, 2, 3, 0):
        return False, f"unexpected number of coefficient literals per method: {nl}"
    os.makedirs(common.GEN, exist_ok=True)
    path = os.path.join(common.GEN, "Schedule_gen.v")
    with open(path, "w") as f:
        f.write("(* GENERATED from /repo/hmclab/Samplers.py by harness/schedule_ast.py -- do not edit *)\n"
                "From Coq Require Import List ZArith.\nFrom HV Require Import Num Integrators.\nImport ListNotations.\n\n")
        f.write("\n".join(defs))
        f.write("""
(* the extracted schedules ARE the model's programs, for every arithmetic, literal, step count and step size *)
Lemma gen_lf_ok : forall (N : NumOps) n ls, @gen_lf N n ls = lf_prog n ls.
Proof. reflexivity. Qed.
Lemma gen_s3_ok : forall (N : NumOps) a1 b1 n ls, @gen_s3 N a1 b1 n ls = s3_prog a1 b1 n ls.
Proof. reflexivity. Qed.
Lemma gen_s4_ok : forall (N : NumOps) a1 a2 b1 n ls, @gen_s4 N a1 a2 b1 n ls = s4_prog a1 a2 b1 n ls.
Proof. reflexivity. Qed.
Lemma gen_lfv_ok : forall (N : NumOps) n ls, @gen_lfv N n ls = lf_prog n ls.
Proof. reflexivity. Qed.
""")
    rc, out = common.run_coq_file(path)
    if rc != 0:
        return False, "Schedule_gen.v does not check: " + out[-700:]
    return True, f"4 schedules extracted and proved equal to the model (literals {lits['s3']}, {lits['s4']})"
