"""Probes that drive the real hmclab code through its public extension points."""
import hashlib
import math
import struct

import numpy

from hmclab.Distributions import _AbstractDistribution
from hmclab.MassMatrices import _AbstractMassMatrix

INF = float("inf")
NAN = float("nan")


def _h(seed, tag, arr):
    arr = numpy.array(arr, dtype=numpy.float64)
    arr[numpy.isnan(arr)] = numpy.nan      # one canonical NaN: the model cannot see NaN payloads
    b = hashlib.sha256(repr((seed, tag)).encode() + numpy.ascontiguousarray(arr, dtype=numpy.float64).tobytes())
    return int.from_bytes(b.digest()[:8], "little")


class FnTarget(_AbstractDistribution):
    """A target whose misfit and gradient are deterministic functions of the *bits* of the
    argument (hash -> palette).  Every call is logged; the log doubles as the oracle table
    handed to the Coq model.  Values may be NaN/inf/huge according to the palettes."""

    def __init__(self, dimensions, seed=0, misfit_palette=None, grad_palette=None,
                 special_rate=0.15, lower=None, upper=None, glog=None):
        self.dimensions = dimensions
        self.seed = seed
        self.special_rate = special_rate
        self.misfit_palette = misfit_palette or [NAN, INF, -INF, 1e300, -1e300]
        self.grad_palette = grad_palette or [NAN, INF, -INF, 1e200, 0.0]
        self.log = []
        self.glog = glog if glog is not None else []
        self.fault = None      # callable(kind, index) raising at chosen call boundaries
        self.ncalls = 0
        self.script = None     # optional list: misfit of the 1st, 2nd, ... DISTINCT argument (then the hash rule again)
        self._scripted = {}
        if lower is not None or upper is not None:
            self.update_bounds(lower, upper)

    def _tick(self, kind):
        self.ncalls += 1
        if self.fault is not None:
            self.fault(kind, len(self.glog))     # global index of this call in the shared log

    def misfit_value(self, m):
        if getattr(self, "box", None) is not None:      # a bounded target: zero probability outside its box
            a = numpy.asarray(m, dtype=float).flatten()
            if any(a[i] < self.box[0][i] or a[i] > self.box[1][i] for i in range(self.dimensions)):
                return getattr(self, "outside_value", INF)     # +inf, or NaN for a target that is simply undefined there (an unguarded log)
        if self.script is not None:
            key = _h(0, "key", m)
            if key not in self._scripted and len(self._scripted) < len(self.script):
                self._scripted[key] = float(self.script[len(self._scripted)])
            if key in self._scripted:
                return self._scripted[key]
        h = _h(self.seed, "m", m)
        if (h % 1000) < 1000 * self.special_rate:
            return self.misfit_palette[(h // 1000) % len(self.misfit_palette)]
        return float((h // 1000) % 257) / 8.0 - 4.0

    def gradient_value(self, m):
        out = numpy.empty((self.dimensions, 1))
        for i in range(self.dimensions):
            h = _h(self.seed, ("g", i), m)
            if (h % 1000) < 1000 * self.special_rate / 2:
                out[i, 0] = self.grad_palette[(h // 1000) % len(self.grad_palette)]
            else:
                out[i, 0] = float((h // 1000) % 129 - 64) / 16.0
        return out

    def misfit(self, m):
        self._tick("misfit")
        v = self.misfit_value(m)
        a = [float(t) for t in numpy.asarray(m).flatten()]
        self.log.append(("misfit", a, v))
        self.glog.append((0, a, []))
        return v

    def gradient(self, m):
        self._tick("gradient")
        g = self.gradient_value(m)
        a = [float(t) for t in numpy.asarray(m).flatten()]
        self.log.append(("gradient", a, [float(t) for t in g.flatten()]))
        self.glog.append((1, a, []))
        return g

    def corrector(self, coordinates, momentum):
        self._tick("corrector")
        self.glog.append((4, [float(t) for t in coordinates.flatten()], [float(t) for t in momentum.flatten()]))
        return super().corrector(coordinates, momentum)

    def generate(self, repeat=1, rng=None):
        raise NotImplementedError()

    def tables(self):
        mis, grad = [], []
        for kind, arg, val in self.log:
            (mis if kind == "misfit" else grad).append((arg, val))
        return mis, grad


class GenBase:
    """The surface of numpy.random.Generator that samplers, mass matrices and distributions may use, built on two hooks:
    `_z(shape)` (standard normal variates) and `_u(shape, low, high)` (uniform variates).  Whichever method the code
    under test calls -- normal / standard_normal, uniform / random -- ends in the same hook, so the stand-ins do not
    depend on the spelling of a draw.  Everything else is forwarded to a real generator `_fb`."""

    _fb = None

    def _z(self, shape):
        raise NotImplementedError

    def _u(self, shape, low, high):
        return (self._fb or numpy.random.default_rng(0)).uniform(low, high, shape)

    @staticmethod
    def _shape(size):
        if size is None:
            return None
        return tuple(size) if hasattr(size, "__len__") else (int(size),)

    def standard_normal(self, size=None, dtype=None, out=None):
        return self._z(self._shape(size))

    def normal(self, loc=0.0, scale=1.0, size=None):
        z = self._z(self._shape(size))
        if numpy.all(numpy.asarray(loc) == 0.0) and numpy.all(numpy.asarray(scale) == 1.0):
            return z
        return loc + scale * z

    def random(self, size=None, dtype=None, out=None):
        return self._u(self._shape(size), 0.0, 1.0)

    def uniform(self, low=0.0, high=1.0, size=None):
        return self._u(self._shape(size), low, high)

    def __getattr__(self, name):
        if name.startswith("_"):
            raise AttributeError(name)
        fb = self.__dict__.get("_fb") or numpy.random.default_rng(0)
        return getattr(fb, name)


class ScriptedRng(GenBase):
    """Stand-in for numpy.random.Generator on `sampler.rng`: answers from scripts, logs requests (and the values
    returned).  A request for a standard normal array and one for normal(0, 1) are the same request; so are random()
    and uniform(0, 1)."""

    def __init__(self, normals=None, uniforms=None, factors=None, fallback_seed=0):
        self.normals = list(normals or [])
        self.uniforms = list(uniforms or [])
        self.factors = list(factors or [])
        self.requests = []
        self.values = []
        self._fb = numpy.random.default_rng(fallback_seed)
        self.fault = None

    def _z(self, shape):
        self.requests.append(("normal", shape))
        if self.fault:
            self.fault("rng.normal", len(self.requests) - 1)
        if self.normals:
            z = numpy.array(self.normals.pop(0), dtype=float).reshape(shape if shape is not None else ())
        else:
            z = numpy.round(self._fb.normal(size=shape) * 16) / 16
        self.values.append(z)
        return z

    def _u(self, shape, low, high):
        self.requests.append(("uniform", float(low), float(high)))
        if self.fault:
            self.fault("rng.uniform", len(self.requests) - 1)
        if (low, high) == (0.5, 1.5):
            v = self.factors.pop(0) if self.factors else 0.5 + numpy.round(self._fb.uniform() * 64) / 64
        elif self.uniforms:
            v = self.uniforms.pop(0)
        else:
            v = numpy.round(self._fb.uniform() * 1024) / 1024
        if shape is not None:
            v = numpy.full(shape, v)
        self.values.append(v)
        return v

    def choice(self, *a, **k):
        self.requests.append(("choice",))
        self.values.append(None)
        return self._fb.choice(*a, **k)


class FnMass(_AbstractMassMatrix):
    """Mass matrix whose kinetic energy is a hash-function of the momentum bits; gradient is a
    fixed diagonal scaling so trajectories stay simple.  Logs every call."""

    def __init__(self, dimensions, seed=0, inv_diag=None, special_rate=0.1, glog=None):
        self.dimensions = dimensions
        self.glog = glog if glog is not None else []
        self.name = "scripted mass matrix"
        self.seed = seed
        self.special_rate = special_rate
        self.inv_diag = numpy.ones((dimensions, 1)) if inv_diag is None else numpy.asarray(inv_diag, float).reshape(dimensions, 1)
        self.log = []
        self.momenta = []       # scripted momenta (lists); fallback: dyadic normals from rng
        self.fault = None
        self.ncalls = 0
        self.script = None     # optional list: kinetic energy of the 1st, 2nd, ... DISTINCT momentum
        self._scripted = {}

    def _tick(self, kind):
        self.ncalls += 1
        if self.fault is not None:
            self.fault(kind, len(self.glog))

    def kinetic_value(self, p):
        if self.script is not None:
            key = _h(0, "key", p)
            if key not in self._scripted and len(self._scripted) < len(self.script):
                self._scripted[key] = float(self.script[len(self._scripted)])
            if key in self._scripted:
                return self._scripted[key]
        h = _h(self.seed, "k", p)
        if (h % 1000) < 1000 * self.special_rate:
            return [NAN, INF, 1e300][(h // 1000) % 3]
        return float((h // 1000) % 129) / 16.0

    def kinetic_energy(self, momentum):
        self._tick("kinetic_energy")
        v = self.kinetic_value(momentum)
        a = [float(t) for t in momentum.flatten()]
        self.log.append(("kinetic_energy", a, v))
        self.glog.append((3, a, []))
        return v

    def kinetic_energy_gradient(self, momentum, position=None, g=None):
        self._tick("kinetic_energy_gradient")
        out = self.inv_diag * momentum
        a = [float(t) for t in momentum.flatten()]
        self.log.append(("kinetic_energy_gradient", a, [float(t) for t in out.flatten()]))
        self.glog.append((2, a, []))
        return out

    def generate_momentum(self):
        self._tick("generate_momentum")
        z = self.rng.normal(size=(self.dimensions, 1))
        self.log.append(("generate_momentum", [], [float(t) for t in numpy.asarray(z).flatten()]))
        self.glog.append((6, [], []))
        return z

    def accept(self):
        self._tick("accept")
        self.log.append(("accept", [], None))
        self.glog.append((7, [], []))

    def reject(self):
        self._tick("reject")
        self.log.append(("reject", [], None))
        self.glog.append((8, [], []))

    @property
    def matrix(self):
        return numpy.diagflat(1.0 / self.inv_diag)


class ExpProxy:
    """Replacement for the module attribute `_numpy` of hmclab.Samplers: forwards everything to
    numpy and logs (x, exp(x)) pairs so that the model's exp table is the implementation's."""

    def __init__(self, glog=None):
        self._np = numpy
        self.exp_log = []
        self.glog = glog if glog is not None else []

    def __getattr__(self, name):
        return getattr(self._np, name)

    def exp(self, x):
        v = self._np.exp(x)
        try:
            self.exp_log.append((float(x), float(v)))
            self.glog.append((5, [float(x)], []))
        except TypeError:
            pass
        return v


def dyadic(rnd, lo=-4.0, hi=4.0, bits=4):
    s = 1 << bits
    return rnd.randint(int(lo * s), int(hi * s)) / s
