"""C03 — mass matrices: (a) Unit / Diagonal / Full / BFGS objects built from generated parameters
(python lists, integer / float32 / float64 arrays): the factor recovered from generate_momentum with
unit draws must square to .matrix, kinetic_energy and its gradient must be 1/2 p^T M^-1 p and M^-1 p
(also enclosed by Coq-Interval around the models kin_diag / kin_full); (b) generated histories of
in-trajectory updates / accept / reject on real BFGS objects co-executed with the history machine
(Model/Bfgs.v); (c) the documented (f eps, M) ~ (eps, M/f^2) equivalence on the real propagators."""
import math
import random

import numpy

from .probes import GenBase
from . import common, distgen
from .common import Violation, col
from .distgen import q, ql, qm, goal, dy, pos

HEADER = """From Coq Require Import List Bool ZArith.
From HV Require Import FloatIO Bfgs C03Corr.
Import ListNotations.
"""


class UnitRng(GenBase):
    """a request for standard normal variates of shape (d, r) returns the k-th unit vector: generate_momentum then
    returns column k of the factor (whichever generator method the mass matrix uses)."""

    def __init__(self, k):
        self.k = k
        self.requests = []

    def _z(self, shape):
        self.requests.append(shape)
        z = numpy.zeros(shape)
        z[self.k, 0] = 1.0
        return z


def make_mass(rnd, M):
    d = rnd.choice([1, 2, 3])
    kind = rnd.choice(["unit", "diagonal", "diagonal", "full", "bfgs"])
    if kind == "unit":
        return kind, M.Unit(d), d, "Unit"
    if kind == "diagonal":
        enc = rnd.choice(["float64", "int", "list", "float32", "int_list", "column"])
        vals = [rnd.choice([1, 2, 4, 9, 16, 3]) for _ in range(d)] if "int" in enc else [pos(rnd, 0.25, 6.0) for _ in range(d)]
        arg = {"float64": numpy.array(vals, dtype=float), "int": numpy.array(vals, dtype=int), "list": [float(v) for v in vals],
               "float32": numpy.array(vals, dtype=numpy.float32), "int_list": [int(v) for v in vals], "column": numpy.array(vals, dtype=float).reshape(-1, 1)}[enc]
        return kind, M.Diagonal(arg), d, f"Diagonal({vals}, given as {enc})"
    a = numpy.array([[dy(rnd, -1, 1) for _ in range(d)] for _ in range(d)])
    mat = a @ a.T + numpy.diag([pos(rnd) for _ in range(d)])
    if kind == "full":
        enc = rnd.choice(["float64", "list", "int", "float32", "int_list", "fortran"])
        if "int" in enc:
            # a whole-number, symmetric positive definite matrix: B B^T + diagonal with small integer entries
            b = numpy.array([[rnd.randint(-2, 2) for _ in range(d)] for _ in range(d)])
            mat = (b @ b.T + numpy.diag([rnd.randint(1, 4) for _ in range(d)])).astype(float)
        if enc in ("float64", "list", "fortran"):
            mat = mat * rnd.choice([1.0, 1.0, 2.0 ** -40, 2.0 ** 30])        # a metric in other units (all entries tiny, or huge)
        arg = {"float64": mat.copy(), "list": mat.tolist(), "int": mat.astype(int), "float32": mat.astype(numpy.float32),
               "int_list": [[int(v) for v in row] for row in mat.tolist()], "fortran": numpy.asfortranarray(mat.copy())}[enc]
        if enc == "float32":
            mat = mat.astype(numpy.float32).astype(float)
        return kind, M.Full(arg), d, f"Full({mat.tolist()}, given as {enc})"
    minv = numpy.linalg.inv(mat)
    minv = (minv + minv.T) / 2
    return kind, M.BFGS(d, numpy.zeros((d, 1)), numpy.ones((d, 1)), Minv=minv.copy()), d, f"BFGS(Minv={minv.tolist()})"


def static_case(rnd, M):
    kind, mass, d, desc = make_mass(rnd, M)
    out, goals = [], []
    matrix = numpy.array(mass.matrix, dtype=float)
    cols = []
    for k in range(d):
        mass.rng = UnitRng(k)
        cols.append(numpy.asarray(mass.generate_momentum(), dtype=float).reshape(d))
    A = numpy.array(cols).T
    tol = (1e-4 if "Full" in desc else 1e-5) if "float32" in desc else 1e-9     # float32 input: working precision of the given data
    # (entries compared against the size of the matrix: an exact zero next to entries of 1e9 is reproduced up to rounding of those)
    if not (numpy.allclose(A @ A.T, matrix, rtol=tol, atol=1e-12) or float(numpy.max(numpy.abs(A @ A.T - matrix))) <= tol * float(numpy.max(numpy.abs(matrix)))):
        out.append((f"factor-{kind}", f"{desc}: generate_momentum() = A z with A A^T = {(A @ A.T).tolist()} but the reported matrix is {matrix.tolist()}"))
    p = [dy(rnd, -3, 3) for _ in range(d)]
    pa = numpy.array(p, dtype=float).reshape(-1, 1)
    with numpy.errstate(all="ignore"):
        kin = float(mass.kinetic_energy(pa.copy()))
        kg = numpy.asarray(mass.kinetic_energy_gradient(pa.copy()), dtype=float).reshape(d)
    sol = numpy.linalg.solve(matrix, pa).reshape(d)
    if not (abs(kin - 0.5 * float(pa.reshape(d) @ sol)) <= tol * max(1.0, abs(kin))):
        out.append((f"kinetic-energy-{kind}", f"{desc}: kinetic_energy({p}) = {kin}, 1/2 p^T M^-1 p = {0.5 * float(pa.reshape(d) @ sol)}"))
    # (a component that is the difference of two large terms is exact only relative to the size of the whole vector)
    if not (kg.shape == sol.shape and float(numpy.max(numpy.abs(kg - sol))) <= tol * float(numpy.max(numpy.abs(sol))) + 1e-12 * (1.0 if float(numpy.max(numpy.abs(sol))) < 1e6 else 0.0)
            or numpy.allclose(kg, sol, rtol=tol, atol=1e-12)):
        out.append((f"kinetic-gradient-{kind}", f"{desc}: kinetic_energy_gradient({p}) = {kg.tolist()}, M^-1 p = {sol.tolist()}"))
    if math.isfinite(kin) and numpy.all(numpy.isfinite(kg)):
        if kind in ("unit", "diagonal"):
            dv = [float(matrix[i, i]) for i in range(d)]
            goals.append(goal(f"misfit (kin_diag {ql(dv)}) {ql(p)}", kin, tol))
            goals += [goal(f"nth {i} (gradient (kin_diag {ql(dv)}) {ql(p)}) 0", kg[i], tol) for i in range(d)]
        elif kind == "full":
            P = numpy.linalg.inv(matrix)
            ftol = 1e-4 if "float32" in desc else 1e-8       # float32 input: the factorisation runs in single precision
            goals.append(goal(f"misfit (kin_full {qm(P.tolist())}) {ql(p)}", kin, ftol))
            # (tolerance of each component relative to the size of the whole vector: a component may be the difference of large terms)
            gmax = float(numpy.max(numpy.abs(kg)))
            goals += [goal(f"nth {i} (gradient (kin_full {qm(P.tolist())}) {ql(p)}) 0", kg[i], ftol, max(1e-12, ftol * gmax)) for i in range(d)]
    return kind, desc, out, goals


def bfgs_history(rnd, M, tier):
    d = rnd.choice([1, 2, 3])
    mass = M.BFGS(d, numpy.zeros((d, 1)), numpy.ones((d, 1)))
    mass.rng = numpy.random.default_rng(3)
    ops, obs, probs = [], [], []
    last_acc = mass.Minv.copy()
    last_ref = (numpy.array(mass.m, dtype=float).copy(), numpy.array(mass.g, dtype=float).copy())
    n = rnd.randint(3, 14 if tier == "quick" else 40)
    for k in range(n):
        x = rnd.random()
        if x < 0.6:
            m = numpy.array([[dy(rnd, -2, 2)] for _ in range(d)])
            s = m - mass.m
            want_pos = rnd.random() < 0.7
            y = s * rnd.choice([0.5, 1.0, 2.0]) if want_pos else -s * rnd.choice([0.0, 1.0])
            if want_pos and d > 1:
                y = y + 0.1 * numpy.roll(s, 1)
            if d >= 2 and rnd.random() < 0.12:
                # positive curvature but so ill-conditioned that the factorisation of the updated metric fails: the update is refused
                s = numpy.zeros((d, 1))
                s[0, 0] = 1.0
                m = mass.m + s
                y = numpy.array([[3 * 2.0 ** -12], [2.0 ** 30], [2.0 ** 29]][:d])
            g = mass.g + y
            curv = float((s.T @ y).item()) > 0.0
            before = mass.Minv.copy()
            with numpy.errstate(all="ignore"):
                mass.kinetic_energy_gradient(numpy.ones((d, 1)), m, g)
            applied = not numpy.array_equal(before, mass.Minv)
            ops.append(f"Update {str(curv).lower()} {str(applied or not curv).lower()}")
        elif x < 0.8:
            mass.accept()
            last_acc = mass.Minv.copy()
            last_ref = (numpy.array(mass.m, dtype=float).copy(), numpy.array(mass.g, dtype=float).copy())
            ops.append("Accept")
        else:
            mass.reject()
            ops.append("Reject")
        with numpy.errstate(all="ignore"):
            try:
                cnd = float(numpy.linalg.cond((mass.Minv + mass.Minv.T) / 2.0))
            except numpy.linalg.LinAlgError:
                cnd = float("inf")
        if not (cnd <= 1e12):
            # an ill-conditioned update that the Cholesky test let through: with a condition number beyond 1e12 the update formula
            # loses symmetry to cancellation, and nothing about the metric can be decided in binary64 any more; the history ends here
            ops.pop()
            break
        # the factor in use is the factor of the metric in use: recomputed the way the class computes it (a residual test
        # of LTinv LTinv^T Minv = I is meaningless for the ill-conditioned metrics that refused updates come with)
        try:
            ref = numpy.linalg.inv(numpy.linalg.cholesky(mass.Minv).transpose())
            fac_ok = numpy.allclose(mass.LTinv, ref, rtol=1e-9, atol=0.0)
        except numpy.linalg.LinAlgError:
            fac_ok = False
        same = numpy.allclose(mass.Minv, last_acc, rtol=1e-12, atol=1e-14)
        if ops[-1] == "Reject":
            # ... the whole state: the reference position / gradient the next update is taken from as well
            same = same and numpy.array_equal(numpy.array(mass.m, dtype=float), last_ref[0]) and numpy.array_equal(numpy.array(mass.g, dtype=float), last_ref[1])
        obs.append((bool(fac_ok), bool(same) if ops[-1] == "Reject" else True))
        if not fac_ok:
            probs.append(("bfgs-factor-stale", f"after {ops}: generate_momentum uses a factor LTinv that is not the factor of the current metric Minv "
                          "(momenta are not Gibbs-distributed for the kinetic energy in use)"))
        if ops[-1] == "Reject" and not same:
            probs.append(("bfgs-reject-not-restored", f"after {ops}: rejection did not restore the state of the last acceptance (metric, reference position and gradient)"))
        # symmetric up to rounding, measured against the size of the matrix (after an ill-conditioned update its entries span sixty
        # binary orders of magnitude; an element-wise comparison would ask small entries to be exact)
        sym = float(numpy.linalg.norm(mass.Minv - mass.Minv.T)) <= 1e-10 * float(numpy.linalg.norm(mass.Minv)) + 1e-300
        try:
            numpy.linalg.cholesky(mass.Minv)
            pd = True
        except numpy.linalg.LinAlgError:
            pd = False
        if not (sym and pd):
            asym = float(numpy.linalg.norm(mass.Minv - mass.Minv.T)) / max(float(numpy.linalg.norm(mass.Minv)), 1e-300)
            probs.append(("bfgs-not-spd", f"after {ops}: metric symmetric={sym} (relative asymmetry {asym:.3g}), positive definite={pd}; Minv = {mass.Minv.tolist()}"))
        if probs:
            break
    return ops, obs, probs[:1]


def scaling_case(rnd):
    import hmclab
    from .c01 import make_sampler, propagate
    M, D = hmclab.MassMatrices, hmclab.Distributions
    d = rnd.choice([1, 2, 3])
    f = rnd.choice([2.0, 0.5, 4.0, 3.0, 0.7])
    eps = rnd.choice([0.05, 0.1, 0.25])
    integ = rnd.choice(["lf", "3s", "4s"])
    target = D.Normal(numpy.array([[dy(rnd)] for _ in range(d)]), numpy.array([[pos(rnd)] for _ in range(d)]))
    kind = rnd.choice(["diagonal", "full"])
    if kind == "diagonal":
        dv = numpy.array([pos(rnd) for _ in range(d)])
        m1, m2 = M.Diagonal(dv.copy()), M.Diagonal(dv / f ** 2)
    else:
        a = numpy.array([[dy(rnd, -1, 1) for _ in range(d)] for _ in range(d)])
        mat = a @ a.T + numpy.eye(d)
        m1, m2 = M.Full(mat.copy()), M.Full(mat / f ** 2)
    z = numpy.array([[dy(rnd, -2, 2)] for _ in range(d)])
    q0 = [dy(rnd) for _ in range(d)]

    class Z(GenBase):
        def _z(self, shape):
            return z.copy()
    steps = rnd.randint(1, 5)
    res = []
    for mass, step in ((m1, f * eps), (m2, eps)):
        mass.rng = Z()
        p0 = mass.generate_momentum()
        smp = make_sampler({"d": d, "stepsize": step, "steps": steps, "randomize": False}, target, mass, Z())
        q1, p1, _ = propagate(smp, integ, q0, col(p0))
        k0, k1 = float(mass.kinetic_energy(p0)), float(mass.kinetic_energy(numpy.array(p1).reshape(-1, 1)))
        res.append((q1, p1, k0, k1))
    (qa, pa, ka0, ka1), (qb, pb, kb0, kb1) = res
    ok = numpy.allclose(qa, qb, rtol=1e-9, atol=1e-12) and numpy.allclose(numpy.array(pa) / f, pb, rtol=1e-9, atol=1e-12) \
        and abs(ka0 - kb0) <= 1e-9 * max(1, abs(ka0)) and abs((ka1 - ka0) - (kb1 - kb0)) <= 1e-8 * max(1, abs(ka1))
    return ok, f"{kind} mass, {integ}, {steps} steps: stepsize {f}*{eps} with M vs {eps} with M/{f}^2: proposals {qa} vs {qb}, kinetic energy change {ka1 - ka0} vs {kb1 - kb0}"


def run(tier, seed):
    common.setup_env()
    import hmclab
    M = hmclab.MassMatrices
    rnd = random.Random(seed * 7919 + 3)
    n = 200 if tier == "quick" else 3000
    goals, owners, descs, violations, samples, seen = [], [], [], [], [], set()
    dist = {"unit": 0, "diagonal": 0, "full": 0, "bfgs": 0, "histories": 0, "history_ops": 0, "update_then_reject": 0, "scaling_cases": 0}
    for i in range(n):
        try:
            kind, desc, probs, gs = static_case(rnd, M)
        except Exception as e:  # noqa
            violations.append(Violation("mass-matrix-raised", f"mass matrix construction or evaluation raised {type(e).__name__}: {e}", {"index": i}))
            continue
        dist[kind] += 1
        for key, what in probs:
            violations.append(Violation(key, what, {"desc": desc}))
        for g in gs:
            goals.append(g)
            owners.append(len(descs))
        descs.append(desc)
        if i < 2:
            samples.append({"mass": desc})
    coq, metas = [], []
    for k in range(120 if tier == "quick" else 2000):
        ops, obs, probs = bfgs_history(rnd, M, tier)
        dist["histories"] += 1
        dist["history_ops"] += len(ops)
        utr = any(a.startswith("Update true") and b == "Reject" for a, b in zip(ops, ops[1:]))
        dist["update_then_reject"] += int(utr)
        if utr:
            seen.add(common.case_hash(ops))
        for key, what in probs:
            violations.append(Violation(key, what, {"history": ops}))
        coq.append("{| h_ops := [%s]; h_obs := [%s] |}" % ("; ".join(ops), "; ".join(f"({str(a).lower()}, {str(b).lower()})" for a, b in obs)))
        metas.append(ops)
        if k < 1:
            samples.append({"bfgs_history": ops, "observations": obs})
    for k in range(40 if tier == "quick" else 500):
        dist["scaling_cases"] += 1
        ok, what = scaling_case(rnd)
        if not ok:
            violations.append(Violation("scaling-equivalence", what, {"scaling": what}))
    header = distgen.HEADER.replace("From HV Require Import Dist DistExtra.", "From HV Require Import Num NumR Integrators Dist DistExtra LinAlg DistDeriv IntegratorProofs MassProofs.")
    failing, errors = distgen.run_goals("C03", goals, header=header)
    flagged_d = {v.replay.get("desc") for v in violations}
    for k in sorted({owners[j] for j in failing}):
        if descs[k] in flagged_d:
            continue
        violations.append(Violation("correspondence", f"{descs[k]}: kinetic energy / gradient outside the interval enclosure of the model",
                                    {"desc": descs[k], "no_failing_input_found": True}))
    hf, herr = common.eval_cases("C03", HEADER, coq, "c03_check", shard=60)
    flagged_h = {common.case_hash(v.replay.get("history")) for v in violations if "history" in v.replay}
    for j in hf:
        if common.case_hash(metas[j]) in flagged_h:
            continue
        violations.append(Violation("correspondence-history", "BFGS history machine and the real BFGS object disagree on factor/metric consistency after some operation",
                                    {"history": metas[j], "no_failing_input_found": True}))
    for k, log in errors + herr:
        violations.append(Violation("coq-error", "shard failed: " + log[-300:], {"log": log, "no_failing_input_found": True}))
    return {
        "evaluations": n + dist["histories"] + dist["scaling_cases"], "distinct_nontrivial": len(seen),
        "rule": "mass matrices of dimension 1-3 from lists / int / float32 / float64 / column arrays (Unit, Diagonal, Full, BFGS): factor via unit draws, kinetic "
                "energy and gradient at a dyadic momentum; BFGS histories of 3-14 (thorough 40) operations with positive and non-positive curvature updates; "
                "scaling equivalence on the real propagators with Diagonal and Full masses; non-trivial = BFGS history with an effective update followed by a rejection",
        "samples": samples, "violations": violations,
        "traces_validated_against_impl": dist["histories"] - len(hf),
        "coverage": {"distribution": dist, "interval_goals": len(goals), "interval_goals_failed": len(failing), "history_correspondence_failures": len(hf)},
        "trusted_base": ["scipy cho_factor/cho_solve and numpy.linalg.cholesky/inv return factors / solutions of the systems they are given (checked numerically here)",
                         "Cholesky failure inside BFGS._update is modelled (chol_ok = false) but not reachable with exact SPD updates; not exercised"],
    }


def replay(doc):
    print(doc["replay"])
    print("cases are regenerated from the seed; re-run the check with the same VERIF_SEED")
    return 1
