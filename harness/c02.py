"""C02 — accept/reject realises the Metropolis rule: full sample() runs of the real RWMH/HMC on
hash-function targets and scripted random numbers, co-executed with the Coq sampler model
(bit-exact), plus the property's statement evaluated on per-transition snapshots."""
import math
import random
import shutil

import numpy

from . import common, sampler_runs as sr
from .common import Violation, same_float, same_vec


def spec_oracle(cfg, r):
    out = []
    if r.exception is not None:
        return [("sampling-raised", f"sample() raised {type(r.exception).__name__}: {r.exception}")]
    snaps = r.snaps
    exps = r.proxy.exp_log
    if len(snaps) != cfg["P"]:
        return [("transition-count", f"{len(snaps)} transitions for {cfg['P']} proposals")]
    if len(exps) != cfg["P"]:
        exps = [(None, None)] * cfg["P"]       # the code evaluates exp differently: the rule below does not depend on how
    acc = 0
    reqs, vals = r.rng.requests, getattr(r.rng, "values", [])
    for k, (s, (x, v)) in enumerate(zip(snaps, exps)):
        # the uniform number the code actually compared with: the last (0, 1) draw of this transition
        lo_, hi_ = (snaps[k - 1].get("req_end", 0) if k else 0), s.get("req_end", 0)
        mine = [j for j in range(lo_, min(hi_, len(vals))) if reqs[j][:3] == ("uniform", 0.0, 1.0)]
        u = float(numpy.asarray(vals[mine[-1]]).flatten()[0]) if mine else cfg["us"][k]
        decided = s["acc_after"] > s["acc_before"]
        if cfg["kind"] == "rwmh":
            e_cur, e_prop = s["x_before"], s["proposed_x"]
            if not same_float(e_prop, r.target.misfit_value(numpy.array(s["proposed"]).reshape(-1, 1))):
                out.append(("energy", f"transition {k}: proposed misfit is not the target's misfit of the proposal"))
        else:
            cm = r.target.misfit_value(numpy.array(s["cur_before"]).reshape(-1, 1))
            # "the respective momentum" of the current state is the one drawn for this transition, as the mass matrix handed it
            # out (a copy taken at that moment: the sampler's own attribute may have been written to since)
            drawn = [e[2] for e in r.mass.log if e[0] == "generate_momentum"]
            p_cur = drawn[k] if k < len(drawn) else s["mom"][0]
            e_cur = cm + r.mass.kinetic_value(numpy.array(p_cur).reshape(-1, 1))
            e_prop = (r.target.misfit_value(numpy.array(s["proposed"]).reshape(-1, 1))
                      + r.mass.kinetic_value(numpy.array(s["mom"][1]).reshape(-1, 1)))
        with numpy.errstate(all="ignore"):
            want_x = numpy.float64(e_cur) - numpy.float64(e_prop)
            want_a = numpy.exp(want_x)
        if x is not None and not same_float(want_x, x):
            out.append(("energy", f"transition {k}: acceptance exponent {x} is not E_current - E_proposed = {want_x}"))
        want = bool(u < want_a)
        if decided != want:
            out.append(("rule", f"transition {k}: u={u}, exp(dE)={want_a}: accepted={decided}, rule says {want}"))
        if (math.isnan(e_prop) or e_prop == float("inf")) and decided:
            out.append(("nonfinite-accepted", f"transition {k}: proposal with energy {e_prop} was accepted"))
        if decided:
            acc += 1
            if not (same_vec(s["cur_after"], s["proposed"]) and same_float(s["x_after"], s["proposed_x"])):
                out.append(("accept-state", f"transition {k}: state/misfit after acceptance are not the proposal's"))
        else:
            keep_x = s["x_before"] if cfg["kind"] == "rwmh" else r.target.misfit_value(numpy.array(s["cur_before"]).reshape(-1, 1))
            if not (same_vec(s["cur_after"], s["cur_before"]) and same_float(s["x_after"], keep_x)):
                out.append(("reject-state", f"transition {k}: state/misfit changed by a rejection"))
        if s["acc_after"] - s["acc_before"] not in (0, 1):
            out.append(("counter", f"transition {k}: counter moved by {s['acc_after'] - s['acc_before']}"))
        hist_s = list(getattr(r, "hist_s", []) or [])
        if cfg["kind"] == "rwmh" and (not cfg["tune"] or k < len(hist_s)):
            zj = [j for j in range(lo_, min(hi_, len(vals))) if reqs[j][0] == "normal"]
            z = (numpy.asarray(vals[zj[0]], dtype=float) if zj else numpy.array(cfg["zs"][k])).reshape(-1, 1)      # the normal draw of this transition
            cur = numpy.array(s["cur_before"]).reshape(-1, 1)
            st = (numpy.array(cfg["stepvec"]).reshape(-1, 1) if cfg["stepmode"] == "vector" else cfg["stepsize"])
            if cfg["tune"]:
                # a tuned run: the step size of this proposal is the one the sampler recorded for it (times the per-dimension part)
                st = float(hist_s[k]) * (numpy.array(cfg["stepvec"]).reshape(-1, 1) if cfg["stepmode"] == "vector" else 1.0)
            want_p = numpy.asarray(cur + st * 1.0 * z, dtype=float).flatten()
            got_p = numpy.asarray(s["proposed"], dtype=float).flatten()
            # the statement is about real numbers: equal up to a few units in the last place, however the product is associated
            # (bit-exactness is the business of the co-execution with the model)
            okp = want_p.shape == got_p.shape and all(same_float(a, b) or abs(a - b) <= 1e-12 * max(1.0, abs(a), abs(b)) for a, b in zip(want_p, got_p))
            if not okp:
                out.append(("rwmh-proposal", f"transition {k}: proposal is not current + stepsize * z"))
    if r.acc != acc:
        out.append(("counter", f"accepted_proposals={r.acc} but {acc} accepting transitions"))
    # random numbers requested: fixed pattern per proposal, independent of the state
    per = [("normal", (cfg["d"], 1))] + ([("uniform", 0.5, 1.5)] if cfg["kind"] == "hmc" and cfg["randomize"] else []) \
        + [("uniform", 0.0, 1.0)]
    if r.rng.requests != per * cfg["P"]:
        out.append(("rng-pattern", "random numbers requested from sampler.rng deviate from the per-proposal pattern"))
    return out[:4]


def balanced_extremes(rnd, cfg):
    """Scripts misfits and kinetic energies of an HMC run so that misfit and kinetic energy each change by
    several hundred units per transition while the total energy changes by a few units: exp of either part
    alone over- or underflows, exp of the total does not."""
    cur = 800.0 if rnd.random() < 0.5 else 60.0
    mis, kin = [cur], []
    for k in range(cfg["P"]):
        prop = (60.0 if cur > 400 else 800.0) + rnd.randint(-40, 40) / 8.0
        delta = rnd.choice([-3.0, -1.0, -0.25, 0.5, 2.0])            # E_current - E_proposed
        dk = delta - (cur - prop)                                    # k_current - k_proposed
        k_cur = (1.0 if dk < 0 else dk + 1.0) + rnd.randint(0, 8) / 8.0
        mis.append(prop)
        kin += [k_cur, k_cur - dk]
        if cfg["us"][k] < math.exp(delta):
            cur = prop
    cfg["mis_script"], cfg["kin_script"] = mis, kin
    cfg["special"] = 0.0


def reuse_case(rnd, wd):
    """Multi-step history: the same RWMH object is used for an autotuned per-dimension run and then
    for a plain scalar-step run; the second run's proposals must be current + stepsize * z."""
    import contextlib, io, os
    import hmclab.Samplers as S
    from .probes import FnTarget, ScriptedRng
    d = rnd.choice([2, 3])
    vec = [rnd.choice([0.25, 0.5, 2.0, 4.0]) for _ in range(d)]
    s2 = rnd.choice([0.5, 1.0, 0.125])
    first = rnd.choice(["vector-autotune", "vector", "scalar-autotune"])
    target = FnTarget(d, seed=rnd.randrange(1 << 30), special_rate=0.0)
    props = []

    class Snap(S.RWMH):
        def _evaluate_acceptance(self_):
            props.append((common.col(self_.current_model), common.col(self_.proposed_model)))
            return super()._evaluate_acceptance()

    smp = Snap(seed=3)
    zs = [[rnd.randint(-32, 32) / 16.0 for _ in range(d)] for _ in range(8)]
    smp.rng = ScriptedRng(normals=[list(z) for z in zs])
    kw1 = dict(proposals=4, overwrite_existing_file=True, disable_progressbar=True)
    if first == "vector-autotune":
        kw1.update(stepsize=numpy.array(vec).reshape(d, 1), autotuning=True)
    elif first == "vector":
        kw1.update(stepsize=numpy.array(vec).reshape(d, 1))
    else:
        kw1.update(stepsize=0.75, autotuning=True)
    with contextlib.redirect_stdout(io.StringIO()), numpy.errstate(all="ignore"):
        smp.sample(os.path.join(wd, "reuse1.h5"), target, **kw1)
        n1 = len(props)
        smp.sample(os.path.join(wd, "reuse2.h5"), target, stepsize=s2, proposals=4,
                   overwrite_existing_file=True, disable_progressbar=True)
    numpy.seterr(all="warn")
    for k, (cur, prop) in enumerate(props[n1:]):
        want = common.col(numpy.array(cur).reshape(-1, 1) + s2 * numpy.array(zs[4 + k]).reshape(-1, 1))
        if not same_vec(want, prop):
            return [("rwmh-proposal-reuse", f"second run (scalar stepsize {s2}) after a '{first}' run on the same RWMH object: "
                     f"proposal {k} is {prop}, current + stepsize*z is {want}")], {"first": first, "vec": vec, "s2": s2, "d": d}
    return [], {"first": first, "vec": vec, "s2": s2, "d": d}


def start_form_case(rnd, wd, k):
    """The energy a chain carries is the energy of the state it carries, from the first transition on, in whatever form the starting
    model was handed over (column, flat vector, row, nested list) and for real (shape-sensitive) targets."""
    import contextlib, io, os
    import hmclab
    S, D = hmclab.Samplers, hmclab.Distributions
    d = rnd.choice([2, 3, 4])
    mu = numpy.array([[rnd.randint(-8, 8) / 4.0] for _ in range(d)])
    tk = ["normal", "laplace", "normal_full", "mixture"][k % 4]
    if tk == "normal":
        target = D.Normal(mu, numpy.array([[rnd.choice([0.5, 1.0, 2.0])] for _ in range(d)]))
    elif tk == "laplace":
        target = D.Laplace(mu, numpy.array([[rnd.choice([0.5, 1.0, 2.0])] for _ in range(d)]))
    elif tk == "normal_full":
        target = D.Normal(mu, numpy.eye(d) + 0.25 * numpy.ones((d, d)))
    else:
        target = D.Mixture([D.Normal(mu, numpy.ones((d, 1))), D.Normal(mu + 2.0, 0.5 * numpy.ones((d, 1)))], [0.3, 0.7])
    start = numpy.array([[rnd.randint(-12, 12) / 4.0] for _ in range(d)])
    form = ["column", "flat", "row", "list"][(k // 4) % 4]
    arg = {"column": start.copy(), "flat": start[:, 0].copy(), "row": start.T.copy(), "list": [[float(v)] for v in start[:, 0]]}[form]
    kind = rnd.choice(["rwmh", "hmc"])
    seen = []
    base = S.RWMH if kind == "rwmh" else S.HMC

    class Snap(base):
        def _evaluate_acceptance(self_):
            seen.append((numpy.array(self_.current_model, dtype=float).copy(), float(self_.current_x)))
            return super()._evaluate_acceptance()
    kw = dict(stepsize=0.3, **({"amount_of_steps": 2} if kind == "hmc" else {}))
    try:
        with contextlib.redirect_stdout(io.StringIO()), numpy.errstate(all="ignore"):
            Snap(seed=k).sample(os.path.join(wd, "form.h5"), target, proposals=3, initial_model=arg, overwrite_existing_file=True, disable_progressbar=True, **kw)
    except Exception as e:  # noqa  (a form the sampler refuses is not the subject here)
        numpy.seterr(all="warn")
        return []
    numpy.seterr(all="warn")
    for j, (cur, x) in enumerate(seen):
        want = float(target.misfit(cur.reshape(-1, 1).copy()))
        if kind == "rwmh" and not (abs(x - want) <= 1e-12 * max(1.0, abs(want))):
            return [("carried-misfit", f"{kind} on a {tk} target, starting model given as {form} {start[:, 0].tolist()}: at transition {j} the chain carries misfit {x} "
                     f"for the state {cur.flatten().tolist()}, whose misfit is {want}")]
    return []


def composite_rule_case(rnd, wd, k):
    """The Metropolis rule on composite real targets (Bayes' rule of several terms, some of them normalised so that their misfit is
    negative; mixtures; log-space transforms): accept iff u < exp(E_current - E_proposed) with E the target's own total misfit."""
    import contextlib, io, os
    import hmclab
    from .probes import ScriptedRng
    S, D = hmclab.Samplers, hmclab.Distributions
    d = rnd.choice([1, 2])
    mu = numpy.array([[rnd.randint(-4, 4) / 4.0] for _ in range(d)])
    prior = D.Normal(mu, numpy.full((d, 1), 4.0))
    like = D.Normal(mu + 0.25, numpy.full((d, 1), rnd.choice([0.0025, 0.01, 0.04])))
    like.normalize()                                   # -log p including its constant: negative near the mode
    tk = ["bayes", "bayes3", "mixture"][k % 3]
    if tk == "bayes":
        target = D.BayesRule([prior, like])
    elif tk == "bayes3":
        extra = D.Laplace(mu, numpy.full((d, 1), 0.05))
        extra.normalize()
        target = D.BayesRule([D.Uniform(mu - 3.0, mu + 3.0), prior, like, extra])
    else:
        target = D.Mixture([D.Normal(mu, numpy.full((d, 1), 0.01)), D.Normal(mu + 0.5, numpy.full((d, 1), 0.02))], [0.4, 0.6])
    kind = rnd.choice(["rwmh", "rwmh", "hmc"])
    P = 10
    rng = ScriptedRng(normals=[[rnd.randint(-16, 16) / 64.0 for _ in range(d)] for _ in range(P)], uniforms=[rnd.randint(1, 1023) / 1024.0 for _ in range(P)])
    seen = []
    base = S.RWMH if kind == "rwmh" else S.HMC

    class Snap(base):
        def _evaluate_acceptance(self_):
            before = (numpy.array(self_.current_model, dtype=float).copy(), self_.accepted_proposals)
            prop = numpy.array(self_.proposed_model, dtype=float).copy()
            mom = (numpy.array(self_.current_momentum, dtype=float).copy(), numpy.array(self_.proposed_momentum, dtype=float).copy()) if kind == "hmc" else None
            n_u = sum(1 for q in self_.rng.requests if q[:3] == ("uniform", 0.0, 1.0))
            out = super()._evaluate_acceptance()
            us = [float(numpy.asarray(v).flatten()[0]) for q, v in zip(self_.rng.requests, self_.rng.values) if q[:3] == ("uniform", 0.0, 1.0)][n_u:]
            seen.append((before[0], prop, mom, us[-1] if us else None, self_.accepted_proposals > before[1]))
            return out
    smp = Snap(seed=1)
    smp.rng = rng
    kw = dict(stepsize=1.0) if kind == "rwmh" else dict(stepsize=0.05, amount_of_steps=2)
    try:
        with contextlib.redirect_stdout(io.StringIO()), numpy.errstate(all="ignore"):
            smp.sample(os.path.join(wd, "comp.h5"), target, proposals=P, initial_model=mu + 0.25, overwrite_existing_file=True, disable_progressbar=True, **kw)
    except Exception as e:  # noqa
        numpy.seterr(all="warn")
        return [("sampling-raised", f"{kind} on a {tk} target raised {type(e).__name__}: {str(e)[:100]}")]
    numpy.seterr(all="warn")
    for j, (cur, prop, mom, u, decided) in enumerate(seen):
        if u is None:
            return [("no-uniform-draw", f"{kind} on a {tk} target: transition {j} drew no uniform number")]
        with numpy.errstate(all="ignore"):
            e_cur, e_prop = float(target.misfit(cur.copy())), float(target.misfit(prop.copy()))
            if mom is not None:
                e_cur += 0.5 * float(numpy.sum(mom[0] ** 2))
                e_prop += 0.5 * float(numpy.sum(mom[1] ** 2))
            a = numpy.exp(numpy.float64(e_cur) - numpy.float64(e_prop))
        if abs(float(a) - u) < 1e-9 * max(1.0, u):
            continue                       # the comparison is decided by the last bits of a real target's arithmetic
        if decided != bool(u < a):
            return [("rule-composite", f"{kind} on a {tk} target ({d}-D): transition {j}: u = {u}, exp(E_current - E_proposed) = {float(a)} "
                     f"(E = {e_cur}, {e_prop}): accepted = {decided}")]
    return []


def nontrivial(cfg, r):
    if r.exception is not None or not r.snaps:
        return False
    ds = [s["acc_after"] > s["acc_before"] for s in r.snaps]
    nonfin = any(not math.isfinite(s["proposed_x"]) for s in r.snaps)
    return any(ds) and not all(ds) and nonfin


def run(tier, seed):
    rnd = random.Random(seed * 7919 + 2)
    n = 160 if tier == "quick" else 2500
    wd = common.tmpdir("c02_")
    lits = sr.source_literals()
    cases, coq, violations, samples, seen = [], [], [], [], set()
    dist = {"rwmh": 0, "hmc": 0, "accepts": 0, "rejects": 0, "nonfinite_proposals": 0, "tuned": 0, "balanced_extreme_energies": 0}
    try:
        for i in range(n):
            cfg = sr.gen_run(rnd, thin=1, maxP=(10 if tier == "quick" else 25))
            if cfg["kind"] == "rwmh" and i % 3 == 1:
                # a target with bounds of its own around the starting model: proposals that overshoot are ordinary (rejected) proposals
                cfg["box"] = [[v - rnd.choice([0.125, 0.5, 2.0]) for v in cfg["m0"]], [v + rnd.choice([0.125, 0.5, 2.0]) for v in cfg["m0"]]]
                dist["bounded_rwmh"] = dist.get("bounded_rwmh", 0) + 1
            if i % 6 == 3 and cfg["kind"] == "hmc":
                balanced_extremes(rnd, cfg)
                dist["balanced_extreme_energies"] += 1
            r = sr.run_impl(cfg, wd)
            cases.append((cfg, r))
            for key, what in spec_oracle(cfg, r):
                # the order in which random numbers are requested is how the tie lines the streams up, not part of the statement
                violations.append(Violation(key, what, {"case": cfg, "no_failing_input_found": key == "rng-pattern"}))
            if r.exception is None:
                coq.append(sr.coq_case(cfg, r, lits))
            else:
                coq.append(None)
            dist[cfg["kind"]] += 1
            dist["tuned"] += int(cfg["tune"])
            for s in r.snaps:
                dist["accepts" if s["acc_after"] > s["acc_before"] else "rejects"] += 1
                dist["nonfinite_proposals"] += int(not math.isfinite(s["proposed_x"]))
            if nontrivial(cfg, r):
                seen.add(common.case_hash(cfg))
            if i < 2:
                samples.append({"case": {k: cfg[k] for k in ("kind", "d", "P", "tune", "stepsize", "us")},
                                "decisions": [s["acc_after"] > s["acc_before"] for s in r.snaps]})
        for k in range(16 if tier == "quick" else 128):
            dist["start_form_cases"] = dist.get("start_form_cases", 0) + 1
            for key, what in start_form_case(rnd, wd, k):
                violations.append(Violation(key, what, {"start_form_case": k}))
        for k in range(18 if tier == "quick" else 150):
            dist["composite_rule_cases"] = dist.get("composite_rule_cases", 0) + 1
            for key, what in composite_rule_case(rnd, wd, k):
                violations.append(Violation(key, what, {"composite_rule_case": k}))
        reuse_n = 12 if tier == "quick" else 100
        for _ in range(reuse_n):
            probs, desc = reuse_case(rnd, wd)
            for key, what in probs:
                violations.append(Violation(key, what, {"reuse_case": desc}))
    finally:
        shutil.rmtree(wd, ignore_errors=True)
    idx = [i for i, c in enumerate(coq) if c is not None]
    res, errors = sr.eval_runs("C02", [coq[i] for i in idx], ["sc_check_accept", "sc_check_cols", "sc_check_trace"])
    bad = sorted({idx[j] for fl in res.values() for j in fl})
    flagged = {common.case_hash(v.replay.get("case")) for v in violations if "case" in v.replay}
    for i in bad:
        cfg, r = cases[i]
        if common.case_hash(cfg) in flagged:
            continue
        which = [ck for ck, fl in res.items() if idx.index(i) in fl]
        violations.append(Violation("correspondence", "sampler model and implementation disagree (" + ",".join(which) +
                                    "); the spec oracle sees no failing transition",
                                    {"case": cfg, "correspondence": which, "no_failing_input_found": True}))
    for k, log in errors:
        violations.append(Violation("coq-error", "correspondence shard failed: " + log[-300:],
                                    {"log": log, "no_failing_input_found": True}))
    return {
        "evaluations": n, "distinct_nontrivial": len(seen),
        "rule": "seeded random full sample() runs (t=1) of RWMH (scalar/vector step, autotune on/off) and HMC (lf/3s/4s, "
                "randomised step on/off) with hash-function targets and mass matrices whose values include NaN/+-inf/huge, "
                "scripted u incl. 0 and 1-2^-53; non-trivial = run with an accept, a reject and a non-finite proposal energy",
        "samples": samples, "violations": violations,
        "traces_validated_against_impl": len(idx) - len(bad),
        "coverage": {"distribution": dist, "correspondence_failures": len(bad), "transitions": dist["accepts"] + dist["rejects"]},
        "trusted_base": ["numpy.exp as a function graph (tabulated from the implementation's own calls)",
                         "integrator coefficient literals are read from the source by AST (sampler_runs.source_literals)"],
    }


def replay(doc):
    if "reuse_case" in doc["replay"]:
        print("re-run the check: reuse cases are regenerated from the seed", doc["replay"]["reuse_case"])
        return 1
    cfg = doc["replay"]["case"]
    wd = common.tmpdir("c02r_")
    try:
        r = sr.run_impl(cfg, wd)
        probs = spec_oracle(cfg, r)
        res, errors = sr.eval_runs("C02r", [sr.coq_case(cfg, r, sr.source_literals())],
                                   ["sc_check_accept", "sc_check_cols", "sc_check_trace"])
    finally:
        shutil.rmtree(wd, ignore_errors=True)
    print("spec oracle:", probs or "ok")
    print("correspondence failures:", {k: v for k, v in res.items() if v}, errors[:1])
    return 1 if (probs or any(res.values()) or errors) else 0
