"""C18 — layered ray tracer: _tracerays (serial, trace_layers on/off) on generated layer stacks, offsets
and take-off angles in (0, 90) degrees against the binary64 instance of the ray model (sqrt form,
relative tolerance 2^-30), plus the statement itself on the returned ray coordinates (Snell invariant,
monotone depth, travel-time / length / per-layer accounting) and forward() / solved_angles on
homogeneous media (straight-line time within tolerance / velocity)."""
import contextlib
import io
import math
import random

import numpy

from . import common
from .common import Violation, fhex, fvec

HEADER = """From Coq Require Import List Bool ZArith PrimFloat.
From HV Require Import Num FloatIO RayTracer C18Corr.
Import ListNotations.
Open Scope float_scope.
"""


def gen(rnd):
    nlay = rnd.randint(1, 5)
    thick = [rnd.choice([0.25, 0.5, 1.0, 1.5, 2.0, 0.75]) for _ in range(nlay)]
    inter = list(numpy.cumsum(thick))
    vel = [rnd.choice([1.0, 1.5, 2.0, 2.5, 3.0, 0.8, 4.0]) for _ in range(nlay)]
    if rnd.random() < 0.25:
        vel = [vel[0]] * nlay
    X = rnd.choice([0.5, 1.0, 2.0, 3.5, 6.0, 10.0])
    angle = rnd.choice([rnd.uniform(0.5, 89.5), rnd.uniform(1, 30), rnd.uniform(60, 89.9), 45.0, 30.0,
                        rnd.choice([89.93, 89.97, 89.99, 0.01, 0.05])])          # grazing and almost vertical take-offs are in (0, 90) too
    if rnd.random() < 0.15:
        # a finely layered velocity gradient: many thin layers whose velocities differ by a few parts per million
        nlay = rnd.randint(8, 40)
        inter = list(numpy.cumsum([0.125] * nlay))
        v0, dv = rnd.choice([1.0, 2.0, 3.0]), rnd.choice([2.0 ** -20, 2.0 ** -18, 2.0 ** -17])
        vel = [v0 * (1.0 + k * dv) for k in range(nlay)]
        X = rnd.choice([2.0, 6.0, 10.0])
        angle = rnd.choice([20.0, 30.0, 45.0])
    elif rnd.random() < 0.3:
        # interface depths as a user writes them (decimal kilometres, metres with one decimal): not dyadic, so sums and
        # differences of depths round
        scale = rnd.choice([1.0, 1.0, 0.5, 1000.0])
        nd = 1 if scale == 1000.0 else 2
        cuts = sorted({round(scale * rnd.uniform(0.02, 4.0) * rnd.choice([0.1, 1.0, 1.0]), nd) for _ in range(nlay)})
        cuts = [v for v in cuts if v > 0] or [round(scale * 1.0, nd)]        # (at least one interface: a model has a bottom)
        if rnd.random() < 0.6:
            # ... and in particular depths for which top + (bottom - top) is not bottom in binary64 (about 2 % of decimal pairs):
            # any bookkeeping that re-derives an interface depth from a thickness lands one ulp beside the interface
            for _ in range(400):
                a = round(scale * rnd.uniform(0.02, 0.5), nd)
                b = round(a + scale * rnd.uniform(0.3, 2.0), nd)
                if a > 0 and a + (b - a) != b:
                    cuts = [a, b] + [round(b + scale * 0.7 * (j + 1), nd) for j in range(rnd.randint(1, 3))]
                    angle = rnd.uniform(5, 40)
                    break
        inter = cuts
        nlay = len(inter)
        vel = (vel * 6)[:nlay]
        X = X * (1000.0 if scale == 1000.0 else 1.0)
    dtype = "float"
    if rnd.random() < 0.2:
        # a velocity model given in whole units (e.g. m/s) as an integer array
        vel = [float(rnd.choice([1, 2, 3, 4])) for _ in range(nlay)]
        dtype = "int"
    return {"interfaces": [float(v) for v in inter], "velocities": vel, "X": X, "angle": angle, "trace_layers": rnd.random() < 0.5, "velocity_dtype": dtype}


def run_impl(c):
    import sys
    import hmclab
    L = sys.modules["hmclab.Distributions.LayeredRayTracing2D"]
    inter = numpy.array(c["interfaces"])
    vel = numpy.array(c["velocities"], dtype=(int if c.get("velocity_dtype") == "int" else float))
    rz = numpy.array([0.5 * c["interfaces"][-1]])
    with contextlib.redirect_stdout(io.StringIO()), numpy.errstate(all="ignore"):
        res = L._tracerays(inter, vel, numpy.array([0, 0]), c["X"], rz, c["angle"], maxnumiterations=inter.size * 3,
                           keep_upgoing=False, trace_layers=c["trace_layers"])
    ray = numpy.asarray(res[0], dtype=float)
    tt, dist = res[1], res[2]
    per = res[3] if c["trace_layers"] else None
    if tt is None:
        out = 2
    elif ray[-1][0] == c["X"]:
        out = 0
    else:
        out = 1
    return {"ray": ray, "tt": tt, "dist": dist, "per": per, "out": out}


def spec_oracle(c, o):
    probs = []
    if o["out"] == 2:
        return probs
    ray, inter, vel = o["ray"], [0.0] + c["interfaces"], c["velocities"]
    p0 = math.sin(math.radians(c["angle"])) / vel[0]
    tt = dist = 0.0
    per = [0.0] * len(vel)
    for a, b in zip(ray[:-1], ray[1:]):
        ln = math.hypot(b[0] - a[0], b[1] - a[1])
        if ln <= 1e-9:
            continue       # zero-length bookkeeping segments carry no direction
        if b[1] < a[1] - 1e-12:
            probs.append(("not-monotone", f"ray goes up from depth {a[1]} to {b[1]} (angle {c['angle']})"))
            break
        mid = 0.5 * (a[1] + b[1])
        k = max(i for i in range(len(vel)) if inter[i] <= mid + 1e-12)
        k = min(k, len(vel) - 1)
        snell = ((b[0] - a[0]) / ln) / vel[k]
        if abs(snell - p0) > 1e-9 * max(1.0, abs(p0)):
            probs.append(("snell", f"layer {k}: sin(angle)/velocity = {snell}, ray parameter {p0} (angle {c['angle']}, velocities {vel})"))
            break
        tt += ln / vel[k]
        dist += ln
        per[k] += ln
    if not probs:
        if abs(tt - o["tt"]) > 1e-9 * max(1.0, abs(tt)) or abs(dist - o["dist"]) > 1e-9 * max(1.0, abs(dist)):
            probs.append(("accounting", f"returned travel time {o['tt']} / length {o['dist']}, sums over the segments give {tt} / {dist}"))
        if o["per"] is not None and (not numpy.allclose(o["per"], per, rtol=1e-9, atol=1e-12) or abs(float(numpy.sum(o["per"])) - o["dist"]) > 1e-9 * max(1.0, dist)):
            probs.append(("per-layer", f"per-layer lengths {list(o['per'])} do not match the segments {per} / total {o['dist']}"))
    return probs


def coq_case(c, o):
    layers = "[" + "; ".join(f"({fhex(b)}, {fhex(v)})" for b, v in zip(c["interfaces"], c["velocities"])) + "]"
    sin0 = float(numpy.sin(numpy.deg2rad(c["angle"])))
    last = o["ray"][-1]
    per = fvec(o["per"]) if o["per"] is not None else None
    if per is None:
        per = "[]"
    tt = o["tt"] if o["tt"] is not None else 0.0
    dist = o["dist"] if o["dist"] is not None else 0.0
    return ("{| y_layers := %s; y_sin0 := %s; y_X := %s; y_out := %d%%nat; y_x := %s; y_z := %s; y_tt := %s; y_dist := %s; y_perlayer := %s |}"
            % (layers, fhex(sin0), fhex(c["X"]), o["out"], fhex(last[0]), fhex(last[1]), fhex(tt), fhex(dist), per)), o["per"] is not None


def homogeneous_case(rnd):
    import hmclab
    nlay = rnd.randint(2, 5)
    inter = numpy.cumsum([rnd.choice([0.5, 1.0, 1.5]) for _ in range(nlay)])
    v = rnd.choice([1.0, 2.0, 2.5, 3.0])
    X = rnd.choice([1.0, 2.0, 4.0])
    nrec = rnd.randint(1, 5)
    rz = numpy.linspace(0.2, 0.9 * inter[-1], nrec) if nrec > 1 else numpy.array([rnd.choice([0.25, 0.5]) * inter[-1]])
    order = rnd.choice(["top-down", "bottom-up", "shuffled"])          # a receiver array is whatever order the channels come in
    if order == "bottom-up":
        rz = rz[::-1].copy()
    elif order == "shuffled":
        rz = numpy.array(rnd.sample(list(rz), nrec))
    picks = None
    if rnd.random() < 0.5:
        # observed picks on the clock of the recording (a non-zero origin time), and the homogeneous fit made first, as one does
        # before an inversion: forward() is a function of the velocities alone
        t0 = rnd.choice([0.25, -0.5, 1.0, 3.0])
        picks = numpy.hypot(X, rz) / rnd.choice([1.5, 2.0, 2.5]) + t0
    obj = hmclab.Distributions.LayeredRayTracing2D(inter, numpy.array([X]), rz, **({} if picks is None else {"traveltimes_observed": picks}))
    obj.parallel = False
    if picks is not None and nrec >= 2:
        with contextlib.redirect_stdout(io.StringIO()), numpy.errstate(all="ignore"):
            obj.fit_homogeneous()
    numpy.random.seed(rnd.randrange(1 << 30))
    probs = []
    conv = 0
    model = numpy.full(nlay, v)
    # the same object and the same model array, used again after the array was changed in place (a sampler's
    # position buffer) and after the returned travel times were changed by the caller
    for step in range(rnd.choice([1, 2, 3])):
        if step > 0:
            v = rnd.choice([1.0, 1.5, 2.0, 2.5, 3.0])
            model[:] = v
        try:
            with contextlib.redirect_stdout(io.StringIO()), numpy.errstate(all="ignore"), common.time_limit(20):
                tts = obj.forward(model)
        except common.TimeLimit:
            probs.append(("forward-did-not-return", f"homogeneous medium v={v}, offset {X}, receivers {order} {list(rz)} (default tolerance {obj.tolerance}): forward() did not return within 20 s"))
            break
        ang = numpy.asarray(obj.solved_angles, dtype=float)
        tts = numpy.asarray(tts, dtype=float)
        for k in range(nrec):
            if not math.isnan(ang[k]):
                conv += 1
                straight = math.hypot(X, rz[k]) / v
                if abs(tts[k] - straight) > obj.tolerance / v + 1e-12:
                    probs.append(("homogeneous", f"homogeneous medium v={v} (evaluation {step + 1} on the same object and model array{', after fit_homogeneous() on picks with an origin time' if picks is not None else ''}), offset {X}, receivers {order} {list(rz)}, receiver depth {rz[k]}: "
                                  f"travel time {tts[k]}, straight line {straight}, tolerance/velocity {obj.tolerance / v}"))
        try:
            tts += 1000.0          # what the caller does with the result must not matter
        except Exception:  # noqa
            pass
    return probs, conv, nrec


def layered_forward_case(rnd):
    """forward() on a layered medium: the travel time it reports for a converged receiver is that of a ray which, traced again at the
    solved take-off angle, goes down to the receiver line and arrives within the tolerance of the receiver."""
    import sys
    import hmclab
    L = sys.modules["hmclab.Distributions.LayeredRayTracing2D"]
    nlay = rnd.randint(3, 5)
    inter = numpy.cumsum([rnd.choice([0.5, 1.0, 1.5]) for _ in range(nlay)])
    v0 = rnd.choice([1.0, 1.5, 2.0])
    grow = rnd.choice([1.1, 1.2, 1.35, 1.5])              # velocity increasing with depth: part of the fan is post-critical
    vel = numpy.array([v0 * grow ** k for k in range(nlay)])
    X = rnd.choice([2.0, 3.0, 5.0])
    # receivers spread over the model, one of them a hair above an interface
    rz = sorted({round(float(z), 6) for z in list(numpy.linspace(0.3, 0.85 * inter[-1], rnd.randint(2, 4))) + [float(inter[rnd.randrange(nlay - 1)]) - 0.01]})
    rz = numpy.array(rz)
    obj = hmclab.Distributions.LayeredRayTracing2D(inter, numpy.array([X]), rz)
    obj.parallel = False
    numpy.random.seed(rnd.randrange(1 << 30))
    out = []
    try:
        with contextlib.redirect_stdout(io.StringIO()), numpy.errstate(all="ignore"), common.time_limit(40):
            tts = numpy.asarray(obj.forward(vel.copy()), dtype=float)
    except common.TimeLimit:
        return []          # receivers that cannot be reached keep the search busy: not the subject here (see forward-did-not-return)
    ang = numpy.asarray(obj.solved_angles, dtype=float)
    for k in range(len(rz)):
        if math.isnan(ang[k]):
            continue
        with contextlib.redirect_stdout(io.StringIO()), numpy.errstate(all="ignore"):
            res = L._tracerays(inter, vel, numpy.array([0, 0]), X, rz, float(ang[k]), maxnumiterations=inter.size * 3, keep_upgoing=False)
        ray = numpy.asarray(res[0], dtype=float)
        if res[1] is None or ray[-1][0] != X or abs(ray[-1][1] - rz[k]) > obj.tolerance + 1e-12 or abs(res[1] - tts[k]) > 1e-9 * max(1.0, abs(tts[k])):
            out.append(("layered-forward", f"velocities {vel.tolist()}, interfaces {inter.tolist()}, offset {X}: receiver at depth {rz[k]} is reported converged with take-off angle {ang[k]} and "
                        f"travel time {tts[k]}; the ray traced at that angle ends at {ray[-1].tolist()} with travel time {res[1]} (receiver line x = {X}, tolerance {obj.tolerance})"))
            break
    return out


def run(tier, seed):
    common.setup_env()
    rnd = random.Random(seed * 7919 + 18)
    n = 400 if tier == "quick" else 6000
    cases, violations, samples, seen = [], [], [], set()
    coq_plain, coq_layers = [], []
    dist = {"reached": 0, "turned": 0, "out_bottom": 0, "layers_crossed>=2": 0, "homogeneous_runs": 0, "homogeneous_converged": 0}
    for i in range(n):
        c = gen(rnd)
        try:
            o = run_impl(c)
        except Exception as e:  # noqa
            violations.append(Violation("tracer-raised", f"_tracerays raised {type(e).__name__}: {e}", {"case": c}))
            continue
        dist[["reached", "turned", "out_bottom"][o["out"]]] += 1
        nseg = sum(1 for a, b in zip(o["ray"][:-1], o["ray"][1:]) if tuple(a) != tuple(b))
        dist["layers_crossed>=2"] += int(nseg >= 2)
        if nseg >= 2 and o["out"] == 0:
            seen.add(common.case_hash(c))
        for key, what in spec_oracle(c, o):
            violations.append(Violation(key, what, {"case": c}))
        term, has_per = coq_case(c, o)
        (coq_layers if has_per else coq_plain).append((term, c))
        if i < 2:
            samples.append({"case": c, "ray": o["ray"].tolist(), "tt": o["tt"], "dist": o["dist"]})
    for k in range(8 if tier == "quick" else 80):
        try:
            probs, conv, nrec = homogeneous_case(rnd)
        except Exception as e:  # noqa
            violations.append(Violation("forward-raised", f"LayeredRayTracing2D.forward raised {type(e).__name__}: {e}", {"homogeneous_case": k}))
            break
        dist["homogeneous_runs"] += 1
        dist["homogeneous_converged"] += conv
        for key, what in probs:
            violations.append(Violation(key, what, {"homogeneous_case": k}))
    for k in range(10 if tier == "quick" else 80):
        dist["layered_forward_cases"] = dist.get("layered_forward_cases", 0) + 1
        try:
            for key, what in layered_forward_case(rnd):
                violations.append(Violation(key, what, {"layered_forward_case": k}))
        except Exception as e:  # noqa
            violations.append(Violation("forward-raised", f"LayeredRayTracing2D.forward on a layered medium raised {type(e).__name__}: {e}", {"layered_forward_case": k}))
            break
    # cases without per-layer output: compare everything but the per-layer list
    header2 = HEADER + "Definition chk (c : c18_case) := c18_check c.\n"
    fl, errs = common.eval_cases("C18a", HEADER, [t for t, _ in coq_layers], "c18_check", shard=100)
    header_np = HEADER + "Definition chk_np (c : c18_case) : bool := c18_check {| y_layers := y_layers c; y_sin0 := y_sin0 c; y_X := y_X c; y_out := y_out c; y_x := y_x c; y_z := y_z c; y_tt := y_tt c; y_dist := y_dist c; y_perlayer := per_layer (length (y_layers c)) (r_segs (@trace_from NumF (y_layers c) (y_sin0 c) (y_X c))) |}.\n"
    fp, errs2 = common.eval_cases("C18b", header_np, [t for t, _ in coq_plain], "chk_np", shard=100)
    flagged = {common.case_hash(v.replay.get("case")) for v in violations if "case" in v.replay}
    for lst, fails in ((coq_layers, fl), (coq_plain, fp)):
        for j in fails:
            c = lst[j][1]
            if common.case_hash(c) in flagged:
                continue
            violations.append(Violation("correspondence", f"ray model and _tracerays disagree (end point, travel time, length or per-layer lengths) for angle {c['angle']}, "
                                        f"interfaces {c['interfaces']}, velocities {c['velocities']}, offset {c['X']}", {"case": c, "no_failing_input_found": True}))
    for k, log in errs + errs2:
        violations.append(Violation("coq-error", "shard failed: " + log[-300:], {"log": log, "no_failing_input_found": True}))
    return {
        "evaluations": n + dist["homogeneous_runs"], "distinct_nontrivial": len(seen),
        "rule": "1-5 layers with thicknesses 0.25..2, velocities 0.8..4 (25% homogeneous), offsets 0.5..10, take-off angles in (0.5, 89.9) degrees incl. near-grazing, "
                "trace_layers on/off; forward() on homogeneous media with 2-5 receivers; non-trivial = ray reaches the receiver line after crossing >= 2 layers",
        "samples": samples, "violations": violations,
        "traces_validated_against_impl": n - len(fl) - len(fp),
        "coverage": {"distribution": dist, "correspondence_failures": len(fl) + len(fp)},
        "trusted_base": ["sin(arcsin x) = x, cos(arcsin x) = sqrt(1 - x^2) relate the code's angle form to the model's (sin, cos) form; numeric agreement to 2^-30",
                         "the angle search of _search_angles (random refinement) is exercised, not modelled"],
    }


def replay(doc):
    rp = doc["replay"]
    if "case" in rp:
        c = rp["case"]
        o = run_impl(c)
        print("spec oracle:", spec_oracle(c, o) or "ok")
        return 1 if spec_oracle(c, o) else 0
    print(rp)
    return 1
