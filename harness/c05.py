"""C05 — gradient() is the derivative of misfit(): random nestings of the real distribution classes are
built together with their Coq `dist` term; at interior dyadic points misfit() and every component of
gradient() must lie in the kernel-computed interval enclosure of the R-model (Coq-Interval); the
gradient must be a (dimensions,1) array, a function of the point's VALUE (in-place mutated arrays,
repeated calls), and agree with central finite differences of misfit() (spec oracle / search)."""
import copy
import math
import random

import numpy

from . import common, distgen
from .common import Violation


def finite_diff(obj, x, h=1e-6):
    g = numpy.zeros_like(x)
    for i in range(x.size):
        xp, xm = x.copy(), x.copy()
        step = h * max(1.0, abs(x[i, 0]))
        xp[i, 0] += step
        xm[i, 0] -= step
        g[i, 0] = (obj.misfit(xp) - obj.misfit(xm)) / (2 * step)
    return g


def extra_nodes(rnd, D):
    """LinearMatrix and SourceLocation instances (models in DistExtra.v)."""
    import hmclab
    from .distgen import q, ql, qm, dy, pos, col, Node
    kind = rnd.choice(["linear", "linear", "src2d", "src3d"])
    if kind == "linear":
        n, m = rnd.randint(1, 3), rnd.randint(1, 4)
        G = numpy.array([[dy(rnd, -2, 2) for _ in range(n)] for _ in range(m)])
        d = numpy.array([[dy(rnd)] for _ in range(m)])
        ck = rnd.choice(["scalar", "vector", "full"])
        if ck == "scalar":
            cov = float(pos(rnd))
            W = numpy.eye(m) / cov
        elif ck == "vector":
            cov = numpy.array([[pos(rnd)] for _ in range(m)])
            W = numpy.diag(1.0 / cov[:, 0])
        else:
            a = numpy.array([[dy(rnd, -1, 1) for _ in range(m)] for _ in range(m)])
            cov = a @ a.T + numpy.diag([pos(rnd) for _ in range(m)])
            W = numpy.linalg.inv(cov)
        pm = rnd.choice([True, False, None])
        obj = D.LinearMatrix(G.copy(), d.copy(), cov if isinstance(cov, float) else cov.copy(), dtype=numpy.dtype("float64"), premultiplication=pm)
        term_m = lambda x: f"lin_misfit {qm(G.tolist())} {ql(d.flatten())} {qm(W.tolist())} {x}"
        term_g = lambda x: f"lin_gradient {qm(G.tolist())} {ql(d.flatten())} {qm(W.tolist())} {x}"
        nd = Node(obj, None, n, [-3.0] * n, [3.0] * n, f"LinearMatrix({m}x{n}, cov {ck}, premultiplication={pm})")
        nd.misfit_term, nd.grad_term = term_m, term_g
        # the wrapper's concrete classes compute in float32 unless told otherwise: working precision ~ 6e-8 times the
        # size of the terms that are added and subtracted
        A, b_ = numpy.abs(G.T) @ numpy.abs(W) @ numpy.abs(G), numpy.abs(G.T) @ numpy.abs(W) @ numpy.abs(d)
        nd.abs_tol = lambda x: (3e-6 * (0.5 * float(numpy.abs(x) @ A @ numpy.abs(x)) + float(numpy.abs(x) @ b_[:, 0]) + 0.5 * float((numpy.abs(d.T) @ numpy.abs(W) @ numpy.abs(d)).item()) + 1.0),
                                [3e-6 * (float((A @ numpy.abs(x))[i]) + float(b_[i, 0]) + 1.0) for i in range(n)])
        return nd
    three = kind == "src3d"
    ne, ns = rnd.randint(1, 2), rnd.randint(2, 3)
    rx = [dy(rnd, -4, 4) for _ in range(ns)]
    ry = [dy(rnd, -4, 4) if three else 0.0 for _ in range(ns)]
    rz = [dy(rnd, 0, 1) for _ in range(ns)]
    infer = rnd.random() < 0.5
    v = pos(rnd, 1.0, 4.0)
    obs = [[dy(rnd, 0, 6) for _ in range(ns)] for _ in range(ne)]
    for row in obs:
        if rnd.random() < 0.4:
            row[rnd.randrange(ns)] = float("nan")
    sd_scalar = rnd.random() < 0.5
    sds = [[(0.5 if sd_scalar else pos(rnd, 0.25, 2.0)) for _ in range(ns)] for _ in range(ne)]
    args = [numpy.array([rx]), numpy.array([rz])] if not three else [numpy.array([rx]), numpy.array([ry]), numpy.array([rz])]
    cls = D.SourceLocation3D if three else D.SourceLocation2D
    obj = cls(*args, numpy.array(obs), 0.5 if sd_scalar else numpy.array(sds), infer_velocity=infer, medium_velocity=None if infer else v)
    per = 4 if three else 3
    n = ne * per + int(infer)
    stations = "[" + "; ".join(f"({q(a)}, {q(b)}, {q(c)})" for a, b, c in zip(rx, ry, rz)) + "]"
    obs_t = "[" + "; ".join("[" + "; ".join("None" if math.isnan(o) else f"Some {q(o)}" for o in row) + "]" for row in obs) + "]"
    sds_t = qm(sds)

    def split(x):
        ev = []
        for e in range(ne):
            b = x[e * per:(e + 1) * per]
            if three:
                ev.append(f"(({q(b[0])}, {q(b[1])}, {q(b[2])}), {q(b[3])})")
            else:
                ev.append(f"(({q(b[0])}, 0, {q(b[1])}), {q(b[2])})")
        vv = q(x[-1]) if infer else q(v)
        return "[" + "; ".join(ev) + "]", vv

    nd = Node(obj, None, n, ([-4.0] * (per - 1) + [0.0]) * ne + ([1.0] if infer else []), ([4.0] * (per - 1) + [3.0]) * ne + ([4.0] if infer else []),
              f"{cls.__name__}(events={ne}, stations={ns}, infer_velocity={infer}, missing={sum(math.isnan(o) for r in obs for o in r)})")
    nd.src = (split, stations, obs_t, sds_t, three, infer)
    nd.tol = 1e-9

    def fix_point(x):
        # a hypocentre exactly on a station is a kink of the misfit (distance 0): not a point where "the derivative" exists;
        # C17 looks at those points separately
        x = list(x)
        for e in range(ne):
            b = x[e * per:(e + 1) * per]
            pos3 = (b[0], b[1], b[2]) if three else (b[0], 0.0, b[1])
            if any(pos3 == (a, bb, c) for a, bb, c in zip(rx, ry, rz)):
                x[e * per + per - 2] += 0.0625
        return x
    nd.fix_point = fix_point
    return nd


def goals_for(node, x, mis, grad):
    from .distgen import ql, goal
    out = []
    tol = getattr(node, "tol", 1e-9)
    if node.term is not None:
        out.append(goal(f"misfit {node.term} {ql(x)}", mis, tol))
        for i in range(node.dim):
            out.append(goal(f"nth {i} (gradient {node.term} {ql(x)}) 0", grad[i], tol))
    elif hasattr(node, "misfit_term"):
        tm, tg = node.abs_tol(numpy.array(x))
        out.append(goal(node.misfit_term(ql(x)), mis, 0.0, tm))
        for i in range(node.dim):
            out.append(goal(f"nth {i} ({node.grad_term(ql(x))}) 0", grad[i], 0.0, tg[i]))
    else:
        split, stations, obs_t, sds_t, three, infer = node.src
        ev, vv = split(x)
        out.append(goal(f"src_misfit {ev} {vv} {stations} {obs_t} {sds_t}", mis, tol))
        b = "true" if three else "false"
        for i in range(node.dim - int(infer)):
            out.append(goal(f"nth {i} (fst (src_gradient {b} {ev} {vv} {stations} {obs_t} {sds_t})) 0", grad[i], tol))
        if infer:
            out.append(goal(f"snd (src_gradient {b} {ev} {vv} {stations} {obs_t} {sds_t})", grad[-1], tol))
    return out


def spec_checks(node, x, rnd):
    """shape, value-functionality under in-place mutation, finite differences"""
    out = []
    obj = node.obj
    xa = numpy.array(x, dtype=float).reshape(-1, 1)
    with numpy.errstate(all="ignore"):
        pristine = copy.deepcopy(obj)
        distgen.disturb(rnd, obj, xa)
        g = obj.gradient(xa.copy())
        if not (isinstance(g, numpy.ndarray) and g.shape == (node.dim, 1)):
            return [("gradient-shape", f"{node.desc}: gradient has shape {getattr(g, 'shape', None)}, expected {(node.dim, 1)}")], None, None
        mis = obj.misfit(xa.copy())
        # the same ndarray object evaluated, moved in place, evaluated again (as the integrators do)
        work = xa.copy()
        obj.misfit(work)
        obj.gradient(work)
        x2 = distgen.interior_point(rnd, node)
        if hasattr(node, "fix_point"):
            x2 = node.fix_point(x2)
        work[:, 0] = x2
        g_inplace = obj.gradient(work)
        g_fresh = pristine.gradient(numpy.array(x2, dtype=float).reshape(-1, 1))
        if not numpy.allclose(g_inplace, g_fresh, rtol=1e-9, atol=1e-12, equal_nan=True):
            out.append(("gradient-not-a-function-of-the-point", f"{node.desc}: gradient at {x2} after an in-place move of the same array differs from a fresh "
                        f"evaluation: {common.col(g_inplace)} vs {common.col(g_fresh)}"))
        m_inplace = obj.misfit(work)
        if not common.same_float(float(m_inplace), float(pristine.misfit(numpy.array(x2, dtype=float).reshape(-1, 1)))) and \
                abs(float(m_inplace) - float(pristine.misfit(numpy.array(x2, dtype=float).reshape(-1, 1)))) > 1e-9 * max(1, abs(float(m_inplace))):
            out.append(("misfit-not-a-function-of-the-point", f"{node.desc}: misfit at {x2} depends on earlier calls"))
        fd = finite_diff(pristine, xa)
        scale = max(1.0, float(numpy.max(numpy.abs(fd))))
        if not numpy.all(numpy.abs(fd - g) <= 2e-4 * scale):
            out.append(("gradient-vs-finite-difference", f"{node.desc}: gradient {common.col(g)} at {x} but central differences of misfit give {common.col(fd)}"))
    return out, float(mis), common.col(g)


def run(tier, seed):
    common.setup_env()
    import hmclab
    D, T = hmclab.Distributions, hmclab.Distributions
    rnd = random.Random(seed * 7919 + 5)
    numpy.random.seed(seed + 5)
    n = 130 if tier == "quick" else 2000
    goals, owners, metas = [], [], []
    violations, samples, seen = [], [], set()
    dist = {"leaf": 0, "nested": 0, "linear": 0, "source": 0, "depth>=2": 0, "points": 0, "goals": 0, "with_missing_picks": 0}
    for i in range(n):
        if i % 4 == 3:
            node = extra_nodes(rnd, D)
            dist["linear" if hasattr(node, "misfit_term") else "source"] += 1
            dist["with_missing_picks"] += int("missing=0" not in node.desc and "missing=" in node.desc)
        else:
            d = rnd.choice([1, 2, 2, 3])
            node = distgen.combo_tree(rnd, i, D, T) if i < len(distgen.COMBOS) else distgen.tree(rnd, d, D, T, rnd.choice([0, 1, 2, 2, 3]))
            depth = node.term.count("(D")
            dist["nested" if depth else "leaf"] += 1
            dist["depth>=2"] += int(depth >= 2)
        x = distgen.interior_point(rnd, node)
        if hasattr(node, "fix_point"):
            x = node.fix_point(x)
        probs, mis, grad = spec_checks(node, x, rnd)
        if hasattr(node.obj, "misfit"):
            probs = list(probs) + distgen.inplace_consistency(rnd, node.obj, numpy.array(x, dtype=float).reshape(-1, 1), node.desc)
        for key, what in probs:
            violations.append(Violation(key, what, {"desc": node.desc, "point": x, "index": i}))
        if mis is None or not math.isfinite(mis):
            if mis is not None:
                violations.append(Violation("misfit-not-finite-inside", f"{node.desc}: misfit {mis} at interior point {x}", {"desc": node.desc, "point": x}))
            continue
        if not all(math.isfinite(v) for v in grad):
            cls = node.desc.split("(")[0]
            violations.append(Violation(f"gradient-not-finite-{cls}", f"{node.desc}: misfit at interior point {x} is finite ({mis}) but gradient is {grad}",
                                        {"desc": node.desc, "point": x}))
            continue
        gs = goals_for(node, x, mis, grad)
        for g in gs:
            goals.append(g)
            owners.append(len(metas))
        metas.append({"desc": node.desc, "point": x, "misfit": mis, "gradient": grad})
        dist["points"] += 1
        if node.term is None or node.term.count("(D") >= 1:
            seen.add(common.case_hash([node.desc, x]))
        if i < 3:
            samples.append(metas[-1])
    dist["goals"] = len(goals)
    failing, errors = distgen.run_goals("C05", goals)
    bad_cases = sorted({owners[j] for j in failing})
    flagged = {v.replay.get("desc") for v in violations}
    for k in bad_cases:
        m = metas[k]
        if m["desc"] in flagged:
            continue
        violations.append(Violation("correspondence", f"misfit()/gradient() of {m['desc']} at {m['point']} is outside the interval enclosure of the model "
                                    f"(misfit {m['misfit']}, gradient {m['gradient']}); finite differences agree with the implementation",
                                    {"desc": m["desc"], "point": m["point"], "no_failing_input_found": True}))
    for k, log in errors:
        violations.append(Violation("coq-error", "interval shard failed: " + log[-300:], {"log": log, "no_failing_input_found": True}))
    return {
        "evaluations": dist["points"], "distinct_nontrivial": len(seen),
        "rule": "random nestings (depth<=3) of StandardNormal1D, Normal (scalar / per-dimension / full covariance), Laplace, Uniform, Himmelblau inside BayesRule/"
                "AdditiveDistribution, CompositeDistribution, Mixture, TransformToLogSpace, with temperatures and bounds; every 4th case a LinearMatrix (dense, "
                "scalar/vector/full covariance, premultiplication True/False/None) or SourceLocation2D/3D (missing picks, fixed/inferred velocity); one interior dyadic "
                "point each, away from Laplace kinks; non-trivial = wrapper nesting >= 1 or LinearMatrix/SourceLocation",
        "samples": samples, "violations": violations,
        "traces_validated_against_impl": dist["points"] - len(bad_cases),
        "coverage": {"distribution": dist, "interval_goals_failed": len(failing)},
        "trusted_base": ["Coq-Interval tactic (tactic-level success, proofs aborted after the check) with i_prec 64",
                         "inverse covariances / normalisation constants are taken from the object as data (their definitions are C14/C15)"],
    }


def replay(doc):
    print(doc["replay"])
    print("closed-form cases are regenerated from the seed; re-run the check with the same VERIF_SEED")
    return 1
