"""Complete sample() runs of the real RWMH / HMC samplers on scripted probes, and their
translation into cases for the Coq sampler model (Corr/SamplerCorr.v).  Shared by C02, C07, C16."""
import contextlib
import io
import math
import os
import random
import shutil

import numpy

from . import common
from .common import fhex, fvec, fvecs, cbool, copt, col

HEADER = """From Coq Require Import List Bool ZArith PrimFloat.
From HV Require Import Num FloatIO Integrators Sampler Faults SamplerCorr.
Import ListNotations.
Open Scope float_scope.
"""

LITS = {"lf": [], "3s": [0.11888010966548, 0.29619504261126],
        "4s": [0.071353913450279725904, 0.268548791161230105820, 0.191667800000000000000]}
INTEG_CODE = {"lf": 0, "3s": 1, "4s": 2}


def source_literals():
    """Integrator coefficient literals read from the current source (static tie): a source edit of a
    literal is followed by the model, an edit of the *expressions* between them is not."""
    import ast
    import inspect
    import hmclab.Samplers as S

    out = {"lf": []}
    for name, fn, want in (("3s", "_propagate_3_stage_simplified", ["a1", "b1"]),
                           ("4s", "_propagate_4_stage_simplified", ["a1", "a2", "b1"])):
        tree = ast.parse(inspect.getsource(S)).body
        vals = {}
        for node in ast.walk(ast.parse(inspect.getsource(S))):
            if isinstance(node, ast.FunctionDef) and node.name == fn:
                for st in node.body:
                    if isinstance(st, ast.Assign) and len(st.targets) == 1 and isinstance(st.targets[0], ast.Name) \
                            and isinstance(st.value, ast.Constant) and isinstance(st.value.value, float):
                        vals.setdefault(st.targets[0].id, st.value.value)
        out[name] = [vals.get(k, float("nan")) for k in want]
    return out


def gen_run(rnd, kind=None, tune=None, thin=None, maxP=10, special=None, integ=None):
    kind = kind or rnd.choice(["rwmh", "hmc"])
    d = rnd.choice([1, 2, 2, 3])
    t = thin if thin is not None else rnd.choice([1, 1, 2, 3])
    P = t * rnd.randint(1, max(1, maxP // t))
    tune_on = (rnd.random() < 0.5) if tune is None else tune
    cfg = {
        "kind": kind, "d": d, "P": P, "t": t,
        "tseed": rnd.randrange(1 << 30), "mseed": rnd.randrange(1 << 30),
        "m0": [rnd.randint(-16, 16) / 8.0 for _ in range(d)],
        "special": rnd.choice([0.0, 0.15, 0.3]) if special is None else special,
        "tune": tune_on, "target": rnd.choice([0.65, 0.5, 0.9, 0.25]), "lr": rnd.choice([0.75, 0.51, 1.0, 0.6]),
        "zs": [[rnd.randint(-48, 48) / 16.0 for _ in range(d)] for _ in range(P)],
        "us": [rnd.choice([0.0, 2.0 ** -40, 0.5, 1 - 2.0 ** -53, rnd.randint(0, 1023) / 1024.0,
                           rnd.randint(0, 1023) / 1024.0]) for _ in range(P)],
        "backend": "h5",
    }
    if kind == "rwmh":
        mode = rnd.choice(["scalar", "scalar", "vector"])
        cfg["stepmode"] = mode
        cfg["stepsize"] = rnd.choice([1.0, 0.1, 0.25, 3.0, 1e-3, 0.7])
        cfg["stepvec"] = [rnd.choice([0.5, 1.0, 0.1, 2.0, 0.3]) for _ in range(d)]
    else:
        cfg["integrator"] = integ or rnd.choice(["lf", "3s", "4s"])
        cfg["steps"] = rnd.randint(1, 4)
        cfg["stepsize"] = rnd.choice([0.1, 0.25, 1.0, 0.03, 0.7])
        cfg["randomize"] = rnd.random() < 0.5
        cfg["factors"] = [0.5 + rnd.randint(0, 64) / 64.0 for _ in range(P)]
        cfg["invdiag"] = [rnd.choice([1.0, 0.5, 2.0, 0.25]) for _ in range(d)]
    form = rnd.random()
    if form < 0.15:
        # a starting model given as an integer array (whole numbers)
        cfg["m0"] = [float(round(v)) for v in cfg["m0"]]
        cfg["m0_dtype"] = "int"
    elif form < 0.25:
        cfg["m0_dtype"] = "readonly"          # the caller's array must only be read
    elif form < 0.35:
        cfg["m0_dtype"] = "view"              # a strided view into a larger array of the caller
    cfg["diagnostic"] = rnd.random() < 0.25   # diagnostic mode (timed calls) on
    return cfg


class RunResult:
    pass


class ManualClock:
    def __init__(self):
        self.now = 1000.0

    def __call__(self):
        return self.now


def run_impl(cfg, workdir, sampler_hook=None, reuse=None, tag="run"):
    """Runs the real sampler; returns an object with everything observable.
    reuse = an earlier RunResult whose sampler object is used again (C08 reusability)."""
    import hmclab
    import hmclab.Samplers as S
    from .probes import FnTarget, FnMass, ScriptedRng, ExpProxy

    glog = []
    d = cfg["d"]
    tseed = cfg["tseed"]
    target = FnTarget(d, seed=tseed, special_rate=cfg["special"], glog=glog,
                      misfit_palette=[float("nan"), float("inf"), float("-inf"), 1e300, 700.0])
    target.script = cfg.get("mis_script")
    if cfg.get("box") is not None:
        # bounds on the target itself (and its misfit is +inf outside, as for every hmclab distribution)
        target.box = cfg["box"]
        target.update_bounds(numpy.array(cfg["box"][0], dtype=float).reshape(d, 1), numpy.array(cfg["box"][1], dtype=float).reshape(d, 1))
    m0 = numpy.array(cfg["m0"], dtype=float).reshape(d, 1)
    # the code refuses NaN/inf initial misfits: pick the first admissible seed deterministically
    while not math.isfinite(target.misfit_value(m0)):
        tseed += 1
        target.seed = tseed
    r = RunResult()
    r.tseed = tseed
    r.glog = glog
    r.target = target
    snaps = reuse.snaps if reuse is not None else []
    r.snaps = snaps
    r.ends = []
    r.post_init = None
    r.clock = ManualClock()
    holder = reuse.holder if reuse is not None else {"r": r}
    holder["r"] = r
    r.holder = holder
    base = S.RWMH if cfg["kind"] == "rwmh" else S.HMC
    if cfg.get("visual"):
        base = S.RWMH_visual if cfg["kind"] == "rwmh" else S.HMC_visual

    class Snap(base):
        def _evaluate_acceptance(self_):
            before = (col(self_.current_model), float(self_.current_x), self_.accepted_proposals)
            prop = col(self_.proposed_model)
            out = super()._evaluate_acceptance()
            rr = holder["r"]
            rr.ends.append(len(rr.glog))
            if rr.cfg.get("timeout_after") is not None and len(rr.ends) == rr.cfg["timeout_after"] + 1:
                rr.clock.now += 1e7
            snaps.append({"cur_before": before[0], "x_before": before[1], "acc_before": before[2],
                          "proposed": prop, "proposed_x": float(self_.proposed_x),
                          "cur_after": col(self_.current_model), "x_after": float(self_.current_x),
                          "acc_after": self_.accepted_proposals,
                          "mom": (col(self_.current_momentum), col(self_.proposed_momentum)) if cfg["kind"] == "hmc" else None,
                          "k": (float(self_.current_k), float(self_.proposed_k)) if cfg["kind"] == "hmc" else None,
                          "req_end": len(getattr(self_.rng, "requests", []))})
            return out

        def _init_sampler(self_, *a, **k):
            res = super()._init_sampler(*a, **k)
            if holder["r"].post_init:
                holder["r"].post_init(self_)
            return res

    Snap.__name__ = base.__name__
    r.cfg = cfg
    if reuse is not None:
        sampler = reuse.sampler
    elif cfg.get("visual"):
        sampler = Snap(animate_proposals=(cfg["visual"] == "animate"), seed=1)
    else:
        sampler = Snap(seed=1)
    rng = ScriptedRng(normals=[list(z) for z in cfg["zs"]], uniforms=list(cfg["us"]),
                      factors=list(cfg.get("factors", [])))
    sampler.rng = rng
    r.rng = rng
    proxy = ExpProxy(glog=glog)
    r.proxy = proxy
    fname = os.path.join(workdir, tag + "." + cfg["backend"])
    for f_ in (fname, fname + ".pkl"):
        if os.path.exists(f_):
            os.remove(f_)
    r.filename = fname
    if cfg.get("stale"):
        # an earlier, unrelated run already wrote a samples file at this path (the main run overwrites it with consent)
        sd = cfg["stale"]
        with contextlib.redirect_stdout(io.StringIO()), numpy.errstate(all="ignore"):
            S.RWMH(seed=sd["seed"]).sample(fname, hmclab.Distributions.Normal(numpy.zeros((sd["d"], 1)), numpy.ones((sd["d"], 1))),
                                           proposals=sd["P"], online_thinning=sd["t"], overwrite_existing_file=True, disable_progressbar=True)
        numpy.seterr(all="warn")
    im = m0.copy()
    r.m0_backing = None
    if cfg.get("m0_dtype") == "int" and all(float(v).is_integer() for v in cfg["m0"]):     # (callers may have replaced m0)
        im = m0.astype(int)
    elif cfg.get("m0_dtype") == "readonly":
        im.setflags(write=False)
    elif cfg.get("m0_dtype") == "view":
        r.m0_backing = numpy.zeros((2 * d, 2))
        r.m0_backing[::2, 1] = m0[:, 0]
        im = r.m0_backing[::2, 1:2]
    kwargs = dict(initial_model=im, proposals=cfg["P"], online_thinning=cfg["t"],
                  overwrite_existing_file=True, autotuning=cfg["tune"], target_acceptance_rate=cfg["target"],
                  learning_rate=cfg["lr"], disable_progressbar=True)
    if cfg["kind"] == "rwmh":
        if cfg["stepmode"] == "vector":
            kwargs["stepsize"] = numpy.array(cfg["stepvec"], dtype=float).reshape(d, 1)
        else:
            kwargs["stepsize"] = cfg["stepsize"]
    else:
        mass = FnMass(d, seed=cfg["mseed"], inv_diag=cfg["invdiag"], special_rate=cfg["special"] / 2, glog=glog)
        mass.name = "scripted mass matrix"
        mass.script = cfg.get("kin_script")
        r.mass = mass
        kwargs.update(stepsize=cfg["stepsize"], randomize_stepsize=cfg["randomize"], amount_of_steps=cfg["steps"],
                      mass_matrix=mass, integrator=cfg["integrator"])
    if "max_time" in cfg:
        kwargs["max_time"] = cfg["max_time"]
    if cfg.get("diagnostic"):
        kwargs["diagnostic_mode"] = True       # every call of the loop goes through a timing wrapper; nothing else may change
    if sampler_hook:
        sampler_hook(sampler, target, r)
    r.sampler = sampler
    r.exception = None
    old_np = S._numpy
    old_time = S._time
    S._numpy = proxy
    if "max_time" in cfg or cfg.get("slow_calls"):
        S._time = r.clock          # (slow_calls: the fault hooks of the probes advance this clock at every call of the user's code)
    try:
        with contextlib.redirect_stdout(io.StringIO()), numpy.errstate(all="ignore"):
            try:
                sampler.sample(fname, target, **kwargs)
            except BaseException as e:  # noqa
                r.exception = e
    finally:
        S._numpy = old_np
        S._time = old_time
        numpy.seterr(all="warn")
    if r.exception is None and r.m0_backing is not None:
        expect = numpy.zeros((2 * d, 2))
        expect[::2, 1] = m0[:, 0]
        if not numpy.array_equal(r.m0_backing, expect):
            r.exception = AssertionError("sample() modified the array that holds the caller's initial model")
    r.cp = sampler.current_proposal
    r.acc = sampler.accepted_proposals
    r.cur = col(sampler.current_model)
    r.cur_x = float(sampler.current_x) if sampler.current_x is not None else float("nan")
    r.final_step = sampler.stepsize
    r.hist_a = col(sampler.acceptance_rates) if cfg["tune"] and sampler.acceptance_rates is not None else []
    r.hist_s = col(sampler.stepsizes) if cfg["tune"] and sampler.stepsizes is not None else []
    r.columns = None
    r.read_error = None
    try:
        with hmclab.Samples(fname) as smp:
            arr = numpy.array(smp.numpy)
            r.attrs = {}
            for k in ("write_index", "last_written_sample", "proposals", "acceptance_rate", "online_thinning",
                      "sampler", "stepsize", "amount_of_steps", "mass_matrix", "integrator"):
                try:
                    r.attrs[k] = smp.read_attribute(k)
                except Exception:
                    pass
        r.columns = [(list(map(float, arr[:-1, j])), float(arr[-1, j])) for j in range(arr.shape[1])]
    except BaseException as e:  # noqa
        r.read_error = e
    return r


def coq_case(cfg, r, lits=None):
    lits = lits or LITS
    mis, grad = r.target.tables()
    kin, kgrad = [], []
    if cfg["kind"] == "hmc":
        for kind, a, v in r.mass.log:
            if kind == "kinetic_energy":
                kin.append((a, v))
            elif kind == "kinetic_energy_gradient":
                kgrad.append((a, v))
    tbl = lambda t: "[" + "; ".join(f"({fvec(a)}, {fhex(v)})" for a, v in t) + "]"
    vtbl = lambda t: "[" + "; ".join(f"({fvec(a)}, {fvec(v)})" for a, v in t) + "]"
    exp_t = "[" + "; ".join(f"([{fhex(x)}], {fhex(v)})" for x, v in r.proxy.exp_log) + "]"
    pow_t = fvec([(i + 1) ** (-cfg["lr"]) for i in range(cfg["P"])]) if cfg["tune"] else "[]"
    d = cfg["d"]
    if cfg["kind"] == "rwmh":
        if cfg["stepmode"] == "vector" and cfg["tune"]:
            nsp, stepvec, step0 = cfg["stepvec"], None, 1.0
        elif cfg["stepmode"] == "vector":
            nsp, stepvec, step0 = [1.0] * d, cfg["stepvec"], 1.0
        else:
            nsp, stepvec, step0 = [1.0] * d, None, cfg["stepsize"]
        integ, lit, steps = 0, [], 0
        evs = "[" + "; ".join(f"({fvec(z)}, None, {fhex(u)})" for z, u in zip(cfg["zs"], cfg["us"])) + "]"
    else:
        nsp, stepvec, step0 = [1.0] * d, None, cfg["stepsize"]
        integ, lit, steps = INTEG_CODE[cfg["integrator"]], lits[cfg["integrator"]], cfg["steps"]
        evs = "[" + "; ".join(
            f"({fvec(z)}, {copt(f if cfg['randomize'] else None)}, {fhex(u)})"
            for z, f, u in zip(cfg["zs"], cfg["factors"], cfg["us"])) + "]"
    cols = "[" + "; ".join(f"({fvec(c)}, {fhex(x)})" for c, x in (r.columns or [])) + "]"
    trace = "[" + "; ".join(f"({t}%nat, {fvec(a)}, {fvec(b)})" for t, a, b in r.glog) + "]"
    decisions = "[" + "; ".join(cbool(s["acc_after"] > s["acc_before"]) for s in r.snaps) + "]"
    return (
        "{| sc_hmc := %s;\n sc_mis := %s;\n sc_grad := %s;\n sc_kin := %s;\n sc_kgrad := %s;\n sc_exp := %s;\n"
        " sc_pow := %s; sc_massdiag := None; sc_genmom := %s; sc_nsp := %s; sc_stepvec := %s;\n"
        " sc_tune := %s; sc_target := %s; sc_min := %s; sc_integ := %d%%nat; sc_lits := %s; sc_steps := %d%%nat;\n"
        " sc_m0 := %s; sc_step0 := %s; sc_thin := %d%%nat;\n sc_evs := %s;\n x_cols := %s;\n"
        " x_cur := %s; x_curx := %s; x_acc := %d%%nat; x_step := %s; x_hist_a := %s; x_hist_s := %s;\n"
        " x_decisions := %s;\n x_trace := %s |}"
        % (cbool(cfg["kind"] == "hmc"), tbl(mis), vtbl(grad), tbl(kin), vtbl(kgrad), exp_t, pow_t, vtbl(getattr(r, "genmom_tbl", [])), fvec(nsp),
           copt(stepvec, fvec), cbool(cfg["tune"]), fhex(cfg["target"]), fhex(1e-18), integ, fvec(lit), steps,
           fvec(cfg["m0"]), fhex(step0), cfg["t"], evs, cols, fvec(r.cur), fhex(r.cur_x), r.acc,
           fhex(float(numpy.asarray(r.final_step).flatten()[0]) if not (cfg["kind"] == "rwmh" and cfg["stepmode"] == "vector" and not cfg["tune"]) else 1.0),
           fvec(r.hist_a), fvec(r.hist_s), decisions, trace))


def eval_runs(pid, coq_cases, checks, shard=25):
    """Evaluate several check functions over the same cases; returns {check: failing}, errors."""
    return common.eval_cases_multi(pid, HEADER, coq_cases, checks, shard=shard)
