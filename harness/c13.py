"""C13 — composite distributions obey their algebra.  (a) interval enclosures of the R-model of random
wrapper nestings against the real wrappers; (b) the statement on the real code: wrapper output against
the parts' own outputs, collapsed bounds against the DECLARED bounds of the parts (parts are reused in
several wrappers and must not change), add_distribution, per-block corrector, mixture formula,
log-space change of variables incl. negative components, temperatures, covariance encodings."""
import math
import random

import numpy

from . import common, distgen
from .common import Violation, col, same_vec
from .c05 import goals_for

INF = float("inf")


def close(a, b, tol=1e-11):
    a, b = float(a), float(b)
    if math.isinf(a) or math.isinf(b) or math.isnan(a) or math.isnan(b):
        return common.same_float(a, b)
    return abs(a - b) <= tol * max(1.0, abs(a), abs(b))


def vclose(a, b, tol=1e-11):
    a, b = numpy.asarray(a, float).flatten(), numpy.asarray(b, float).flatten()
    return a.shape == b.shape and all(close(x, y, tol) for x, y in zip(a, b))


def arr(v):
    return None if v is None else numpy.array(v, dtype=float).reshape(-1, 1)


def rbox(rnd, d):
    k = rnd.choice(["both", "lower", "upper", "none", "both"])
    lo = [rnd.randint(-24, -2) / 8.0 for _ in range(d)] if k in ("both", "lower") else None
    hi = [rnd.randint(2, 24) / 8.0 for _ in range(d)] if k in ("both", "upper") else None
    return lo, hi


def algebra_case(rnd, D):
    """One multi-object scenario; returns list of (key, what)."""
    out = []
    d = rnd.choice([1, 2, 3])
    kind = rnd.choice(["additive", "additive", "composite", "mixture", "logspace", "temperature", "encodings"])
    x = arr([rnd.randint(-12, 12) / 8.0 for _ in range(d)])
    with numpy.errstate(all="ignore"):
        if kind == "additive":
            n = rnd.randint(2, 4)
            declared = [rbox(rnd, d) for _ in range(n)]
            rnd.shuffle(declared)
            parts = [D.Normal(arr([rnd.randint(-8, 8) / 8.0 for _ in range(d)]), arr([rnd.choice([0.5, 1.0, 2.0]) for _ in range(d)]),
                              lower_bounds=arr(l), upper_bounds=arr(u)) for l, u in declared]
            twins = [D.Normal(p.means.copy(), numpy.array(p.covariance, dtype=float).copy()) for p in parts]
            cls = rnd.choice([D.BayesRule, D.AdditiveDistribution])
            w1 = cls(list(parts))
            w2 = cls([parts[0], twins[1]])                 # the first part reused with an unbounded partner
            w3 = cls(list(reversed(parts)))
            if rnd.random() < 0.5:
                w1.add_distribution(twins[0])
            for k, (p, (l, u)) in enumerate(zip(parts, declared)):
                got = (None if p.lower_bounds is None else col(p.lower_bounds), None if p.upper_bounds is None else col(p.upper_bounds))
                if got != (l, u):
                    out.append(("part-bounds-mutated", f"{cls.__name__}: bounds of part {k} were declared {(l, u)} and are {got} after building wrappers that contain it"))

            def inter(boxes):
                los = [b[0] for b in boxes if b[0] is not None]
                his = [b[1] for b in boxes if b[1] is not None]
                return (None if not los else [max(v[i] for v in los) for i in range(d)], None if not his else [min(v[i] for v in his) for i in range(d)])
            for name, w, boxes in (("all parts", w1, declared), ("[part0, unbounded]", w2, [declared[0]]), ("reversed parts", w3, declared)):
                want = inter(boxes)
                got = (None if w.lower_bounds is None else col(w.lower_bounds), None if w.upper_bounds is None else col(w.upper_bounds))
                if got != want:
                    out.append(("additive-bounds", f"{cls.__name__}({name}): bounds {got}, intersection of the declared part bounds is {want}"))
            inside = all((l is None or all(x[i, 0] >= l[i] for i in range(d))) and (u is None or all(x[i, 0] <= u[i] for i in range(d))) for l, u in declared)
            want_m = sum(t.misfit(x.copy()) for t in twins) if inside else INF
            extra = twins[0].misfit(x.copy()) if len(w1.separate_distributions) > n and inside else 0.0
            if not close(w1.misfit(x.copy()), want_m + extra):
                out.append(("additive-sum", f"{cls.__name__}: misfit {w1.misfit(x.copy())} at {col(x)}, sum over parts (+inf outside the intersection) is {want_m + extra}"))
            if inside:
                want_g = sum(t.gradient(x.copy()) for t in twins) + (twins[0].gradient(x.copy()) if len(w1.separate_distributions) > n else 0.0)
                if not vclose(w1.gradient(x.copy()), want_g):
                    out.append(("additive-sum", f"{cls.__name__}: gradient is not the sum of the parts' gradients at {col(x)}"))
            # a posterior inside a posterior; the inner one grows afterwards (another likelihood term), or is a subclass with its own misfit:
            # the outer sum is over what its parts ARE, at the time of the evaluation
            u1, u2, u3 = [D.Normal(arr([rnd.randint(-8, 8) / 8.0 for _ in range(d)]), arr([rnd.choice([0.5, 1.0, 2.0]) for _ in range(d)])) for _ in range(3)]
            inner = cls([u1, u2])
            outer = cls([inner, twins[0]])
            grow = rnd.random() < 0.7
            if grow:
                inner.add_distribution(u3)
            want_m2 = u1.misfit(x.copy()) + u2.misfit(x.copy()) + (u3.misfit(x.copy()) if grow else 0.0) + twins[0].misfit(x.copy())
            want_g2 = u1.gradient(x.copy()) + u2.gradient(x.copy()) + (u3.gradient(x.copy()) if grow else 0.0) + twins[0].gradient(x.copy())
            if not (close(outer.misfit(x.copy()), want_m2) and vclose(outer.gradient(x.copy()), want_g2)):
                out.append(("additive-nested", f"{cls.__name__}([{cls.__name__}([A, B]), C]){', A/B joined by a third term afterwards' if grow else ''}: misfit {outer.misfit(x.copy())} / "
                            f"gradient {col(outer.gradient(x.copy()))} at {col(x)}, the sums over the parts are {want_m2} / {col(want_g2)}"))
        elif kind == "composite":
            sizes = [rnd.choice([1, 2]) for _ in range(rnd.randint(2, 3))]
            boxes = [rbox(rnd, n) for n in sizes]
            parts = [D.Normal(arr([rnd.randint(-8, 8) / 8.0 for _ in range(n)]), arr([rnd.choice([0.5, 1.0, 2.0]) for _ in range(n)]),
                              lower_bounds=arr(b[0]), upper_bounds=arr(b[1])) for n, b in zip(sizes, boxes)]
            comp = D.CompositeDistribution(parts)
            dd = sum(sizes)
            xx = arr([rnd.randint(-32, 32) / 8.0 for _ in range(dd)])
            pp = arr([rnd.randint(-16, 16) / 8.0 for _ in range(dd)])
            offs = numpy.cumsum([0] + sizes)
            want_m = sum(p.misfit(xx[offs[k]:offs[k + 1]].copy()) for k, p in enumerate(parts))
            if not close(comp.misfit(xx.copy()), want_m):
                out.append(("composite-blocks", f"Composite misfit {comp.misfit(xx.copy())} != sum over consecutive blocks {want_m} (sizes {sizes})"))
            want_g = numpy.vstack([p.gradient(xx[offs[k]:offs[k + 1]].copy()) for k, p in enumerate(parts)])
            if not vclose(comp.gradient(xx.copy()), want_g):
                out.append(("composite-blocks", f"Composite gradient is not the stacked block gradients (sizes {sizes})"))
            q1, p1 = xx.copy(), pp.copy()
            comp.corrector(q1, p1)
            q2, p2 = xx.copy(), pp.copy()
            for k, p in enumerate(parts):
                qa, pa = q2[offs[k]:offs[k + 1]].copy(), p2[offs[k]:offs[k + 1]].copy()
                p.corrector(qa, pa)
                q2[offs[k]:offs[k + 1]], p2[offs[k]:offs[k + 1]] = qa, pa
            if not (same_vec(col(q1), col(q2)) and same_vec(col(p1), col(p2))):
                out.append(("composite-corrector", f"Composite corrector does not reflect each block's bounds on its own coordinates (sizes {sizes}, boxes {boxes})"))
        elif kind == "mixture":
            n = rnd.randint(2, 3)
            parts = [D.Normal(arr([rnd.randint(-8, 8) / 8.0 for _ in range(d)]), arr([rnd.choice([0.5, 1.0, 2.0]) for _ in range(d)])) for _ in range(n)]
            w = [rnd.randint(1, 6) for _ in range(n)]
            w = [v / sum(w) for v in w]
            mix = D.Mixture(parts, w)
            chis = [p.misfit(x.copy()) for p in parts]
            want = -math.log(sum(wi * math.exp(-c) for wi, c in zip(w, chis)))
            if not close(mix.misfit(x.copy()), want, 1e-10):
                out.append(("mixture-formula", f"Mixture misfit {mix.misfit(x.copy())} != -log sum w_i exp(-chi_i) = {want}"))
            ps = [wi * math.exp(-c) for wi, c in zip(w, chis)]
            want_g = sum(pi * p.gradient(x.copy()) for pi, p in zip(ps, parts)) / sum(ps)
            if not vclose(mix.gradient(x.copy()), want_g, 1e-10):
                out.append(("mixture-formula", "Mixture gradient is not the responsibility-weighted mean of the parts' gradients"))
            if not all(abs(p.normalization_constant) > 0 or True for p in parts):
                pass
        elif kind == "logspace":
            import hmclab
            inner = D.Normal(arr([rnd.randint(-8, 8) / 8.0 for _ in range(d)]), arr([rnd.choice([0.5, 1.0, 2.0]) for _ in range(d)]))
            ik = rnd.choice(["normal", "uniform", "composite"])
            if ik == "uniform":
                # a log-uniform prior: the distribution in log space only compares its argument with bounds
                inner = D.Uniform(arr([-20.0 - rnd.randint(0, 4)] * d), arr([20.0 + rnd.randint(0, 4)] * d))
            elif ik == "composite":
                inner = D.CompositeDistribution([D.Uniform(arr([-24.0]), arr([22.0])) if rnd.random() < 0.6 else D.Normal(arr([0.25]), arr([2.0])) for _ in range(d)])
            base = rnd.choice([10.0, 2.0, math.e, 1.5])
            t = D.TransformToLogSpace(inner, base=base)
            m = arr([rnd.choice([0.125, 0.5, 1.0, 2.0, 7.5, 30.0]) for _ in range(d)])
            want = inner.misfit(numpy.log(m) / math.log(base)) + float(numpy.sum(numpy.log(m * math.log(base))))
            if not close(t.misfit(m.copy()), want, 1e-10):
                out.append(("logspace-jacobian", f"TransformToLogSpace(base={base}) misfit {t.misfit(m.copy())} at {col(m)}, change of variables gives {want}"))
            for j in range(d):          # every component in turn
                neg = m.copy()
                neg[j, 0] *= -1.0
                with numpy.errstate(all="ignore"):
                    got = t.misfit(neg.copy())
                if not (got == INF):
                    out.append(("logspace-negative", f"TransformToLogSpace[{ik}] misfit at {col(neg)} (negative component) is {got}, not +inf"))
                    break
        elif kind == "temperature":
            T = rnd.choice([0.25, 0.5, 2.0, 3.0, 10.0])
            if rnd.random() < 0.5:
                a, b = D.StandardNormal1D(temperature=T), D.StandardNormal1D(temperature=1.0)
                xx = arr([rnd.randint(-24, 24) / 8.0])
            else:
                a, b = D.Himmelblau(temperature=T), D.Himmelblau(temperature=1.0)
                xx = arr([rnd.randint(-24, 24) / 8.0, rnd.randint(-24, 24) / 8.0])
            if not (close(a.misfit(xx.copy()), b.misfit(xx.copy()) / T) and vclose(a.gradient(xx.copy()), b.gradient(xx.copy()) / T)):
                out.append(("temperature", f"{type(a).__name__}: temperature {T} does not divide misfit and gradient by T"))
            # an annealing schedule cools ONE object: the public attribute is assigned again and again
            for T2 in (rnd.choice([0.5, 4.0, 16.0]), rnd.choice([1.0, 0.125, 7.0])):
                a.temperature = T2
                if not (close(a.misfit(xx.copy()), b.misfit(xx.copy()) / T2) and vclose(a.gradient(xx.copy()), b.gradient(xx.copy()) / T2)):
                    out.append(("temperature-reassigned", f"{type(a).__name__} built with temperature {T}, then temperature = {T2}: misfit {a.misfit(xx.copy())} / gradient "
                                f"{col(a.gradient(xx.copy()))} at {col(xx)} are not those at temperature 1 divided by {T2}"))
                    break
        else:
            var = rnd.choice([0.25, 0.5, 2.0, 3.0])
            mu = arr([rnd.randint(-8, 8) / 8.0 for _ in range(d)])
            encs = [D.Normal(mu.copy(), float(var)), D.Normal(mu.copy(), var * numpy.ones((d, 1))), ]
            if d > 1:
                encs.append(D.Normal(mu.copy(), var * numpy.eye(d)))
            for phase in ("raw", "normalized"):
                ms = [e.misfit(x.copy()) for e in encs]
                gs = [e.gradient(x.copy()) for e in encs]
                if not all(close(m_, ms[0], 1e-10) for m_ in ms) or not all(vclose(g, gs[0], 1e-10) for g in gs):
                    out.append(("normal-encodings", f"scalar / per-dimension / diagonal-matrix covariance {var} give different misfits {ms} ({phase})"))
                for e in encs:
                    e.normalize()
    return kind, out


def run(tier, seed):
    common.setup_env()
    import hmclab
    D = hmclab.Distributions
    rnd = random.Random(seed * 7919 + 13)
    numpy.random.seed(seed + 13)
    n = 110 if tier == "quick" else 1500
    goals, owners, metas, violations, samples, seen = [], [], [], [], [], set()
    dist = {"interval_cases": 0, "algebra_cases": 0, "kinds": {}}
    for i in range(n):
        d = rnd.choice([1, 2, 2, 3])
        node = distgen.tree(rnd, d, D, D, rnd.choice([1, 2, 2, 3]))
        x = distgen.interior_point(rnd, node)
        xa = numpy.array(x, dtype=float).reshape(-1, 1)
        with numpy.errstate(all="ignore"):
            distgen.disturb(rnd, node.obj, xa)
            mis = float(node.obj.misfit(xa.copy()))
            grad = col(node.obj.gradient(xa.copy()))
        for key, what in distgen.inplace_consistency(rnd, node.obj, xa, node.desc):
            violations.append(Violation(key, what, {"desc": node.desc, "point": x}))
        if not (math.isfinite(mis) and all(math.isfinite(g) for g in grad)):
            violations.append(Violation("nonfinite-inside", f"{node.desc}: misfit {mis}, gradient {grad} at interior point {x}", {"desc": node.desc, "point": x}))
            continue
        for g in goals_for(node, x, mis, grad):
            goals.append(g)
            owners.append(len(metas))
        metas.append({"desc": node.desc, "point": x, "misfit": mis, "gradient": grad})
        dist["interval_cases"] += 1
        if node.term.count("(D") >= 2:
            seen.add(common.case_hash([node.desc, x]))
        if i < 2:
            samples.append(metas[-1])
    m = 400 if tier == "quick" else 6000
    for i in range(m):
        kind, probs = algebra_case(rnd, D)
        dist["algebra_cases"] += 1
        dist["kinds"][kind] = dist["kinds"].get(kind, 0) + 1
        for key, what in probs:
            violations.append(Violation(key, what, {"algebra_case": i, "kind": kind}))
    failing, errors = distgen.run_goals("C13", goals)
    for k in sorted({owners[j] for j in failing}):
        mm = metas[k]
        violations.append(Violation("correspondence", f"{mm['desc']} at {mm['point']}: misfit {mm['misfit']} / gradient {mm['gradient']} outside the interval enclosure of the model",
                                    {"desc": mm["desc"], "point": mm["point"], "no_failing_input_found": True}))
    for k, log in errors:
        violations.append(Violation("coq-error", "interval shard failed: " + log[-300:], {"log": log, "no_failing_input_found": True}))
    return {
        "evaluations": dist["interval_cases"] + dist["algebra_cases"], "distinct_nontrivial": len(seen),
        "rule": "random wrapper nestings (depth 1..3) evaluated by Coq-Interval; multi-object scenarios: BayesRule/Additive with 2-4 bounded parts that are reused "
                "in three wrappers (+ add_distribution), Composite with per-block bounds and corrector, Mixture with 2-3 normalised parts, TransformToLogSpace "
                "incl. a negative component, temperatures, the three Normal covariance encodings before and after normalize(); non-trivial = nesting depth >= 2",
        "samples": samples, "violations": violations,
        "traces_validated_against_impl": dist["interval_cases"] - len({owners[j] for j in failing}),
        "coverage": {"distribution": dist, "interval_goals": len(goals), "interval_goals_failed": len(failing)},
        "trusted_base": ["Coq-Interval (tactic level)", "Coq's ln is total (ln x = 0 for x <= 0): the negative-component clause is checked on the implementation only"],
    }


def replay(doc):
    print(doc["replay"])
    print("cases are regenerated from the seed; re-run the check with the same VERIF_SEED")
    return 1
