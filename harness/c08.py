"""C08 — interruptions, time-outs and user exceptions: exhaustive fault injection per run.
For short runs of the real samplers every call boundary into the target / mass matrix, the entry
and exit of samples.append of every proposal and every time-out instant is injected in turn;
outcome, stored columns, metadata and reusability of the sampler object are compared with the
fault-free run (spec oracle) and with the Coq fault model (Model/Faults.v)."""
import contextlib
import io
import os
import random
import shutil

import numpy

from . import common, sampler_runs as sr
from .common import Violation, same_float, same_vec, fhex, fvec

TAGNAME = {0: "misfit", 1: "gradient", 2: "kinetic_energy_gradient", 3: "kinetic_energy", 4: "corrector",
           6: "generate_momentum", 7: "mass.accept", 8: "mass.reject"}


class UserError(RuntimeError):
    pass


class UserBase(BaseException):
    pass


EXC_KINDS = [("ValueError", ValueError, "exn"), ("UserError(RuntimeError)", UserError, "exn"),
             ("TimeoutError(user)", TimeoutError, "exn"), ("ZeroDivisionError", ZeroDivisionError, "exn"),
             ("SystemExit", SystemExit, "base"), ("UserBase(BaseException)", UserBase, "base"),
             # exception types that numerical or file-handling code likes to catch for its own purposes
             ("OverflowError", OverflowError, "exn"), ("FloatingPointError", FloatingPointError, "exn"), ("AssertionError", AssertionError, "exn"),
             ("FileExistsError", FileExistsError, "exn"), ("KeyError", KeyError, "exn"), ("StopIteration", StopIteration, "exn"),
             ("AttributeError", AttributeError, "exn"), ("MemoryError", MemoryError, "exn"), ("GeneratorExit", GeneratorExit, "base")]


def gen_base(rnd, tier, kind=None):
    cfg = sr.gen_run(rnd, kind=kind, maxP=5, special=rnd.choice([0.0, 0.1]))
    if cfg["kind"] == "hmc":
        cfg["steps"] = rnd.randint(1, 2)
    cfg["backend"] = rnd.choice(["h5", "npy"])
    cfg["max_time"] = 500.0
    return cfg


def fault_plan(cfg, ref, rnd, tier):
    """All fault points of one reference run."""
    plan = []
    probe_calls = [k for k, (tag, _, _) in enumerate(ref.glog) if tag != 5 and k >= 1]
    for n, k in enumerate(probe_calls):
        # every other fault point with a slow forward model (0.3 s of the sampler's clock per call of the user's code)
        plan.append({"site": ("call", k), "kind": ("interrupt", None), "slow": n % 2 == 0})
        name, cls, fam = EXC_KINDS[(n + cfg["P"]) % len(EXC_KINDS)]
        plan.append({"site": ("call", k), "kind": (fam, name), "slow": n % 2 == 1})
    for i in range(cfg["P"]):
        if i % cfg["t"] == 0:
            for where in ("append_entry", "append_exit"):
                plan.append({"site": (where, i), "kind": ("interrupt", None)})
                name, cls, fam = EXC_KINDS[(i + (where == "append_exit")) % len(EXC_KINDS)]
                plan.append({"site": (where, i), "kind": (fam, name)})
        if i < cfg["P"] - 1:
            plan.append({"site": ("timeout", i), "kind": ("timeout", None)})
    if tier == "quick" and len(plan) > 60:
        # keep every site kind, thin out the interior uniformly; first-proposal faults are always kept
        first_end = ref.ends[0] if ref.ends else 0
        keep = [p for p in plan if (p["site"][0] == "call" and p["site"][1] < first_end) or p["site"][0] != "call"]
        rest = [p for p in plan if p not in keep]
        rnd.shuffle(rest)
        plan = keep + rest[:max(0, 60 - len(keep))]
    return plan


def make_exc(kind):
    fam, name = kind
    if fam == "interrupt":
        return KeyboardInterrupt()
    for n, cls, _ in EXC_KINDS:
        if n == name:
            return cls("injected by /verif C08")
    raise AssertionError(name)


def run_faulty(cfg, wd, fp):
    site, kind = fp["site"], fp["kind"]
    box = {}
    cfg2 = dict(cfg)
    if site[0] == "timeout":
        cfg2["timeout_after"] = site[1]

    if site[0] == "call" and fp.get("slow"):
        cfg2["slow_calls"] = True      # a slow forward model: every call of the target / mass matrix takes 0.3 s of the sampler's clock

    def hook(sampler, target, rr):
        if site[0] == "call":
            def fault(knd, k):
                if fp.get("slow"):
                    rr.clock.now += 0.3
                if k == site[1] and "exc" not in box:
                    box["exc"] = make_exc(kind)
                    raise box["exc"]
            target.fault = fault
            if hasattr(rr, "mass"):
                rr.mass.fault = fault
        elif site[0] in ("append_entry", "append_exit"):
            def post_init(smp):
                orig = smp.samples.append
                count = {"n": 0}

                def wrapped(arr):
                    i = count["n"] * cfg["t"]
                    count["n"] += 1
                    if site[0] == "append_entry" and i == site[1] and "exc" not in box:
                        box["exc"] = make_exc(kind)
                        raise box["exc"]
                    out = orig(arr)
                    if site[0] == "append_exit" and i == site[1] and "exc" not in box:
                        box["exc"] = make_exc(kind)
                        raise box["exc"]
                    return out
                smp.samples.append = wrapped
            rr.post_init = post_init

    r = sr.run_impl(cfg2, wd, sampler_hook=hook, tag="faulty")
    r.injected = box.get("exc")
    return r


def completed_before(ref, k):
    return sum(1 for e in ref.ends if e <= k)


def expected(cfg, ref, fp):
    site, kind = fp["site"], fp["kind"]
    if site[0] == "call":
        fprop = completed_before(ref, site[1])
        stored = fprop
    elif site[0] == "append_entry":
        fprop, stored = site[1], site[1]
    else:
        fprop, stored = site[1], site[1] + 1
    cols = [ref.columns[j // cfg["t"]] for j in range(stored) if j % cfg["t"] == 0]
    cp = fprop if kind[0] == "timeout" else fprop - 1
    return cols, cp, stored, fprop


def read_details(fname):
    import hmclab
    with contextlib.redirect_stdout(io.StringIO()):
        with hmclab.Samples(fname) as s:
            s.print_details()


def spec_oracle(cfg, ref, fp, r, wd, rnd):
    site, kind = fp["site"], fp["kind"]
    where = f"{site[0]}[{site[1]}]" + (f"={TAGNAME.get(ref.glog[site[1]][0])}" if site[0] == "call" else "")
    first = (site[0] == "call" and site[1] < ref.ends[0]) or (site[0] != "call" and site[1] == 0)
    tag = "first-proposal" if first else "later-proposal"
    out = []
    want_cols, want_cp, stored, fprop = expected(cfg, ref, fp)
    fam = kind[0]
    # 1. outcome
    if fam in ("interrupt", "timeout"):
        if r.exception is not None:
            out.append((f"{fam}-raised-{tag}", f"{fam} at {where}: sample() raised {type(r.exception).__name__}: {r.exception} instead of returning"))
    else:
        if r.exception is None:
            out.append((f"exception-swallowed-{kind[1]}", f"{kind[1]} raised at {where}: sample() returned normally"))
        elif r.exception is not r.injected:
            out.append((f"exception-masked-{tag}", f"{kind[1]} raised at {where}: sample() raised a different exception "
                        f"{type(r.exception).__name__}: {r.exception}"))
    # 2. file closed, readable, prefix
    if len(want_cols) == 0:
        be = cfg["backend"]
        if r.columns:
            out.append(("not-prefix", f"fault at {where}: no proposal completed but the file holds {len(r.columns)} columns"))
        elif r.read_error is not None and not isinstance(r.read_error, ValueError):
            out.append((f"empty-file-unreadable-{be}", f"fault at {where} before the first stored column: the {be} samples file cannot be opened "
                        f"({type(r.read_error).__name__}) instead of the documented burn-in refusal"))
    else:
        if r.read_error is not None or r.columns is None:
            out.append(("file-unreadable", f"fault at {where}: samples file unreadable: {r.read_error!r}"))
        else:
            got = r.columns
            ok = len(got) == len(want_cols) and all(same_vec(a[0], b[0]) and same_float(a[1], b[1]) for a, b in zip(got, want_cols))
            if not ok:
                out.append(("not-prefix", f"{fam} at {where}: file holds {len(got)} columns, the uninterrupted run's leading "
                            f"{len(want_cols)} columns were expected (thinning {cfg['t']})"))
            try:
                read_details(r.filename)
            except BaseException as e:  # noqa
                out.append(("metadata-incomplete", f"fault at {where}: Samples.print_details() fails: {type(e).__name__}: {e}"))
            wi = r.attrs.get("write_index")
            if wi != len(got):
                out.append(("write-index", f"fault at {where}: write_index {wi} for {len(got)} columns"))
    # 3. handles closed
    try:
        smp = r.sampler.samples
        if smp is not None and not getattr(smp, "_closed", False):
            out.append(("file-left-open", f"fault at {where}: the samples object was not closed"))
    except Exception:
        pass
    # 4. the sampler object can be used again at once: same columns as a fresh object with the same scripts
    cfg3 = dict(cfg)
    cfg3.pop("timeout_after", None)
    cfg3["max_time"] = None
    cfg3.pop("max_time")
    cfg3["zs"] = [[-z for z in v] for v in cfg["zs"]]
    fresh = sr.run_impl(cfg3, wd, tag="fresh")
    again = sr.run_impl(cfg3, wd, reuse=r, tag="again")
    if again.exception is not None:
        out.append((f"not-reusable-{fam}", f"after {fam} at {where}: the next sample() on the same object raised "
                    f"{type(again.exception).__name__}: {again.exception}"))
    elif fresh.columns is not None and (again.columns is None or len(again.columns) != len(fresh.columns) or any(
            not (same_vec(a[0], b[0]) and same_float(a[1], b[1])) for a, b in zip(again.columns, fresh.columns))):
        out.append((f"not-reusable-{fam}", f"after {fam} at {where}: the next run on the same object stores "
                    f"{None if again.columns is None else len(again.columns)} columns, a fresh object {len(fresh.columns)}"))
    return out


def coq_obs(cfg, ref, fp, r):
    site, kind = fp["site"], fp["kind"]
    cs = {"call": "InCall", "append_entry": "AppendEntry", "append_exit": "AppendExit", "timeout": "AfterProposal"}[site[0]]
    if kind[0] == "interrupt":
        fk, oc = "FInterrupt", "Returned"
    elif kind[0] == "timeout":
        fk, oc = "FTimeout", "Returned"
    else:
        fk = ("FExn" if kind[0] == "exn" else "FBase") + " 7%nat"
        oc = "Raised 7%nat" if (r.exception is not None and r.exception is r.injected) else "Returned"
    if kind[0] in ("interrupt", "timeout") and r.exception is not None:
        oc = "Raised 99%nat"
    cols = "[" + "; ".join(f"({fvec(c)}, {fhex(x)})" for c, x in (r.columns or [])) + "]"
    return ("{| fo_site := %s %d%%nat; fo_kind := %s; fo_cols := %s; fo_outcome := %s; fo_cp := (%d)%%Z; fo_acc := 0%%nat |}"
            % (cs, site[1], fk, cols, oc, r.cp))


def limiter_cases(rnd, wd, tier):
    """The library's own interrupting wrapper (EvaluationLimiter) as the source of the interrupt: every budget that
    expires at a misfit or a gradient call of a short run; the interrupted run is followed at once by a second run
    of the same sampler on the same (limited) target."""
    import contextlib
    import io
    import os
    import hmclab
    D, S = hmclab.Distributions, hmclab.Samplers
    out, n = [], 0
    mean, var = numpy.array([[0.5], [-0.25]]), numpy.array([[1.0], [2.0]])
    for kind in ("hmc", "rwmh"):
        for gc in (1, 2):
            steps = rnd.choice([1, 2, 3])
            P, seed_ = 6, rnd.randrange(1000)
            kw = dict(proposals=P, initial_model=numpy.zeros((2, 1)), overwrite_existing_file=True, disable_progressbar=True,
                      stepsize=0.3, **({"amount_of_steps": steps, "integrator": rnd.choice(["lf", "3s", "4s"])} if kind == "hmc" else {}))
            cls = S.HMC if kind == "hmc" else S.RWMH
            with contextlib.redirect_stdout(io.StringIO()), numpy.errstate(all="ignore"):
                cls(seed=seed_).sample(os.path.join(wd, "lim_ref.h5"), D.Normal(mean.copy(), var.copy()), **kw)
                with hmclab.Samples(os.path.join(wd, "lim_ref.h5")) as sref:
                    ref = numpy.array(sref.numpy)
            limits = range(1, 30) if tier != "quick" else sorted(rnd.sample(range(1, 30), 10))
            for limit in limits:
                n += 1
                Lim = D.EvaluationLimiter_ClassConstructor(D.Normal, limit, gradient_count=gc)
                target = Lim(mean.copy(), var.copy())
                smp = cls(seed=seed_)
                desc = f"{kind} ({kw.get('integrator', '-')}, {steps} steps), EvaluationLimiter(limit={limit}, gradient_count={gc})"
                cols = []
                for run_no in (1, 2):
                    f = os.path.join(wd, f"lim_{run_no}.h5")
                    try:
                        with contextlib.redirect_stdout(io.StringIO()), numpy.errstate(all="ignore"):
                            smp.sample(f, target, **kw)
                    except BaseException as e:  # noqa
                        out.append((f"limiter-run{run_no}-raised", f"{desc}: run {run_no} on the same sampler and target raised {type(e).__name__} instead of returning"))
                        break
                    try:
                        with hmclab.Samples(f) as sm:
                            a = numpy.array(sm.numpy)
                            with contextlib.redirect_stdout(io.StringIO()):
                                sm.print_details()
                    except ValueError as e:
                        if "burn-in" in str(e).lower():
                            break            # interrupted before the first column: the documented refusal to read an empty chain
                        out.append(("limiter-file-unreadable", f"{desc}: file of run {run_no} unreadable: {type(e).__name__}: {e}"))
                        break
                    except BaseException as e:  # noqa
                        out.append(("limiter-file-unreadable", f"{desc}: file of run {run_no} unreadable: {type(e).__name__}: {e}"))
                        break
                    cols.append(a)
                    if run_no == 1 and not (a.shape[1] <= ref.shape[1] and a.tobytes() == ref[:, :a.shape[1]].tobytes()):
                        out.append(("limiter-not-a-prefix", f"{desc}: the {a.shape[1]} stored columns are not the leading columns of the uninterrupted run"))
                    if run_no == 1 and a.shape[1] == P:
                        break        # the budget did not expire inside the chain: nothing was interrupted, the wrapper keeps counting
                if len(cols) == 2 and cols[0].shape != cols[1].shape:
                    out.append(("limiter-budget-not-restarted", f"{desc}: the second run stored {cols[1].shape[1]} columns, the first {cols[0].shape[1]} (same budget, same work per proposal)"))
    numpy.seterr(all="warn")
    return out, n


LIM_HEADER = """From Coq Require Import List Bool Arith.
From HV Require Import FloatIO Limiter C08LimCorr.
Import ListNotations.
"""


def limiter_model_cases(rnd, tier):
    """call sequences on the real wrapper class against the counter machine of Model/Limiter.v"""
    import hmclab
    D = hmclab.Distributions
    cases, metas = [], []
    for k in range(60 if tier == "quick" else 600):
        limit, gc, throw = rnd.choice([0, 1, 2, 3, 5, 8]), rnd.choice([1, 1, 2, 3]), rnd.random() < 0.85
        ops = [rnd.random() < 0.4 for _ in range(rnd.randint(1, 25))]
        obj = D.EvaluationLimiter_ClassConstructor(D.Normal, limit, gradient_count=gc, throw_interrupt=throw)(numpy.zeros((2, 1)), numpy.ones((2, 1)))
        obs = []
        x = numpy.array([[0.25], [-0.5]])
        for g in ops:
            raised = False
            try:
                (obj.gradient if g else obj.misfit)(x.copy())
            except KeyboardInterrupt:
                raised = True
            obs.append((raised, int(obj.evaluations)))
        cases.append("{| q_limit := %d%%nat; q_gcount := %d%%nat; q_throw := %s; q_ops := [%s]; q_obs := [%s] |}" % (
            limit, gc, str(throw).lower(), "; ".join(str(g).lower() for g in ops), "; ".join(f"({str(r).lower()}, {n}%nat)" for r, n in obs)))
        metas.append({"limit": limit, "gradient_count": gc, "throw_interrupt": throw, "ops": ["gradient" if g else "misfit" for g in ops], "observed": obs})
    failing, errors = common.eval_cases("C08L", LIM_HEADER, cases, "lim_check", shard=300)
    return [metas[j] for j in failing], errors, len(cases)


def run(tier, seed):
    rnd = random.Random(seed * 7919 + 8)
    nruns = 14 if tier == "quick" else 120
    wd = common.tmpdir("c08_")
    lits = sr.source_literals()
    violations, samples, seen = [], [], set()
    coq, meta = [], []
    dist = {"runs": 0, "faults": 0, "interrupt": 0, "exn": 0, "base": 0, "timeout": 0, "first_proposal": 0,
            "strictly_inside_proposal": 0, "append_boundary": 0, "h5": 0, "npy": 0, "rwmh": 0, "hmc": 0}
    try:
        for n in range(nruns):
            cfg = gen_base(rnd, tier, kind=(["rwmh", "hmc", "hmc", "rwmh"][n] if n < 4 else None))
            ref = sr.run_impl(cfg, wd, tag="ref")
            if ref.exception is not None or ref.columns is None:
                violations.append(Violation("reference-run-failed", f"fault-free run failed: {ref.exception!r} {ref.read_error!r}", {"case": cfg}))
                continue
            plan = fault_plan(cfg, ref, rnd, tier)
            obs = []
            dist["runs"] += 1
            dist[cfg["backend"]] += 1
            dist[cfg["kind"]] += 1
            for fp in plan:
                r = run_faulty(cfg, wd, fp)
                dist["faults"] += 1
                dist[fp["kind"][0]] += 1
                site = fp["site"]
                first = (site[0] == "call" and site[1] < ref.ends[0]) or (site[0] != "call" and site[1] == 0)
                dist["first_proposal"] += int(first)
                inside = site[0] == "call" and (site[1] + 1) not in ref.ends
                dist["strictly_inside_proposal"] += int(inside)
                dist["append_boundary"] += int(site[0].startswith("append"))
                for key, what in spec_oracle(cfg, ref, fp, r, wd, rnd):
                    violations.append(Violation(key, what, {"case": cfg, "fault": fp}))
                obs.append(coq_obs(cfg, ref, fp, r))
                if inside:
                    seen.add(common.case_hash([cfg, fp]))
            coq.append("(" + sr.coq_case(cfg, ref, lits) + ",\n [" + ";\n  ".join(obs) + "])")
            meta.append(cfg)
            if n < 2:
                samples.append({"run": {k: cfg[k] for k in ("kind", "P", "t", "backend")}, "fault_points": len(plan),
                                "first_faults": [f for f in plan[:4]]})
        lim_probs, lim_n = limiter_cases(rnd, wd, tier)
        dist["evaluation_limiter_runs"] = lim_n
        seen_keys = set()
        for key, what in lim_probs:
            if key not in seen_keys or len(seen_keys) < 6:
                violations.append(Violation(key, what, {"limiter": what}))
            seen_keys.add(key)
    finally:
        shutil.rmtree(wd, ignore_errors=True)
    lim_fail, lim_err, lim_cases = limiter_model_cases(rnd, tier)
    dist["evaluation_limiter_call_sequences"] = lim_cases
    for m in lim_fail[:3]:
        violations.append(Violation("limiter-correspondence", f"EvaluationLimiter(limit={m['limit']}, gradient_count={m['gradient_count']}, throw_interrupt={m['throw_interrupt']}) on calls "
                                    f"{m['ops']}: (raised, counter) per call is {m['observed']}, the counter machine of Model/Limiter.v disagrees", {"limiter_case": m, "no_failing_input_found": True}))
    for k, log in lim_err:
        violations.append(Violation("coq-error", "limiter shard failed: " + log[-300:], {"log": log, "no_failing_input_found": True}))
    failing, errors = common.eval_cases("C08", sr.HEADER, coq, "fc_check", shard=2)
    flagged = {common.case_hash(v.replay.get("case")) for v in violations
               if "case" in v.replay and not v.key.startswith("empty-file-unreadable")}
    for j in failing:
        if common.case_hash(meta[j]) in flagged:
            continue
        violations.append(Violation("correspondence", "fault model and implementation disagree on the stored columns / outcome / "
                                    "final proposal index of some injected fault of this run",
                                    {"case": meta[j], "correspondence": "SamplerCorr.fc_check", "no_failing_input_found": True}))
    for k, log in errors:
        violations.append(Violation("coq-error", "correspondence shard failed: " + log[-300:], {"log": log, "no_failing_input_found": True}))
    return {
        "evaluations": dist["faults"], "distinct_nontrivial": len(seen),
        "rule": "for each seeded short run (P<=5, HMC lf/3s/4s with <=2 steps or RWMH, thinning 1..3, HDF5/NPY): KeyboardInterrupt and one "
                "rotating exception type (ValueError, RuntimeError subclass, user TimeoutError, ZeroDivisionError, SystemExit, BaseException "
                "subclass) at every call boundary into target/mass matrix, at entry and exit of samples.append of every stored proposal, and "
                "a max_time time-out after every proposal (quick tier: at most 60 fault points per run, all first-proposal points kept); each "
                "faulty run is followed by a second run on the same object; the library's EvaluationLimiter with budgets 1..29 (gradient_count 1, 2) as "
                "interrupt source, each followed by a second run on the same sampler and target; non-trivial = fault strictly inside a proposal",
        "samples": samples, "violations": violations,
        "traces_validated_against_impl": len(coq) - len(failing),
        "coverage": {"distribution": dist, "correspondence_failures": len(failing), "exhaustive_per_run": tier != "quick"},
        "trusted_base": ["Python exception semantics (try/except/finally order) are transcribed by hand in Model/Faults.v"],
        "assumptions": ["faults inside h5py/numpy I/O calls themselves and inside _close_sampler are outside the property's boundaries"],
    }


def replay(doc):
    rp = doc["replay"]
    cfg, fp = rp["case"], rp.get("fault")
    if fp is None:
        print("no single fault recorded; re-run the check")
        return 1
    fp = {"site": tuple(fp["site"]), "kind": tuple(fp["kind"])}
    wd = common.tmpdir("c08r_")
    try:
        ref = sr.run_impl(cfg, wd, tag="ref")
        r = run_faulty(cfg, wd, fp)
        probs = spec_oracle(cfg, ref, fp, r, wd, random.Random(0))
    finally:
        shutil.rmtree(wd, ignore_errors=True)
    print("spec oracle:", probs or "ok")
    return 1 if probs else 0
