"""C15 — LinearMatrix back ends: every combination dense/sparse x scalar/vector/full covariance x
premultiplication {True, False, None} x dtype {float32, float64} x {dispatching wrapper, concrete class}
x {fresh, pickle round trip} on generated G, d, C (under-, over- and exactly determined): misfit(m),
gradient(m), forward(m) must lie in the Coq-Interval enclosure of the residual-form model (tolerance =
working precision of the dtype times the size of the terms), bounds add +inf outside the box."""
import copy
import math
import pickle
import random
import warnings

import numpy
import scipy.sparse

from .distgen import disturb as distgen_disturb
from . import common, distgen
from .common import Violation, col
from .distgen import q, ql, qm, goal, dy, pos


def gen_problem(rnd):
    shape = rnd.choice(["under", "over", "exact"])
    n = rnd.randint(1, 3)
    m = {"under": max(1, n - 1) if n > 1 else 1, "over": n + rnd.randint(1, 2), "exact": n}[shape]
    G = numpy.array([[dy(rnd, -2, 2) for _ in range(n)] for _ in range(m)])
    d = numpy.array([[dy(rnd)] for _ in range(m)])
    ints = rnd.random() < 0.2
    if ints:
        # a design matrix and data of whole numbers, handed over with an integer dtype
        G = numpy.array([[float(rnd.randint(-3, 3)) for _ in range(n)] for _ in range(m)])
        d = numpy.array([[float(rnd.randint(-4, 4))] for _ in range(m)])
    ck = rnd.choice(["scalar", "scalar_np", "vector", "full"])
    if ck in ("scalar", "scalar_np"):
        v = float(pos(rnd))
        cov = v if ck == "scalar" else numpy.float64(v)
        W = numpy.eye(m) / v
    elif ck == "vector":
        cov = numpy.array([[pos(rnd)] for _ in range(m)])
        W = numpy.diag(1.0 / cov[:, 0])
    else:
        a = numpy.array([[dy(rnd, -1, 1) for _ in range(m)] for _ in range(m)])
        cov = a @ a.T + numpy.diag([pos(rnd) for _ in range(m)])
        W = numpy.linalg.inv(cov)
    # measurement errors on another scale (e.g. 10 microseconds, or thousands of units): the same problem with C -> s^2 C
    s2 = rnd.choice([1.0, 1.0, 2.0 ** -34, 2.0 ** 20, 2.0 ** -14] if ck != "full" else [1.0, 2.0 ** -34, 2.0 ** -40, 2.0 ** 20])
    if s2 != 1.0:
        cov = cov * s2 if isinstance(cov, numpy.ndarray) else type(cov)(cov * s2)
        W = W / s2
    return {"shape": shape, "G": G, "d": d, "cov": cov, "ck": ck, "W": W, "n": n, "m": m, "ints": ints, "cov_scale": s2}


def build(pr, rnd, D):
    from hmclab.Distributions import LinearMatrix as LM
    import sys
    LMmod = sys.modules["hmclab.Distributions.LinearMatrix"]
    sparse = rnd.random() < 0.5
    pm = rnd.choice([True, False, None])
    dtype = rnd.choice([numpy.float32, numpy.float64])
    via = rnd.choice(["wrapper", "wrapper", "concrete"])
    Gsrc, dsrc = (pr["G"].astype(int), pr["d"].astype(int)) if pr.get("ints") else (pr["G"], pr["d"])
    G = scipy.sparse.csr_matrix(Gsrc) if sparse else Gsrc.copy()
    cov = pr["cov"] if not isinstance(pr["cov"], numpy.ndarray) else pr["cov"].copy()
    desc = f"{'sparse' if sparse else 'dense'} G {pr['m']}x{pr['n']} ({pr['shape']}), cov {pr['ck']}, premultiplication={pm}, dtype={numpy.dtype(dtype).name}, via {via}{', integer G and d' if pr.get('ints') else ''}{', covariance scaled by %g' % pr['cov_scale'] if pr.get('cov_scale', 1.0) != 1.0 else ''}"
    kw = {}
    if pm is not None or rnd.random() < 0.5:
        kw["premultiplication"] = pm
    with warnings.catch_warnings():
        warnings.simplefilter("ignore")
        if via == "wrapper":
            obj = LM(G, dsrc.copy(), cov, dtype=numpy.dtype(dtype), **kw)
            dts = [numpy.dtype(v.dtype) for v in vars(obj.Distribution).values() if isinstance(v, numpy.ndarray) or scipy.sparse.issparse(v)]
            work = numpy.dtype(numpy.float32) if any(t == numpy.float32 for t in dts) else numpy.dtype(numpy.float64)
        else:
            full = pr["ck"] == "full"
            cls = {(False, False): LMmod._LinearMatrix_dense_forward_simple_covariance, (False, True): LMmod._LinearMatrix_dense_forward_dense_covariance,
                   (True, False): LMmod._LinearMatrix_sparse_forward_simple_covariance, (True, True): LMmod._LinearMatrix_sparse_forward_sparse_covariance}[(sparse, full)]
            c2 = float(cov) if pr["ck"] in ("scalar", "scalar_np") else cov
            if sparse and full:
                kw.pop("premultiplication", None)
            obj = cls(G, dsrc.copy(), c2, dtype=dtype, **kw)
            work = numpy.dtype(dtype)
    return obj, desc, work, via


def tolerances(pr, x, work):
    eps = 3e-6 if work == numpy.float32 else 1e-12
    G, W, d = numpy.abs(pr["G"]), numpy.abs(pr["W"]), numpy.abs(pr["d"])
    A, b = G.T @ W @ G, G.T @ W @ d
    ax = numpy.abs(numpy.array(x))
    tm = eps * (0.5 * float(ax @ A @ ax) + float(ax @ b[:, 0]) + 0.5 * float((d.T @ W @ d).item()) + 1.0)
    tg = [eps * (float((A @ ax)[i]) + float(b[i, 0]) + 1.0) for i in range(pr["n"])]
    tf = [eps * (float((G @ ax)[j]) + 1.0) for j in range(pr["m"])]
    return tm, tg, tf


def large_data_case(rnd, k):
    """Thousands of data (around and beyond block sizes such as 4096): misfit and gradient against the formula, computed directly
    with numpy from the per-datum weights.  No Coq case here: the statement is checked on the implementation only."""
    from hmclab.Distributions import LinearMatrix as LM
    m = [4096, 4097, 5000, 8193, 2500, 9001][k % 6]
    n = rnd.randint(2, 4)
    g = numpy.random.default_rng(900 + k)
    G = numpy.round(g.normal(size=(m, n)) * 8) / 8
    d = numpy.round(g.normal(size=(m, 1)) * 8) / 8
    ck = rnd.choice(["scalar", "vector"])
    if ck == "scalar":
        cov, w = 0.5, numpy.full((m, 1), 2.0)
    else:
        cov = numpy.array([[rnd.choice([0.25, 0.5, 1.0, 2.0])] for _ in range(m)])
        w = 1.0 / cov
    sparse = rnd.random() < 0.5
    pm = rnd.choice([True, None, None, False])
    Garg = scipy.sparse.csr_matrix(G) if sparse else G.copy()
    desc = f"{'sparse' if sparse else 'dense'} G {m}x{n}, cov {ck}, premultiplication={pm}, float64"
    with warnings.catch_warnings():
        warnings.simplefilter("ignore")
        obj = LM(Garg, d.copy(), cov if ck == "scalar" else cov.copy(), dtype=numpy.dtype(numpy.float64), **({} if pm is None else {"premultiplication": pm}))
    x = numpy.array([[dy(rnd, -3, 3)] for _ in range(n)])
    r = G @ x - d
    want_m = 0.5 * float((r * w * r).sum())
    want_g = G.T @ (w * r)
    mis = float(obj.misfit(x.copy()))
    grad = numpy.asarray(obj.gradient(x.copy()), dtype=float).reshape(-1, 1)
    # (the wrapper's back ends keep their arrays in float32 unless told otherwise: the working precision is what they hold)
    dts = [numpy.dtype(v.dtype) for v in vars(obj.Distribution).values() if isinstance(v, numpy.ndarray) or scipy.sparse.issparse(v)]
    eps = 3e-6 if any(t == numpy.float32 for t in dts) else 1e-10
    tol = eps * (abs(want_m) + 1.0)
    if abs(mis - want_m) > tol or float(numpy.max(numpy.abs(grad - want_g))) > eps * (float((numpy.abs(G).T @ numpy.abs(w * r)).max()) + 1.0):
        return [("misfit-formula-large", f"{desc} at {x.flatten().tolist()}: misfit {mis} / gradient {grad.flatten().tolist()}, 1/2 r^T C^-1 r = {want_m} / G^T C^-1 r = {want_g.flatten().tolist()}")]
    return []


def correlated_covariance_case(rnd, k):
    """A valid but strongly correlated full covariance (squared-exponential kernel plus a small uncorrelated part, condition number
    1e6 ... 1e10) in double precision: misfit and gradient belong to the covariance that was GIVEN.  The tolerance is the accuracy a
    linear solve can have at that condition number (1000 * cond * 2^-52, at least 1e-6, relative to the vector); no Coq case here."""
    from hmclab.Distributions.LinearMatrix import _LinearMatrix_dense_forward_dense_covariance as LM   # (the back end itself: the wrapper holds float32 arrays)
    m = rnd.choice([8, 12, 16, 24])
    n = rnd.randint(2, 5)
    g = numpy.random.default_rng(1700 + k)
    G = numpy.round(g.normal(size=(m, n)) * 8) / 8
    d = numpy.round(g.normal(size=(m, 1)) * 8) / 8
    length = rnd.choice([1.5, 2.0, 3.0])
    nug = 10.0 ** -rnd.choice([5, 6, 7, 8])
    scale = rnd.choice([1.0, 4.0, 0.25])
    idx = numpy.arange(m)
    C = scale * (numpy.exp(-0.5 * ((idx[:, None] - idx[None, :]) / length) ** 2) + nug * numpy.eye(m))
    cond = float(numpy.linalg.cond(C))
    if not (cond < 1e11):
        return []
    pm = rnd.choice([True, None, False])
    desc = f"dense G {m}x{n}, full covariance with correlation length {length}, nugget {nug}, scale {scale} (cond {cond:.1e}), premultiplication={pm}, float64"
    with warnings.catch_warnings():
        warnings.simplefilter("ignore")
        obj = LM(G.copy(), d.copy(), C.copy(), dtype=numpy.float64, premultiplication=pm)
        if any(numpy.dtype(v.dtype) == numpy.float32 for v in vars(obj).values() if isinstance(v, numpy.ndarray)):
            return []      # (single precision cannot hold a covariance of this condition number: no statement to check)
        x = numpy.array([[dy(rnd, -3, 3)] for _ in range(n)])
        r = G @ x - d
        wr = numpy.linalg.solve(C, r)
        want_m = 0.5 * float((r.T @ wr).item())
        want_g = G.T @ wr
        mis = float(obj.misfit(x.copy()))
        grad = numpy.asarray(obj.gradient(x.copy()), dtype=float).reshape(-1, 1)
    rel = max(1e-6, 1000.0 * cond * 2.0 ** -52)
    # (cancellation in G^T (C^-1 r) and r^T (C^-1 r) is measured against the size of the terms, not of the result)
    size_m = 0.5 * float((numpy.abs(r).T @ numpy.abs(wr)).item()) + 1.0
    size_g = float((numpy.abs(G).T @ numpy.abs(wr)).max()) + 1.0
    if not (abs(mis - want_m) <= rel * size_m) or not (float(numpy.max(numpy.abs(grad - want_g))) <= rel * size_g):
        return [("misfit-formula-correlated", f"{desc} at {x.flatten().tolist()}: misfit {mis} / gradient {grad.flatten().tolist()}, 1/2 r^T C^-1 r = {want_m} / "
                 f"G^T C^-1 r = {want_g.flatten().tolist()} for the covariance that was given")]
    return []


def run(tier, seed):
    common.setup_env()
    import hmclab
    D = hmclab.Distributions
    rnd = random.Random(seed * 7919 + 15)
    n = 160 if tier == "quick" else 2500
    goals, owners, metas, violations, samples, seen = [], [], [], [], [], set()
    dist = {"dense": 0, "sparse": 0, "float32": 0, "float64": 0, "premult_true": 0, "pickled": 0, "wrapper": 0, "concrete": 0, "bounded": 0, "build_errors": 0}
    combos = set()
    for k in range(12 if tier == "quick" else 60):
        dist["large_data_cases"] = dist.get("large_data_cases", 0) + 1
        try:
            for key, what in large_data_case(rnd, k):
                violations.append(Violation(key, what, {"large_data_case": k}))
        except Exception as e:  # noqa
            violations.append(Violation("large-data-raised", f"LinearMatrix with thousands of data raised {type(e).__name__}: {str(e)[:160]}", {"large_data_case": k}))
    rnd_c = random.Random(seed * 7919 + 1515)      # (its own stream: the cases below are unchanged)
    for k in range(12 if tier == "quick" else 120):
        dist["correlated_covariance_cases"] = dist.get("correlated_covariance_cases", 0) + 1
        try:
            for key, what in correlated_covariance_case(rnd_c, seed * 1000 + k):
                violations.append(Violation(key, what, {"correlated_covariance_case": seed * 1000 + k, "stream": seed * 7919 + 1515}))
        except Exception as e:  # noqa
            violations.append(Violation("correlated-covariance-raised", f"LinearMatrix with a strongly correlated covariance raised {type(e).__name__}: {str(e)[:160]}",
                                        {"correlated_covariance_case": seed * 1000 + k}))
    for i in range(n):
        pr = gen_problem(rnd)
        x = [dy(rnd, -3, 3) for _ in range(pr["n"])]
        xa = numpy.array(x, dtype=float).reshape(-1, 1)
        try:
            obj, desc, work, via = build(pr, rnd, D)
        except Exception as e:  # noqa
            dist["build_errors"] += 1
            key = "construction-refused-" + ("numpy-scalar-covariance" if pr["ck"] == "scalar_np" else type(e).__name__)
            violations.append(Violation(key, f"LinearMatrix construction failed with {type(e).__name__}: {str(e)[:120]} for G {pr['m']}x{pr['n']}, cov {pr['ck']}",
                                        {"problem": {k: (v.tolist() if hasattr(v, 'tolist') else v) for k, v in pr.items() if k in ("G", "d", "ck", "shape")}}))
            continue
        if rnd.random() < 0.3:
            # bounds given before the round trip (on the wrapper or on the back end it wraps) must survive it
            pre = rnd.choice(["none", "self", "backend"])
            holder = (lambda o: o) if pre != "backend" or not hasattr(obj, "Distribution") else (lambda o: o.Distribution)
            try:
                if pre != "none":
                    holder(obj).update_bounds(xa - 1.0, xa + 1.0)
                how = rnd.choice(["pickled", "deep-copied"])
                obj = pickle.loads(pickle.dumps(obj)) if how == "pickled" else copy.deepcopy(obj)
                desc += f", {how}" + (f" with bounds set on {pre} before" if pre != "none" else "")
                dist["pickled"] += 1
            except Exception as e:  # noqa
                violations.append(Violation("pickle-failed", f"{desc}: pickle / deepcopy round trip raised {type(e).__name__}: {e}", {"desc": desc}))
                continue
            if pre != "none":
                with numpy.errstate(all="ignore"), warnings.catch_warnings():
                    warnings.simplefilter("ignore")
                    try:
                        arg = (lambda a: a.astype(work) if via == "concrete" else a.copy())
                        outside = float(obj.misfit(arg(xa + 2.0)))
                        if outside != float("inf"):
                            violations.append(Violation("bounds-lost-in-round-trip", f"{desc}: misfit outside the box is {outside}, not +inf", {"desc": desc}))
                        holder(obj).update_bounds(None, None)
                    except Exception as e:  # noqa
                        violations.append(Violation("evaluation-raised", f"{desc}: misfit outside the box raised {type(e).__name__}: {e}", {"desc": desc}))
                        continue
        dist["sparse" if "sparse G" in desc else "dense"] += 1
        dist[work.name] += 1
        dist[via] += 1
        dist["premult_true"] += int("premultiplication=True" in desc)
        combos.add(desc.split(" (")[0][:6] + "|" + pr["ck"] + "|" + desc.split("premultiplication=")[1].split(",")[0] + "|" + work.name + "|" + via)
        with numpy.errstate(all="ignore"), warnings.catch_warnings():
            warnings.simplefilter("ignore")
            try:
                distgen_disturb(rnd, obj, xa)
                mis = float(obj.misfit(xa.astype(work) if via == "concrete" else xa.copy()))
                grad = col(obj.gradient(xa.astype(work) if via == "concrete" else xa.copy()))
                # the same array object evaluated, moved in place, evaluated again (what the integrators do)
                buf = xa.astype(work) if via == "concrete" else xa.copy()
                obj.misfit(buf)
                obj.gradient(buf)
                buf[:, 0] = [v + rnd.choice([-0.5, 0.25, 0.75]) for v in x]
                m_in, g_in = float(obj.misfit(buf)), col(obj.gradient(buf))
                m_fr, g_fr = float(obj.misfit(buf.copy())), col(obj.gradient(buf.copy()))
                if not (common.same_float(m_in, m_fr) and common.same_vec(g_in, g_fr)):
                    violations.append(Violation("not-a-function-of-the-point", f"{desc}: after moving the evaluated array in place to {col(buf)} misfit / gradient are {m_in} / {g_in}, "
                                                f"a fresh array with the same values gives {m_fr} / {g_fr}", {"desc": desc}))
            except Exception as e:  # noqa
                violations.append(Violation("evaluation-raised", f"{desc}: misfit/gradient raised {type(e).__name__}: {e}", {"desc": desc}))
                continue
            fwd = None
            if via == "wrapper":
                try:
                    fwd = col(obj.forward(xa.copy()))
                except Exception as e:  # noqa
                    violations.append(Violation("forward-raised", f"{desc}: forward(m) raised {type(e).__name__}: {e}", {"desc": desc}))
                # bounds add +inf outside the box, nothing inside
                lo = xa - 1.0
                hi = xa + 1.0
                obj.update_bounds(lo, hi)
                dist["bounded"] += 1
                inside = float(obj.misfit(xa.copy()))
                outside = float(obj.misfit(xa + 2.0))
                obj.update_bounds(None, None)
                if not (outside == float("inf")) or not common.same_float(inside, mis):
                    violations.append(Violation("bounds", f"{desc}: misfit inside the box {inside} (unbounded {mis}), outside the box {outside}", {"desc": desc}))
        # the statement itself in double precision: misfit = 1/2 r^T C^-1 r, gradient = G^T C^-1 r
        r_ = pr["G"] @ xa - pr["d"]
        want_m = 0.5 * float((r_.T @ pr["W"] @ r_).item())
        want_g = (pr["G"].T @ pr["W"] @ r_).flatten()
        rt = 2e-3 if work == numpy.float32 else 1e-7
        if math.isfinite(mis) and (abs(mis - want_m) > rt * max(1.0, abs(want_m)) or
                                   any(abs(a - b) > rt * max(1.0, float(numpy.abs(want_g).max())) for a, b in zip(grad, want_g))):
            violations.append(Violation("misfit-formula", f"{desc} at {x}: misfit {mis} / gradient {grad}, 1/2 r^T C^-1 r = {want_m} / G^T C^-1 r = {want_g.tolist()}", {"desc": desc, "point": x}))
        if not (math.isfinite(mis) and all(math.isfinite(g) for g in grad)):
            violations.append(Violation("nonfinite", f"{desc}: misfit {mis}, gradient {grad} at {x}", {"desc": desc}))
            continue
        tm, tg, tf = tolerances(pr, x, work)
        G, d, W = qm(pr["G"].tolist()), ql(pr["d"].flatten()), qm(pr["W"].tolist())
        gs = [goal(f"lin_misfit {G} {d} {W} {ql(x)}", mis, 0.0, tm)]
        gs += [goal(f"nth {k} (lin_gradient {G} {d} {W} {ql(x)}) 0", grad[k], 0.0, tg[k]) for k in range(pr["n"])]
        if fwd is not None:
            gs += [goal(f"nth {k} (lin_forward {G} {ql(x)}) 0", fwd[k], 0.0, tf[k]) for k in range(pr["m"])]
        for g in gs:
            goals.append(g)
            owners.append(len(metas))
        metas.append({"desc": desc, "point": x, "misfit": mis, "gradient": grad})
        seen.add(common.case_hash([desc, x]))
        if i < 2:
            samples.append(metas[-1])
    failing, errors = distgen.run_goals("C15", goals)
    flagged = {v.replay.get("desc") for v in violations}
    for k in sorted({owners[j] for j in failing}):
        mm = metas[k]
        if mm["desc"] in flagged:
            continue
        violations.append(Violation("correspondence", f"{mm['desc']}: misfit {mm['misfit']} / gradient {mm['gradient']} / forward at {mm['point']} outside the enclosure of "
                                    "1/2 (Gm-d)^T C^-1 (Gm-d), G^T C^-1 (Gm-d), G m at working precision", {"desc": mm["desc"], "point": mm["point"], "no_failing_input_found": True}))
    for k, log in errors:
        violations.append(Violation("coq-error", "interval shard failed: " + log[-300:], {"log": log, "no_failing_input_found": True}))
    return {
        "evaluations": len(metas), "distinct_nontrivial": len(seen),
        "rule": "twelve (thorough: sixty) problems with 2500-9001 data around block sizes, checked against the formula on the implementation only; random small problems (1..3 parameters, under/over/exactly determined, dyadic entries) x dense/sparse x scalar (python and numpy float) / per-datum / "
                "full covariance x premultiplication True/False/None/omitted x float32/float64 x wrapper/concrete x pickled; every successfully built instance is "
                "non-trivial; distinct by description and point",
        "samples": samples, "violations": violations,
        "traces_validated_against_impl": len(metas) - len({owners[j] for j in failing}),
        "coverage": {"distribution": dist, "distinct_configurations": len(combos), "interval_goals": len(goals), "interval_goals_failed": len(failing)},
        "trusted_base": ["numpy.linalg.inv of the harness provides W = C^-1 for the model (checked against the implementation only through the enclosure)",
                         "Coq-Interval (tactic level)", "MKL interface (use_mkl) is not exercised: no MKL in this sandbox"],
    }


def replay(doc):
    print(doc["replay"])
    print("cases are regenerated from the seed; re-run the check with the same VERIF_SEED")
    return 1
