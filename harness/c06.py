"""C06 — bounded targets: (a) co-execution of update_bounds / misfit_bounds / corrector of the real
distributions (own bounds, BayesRule-collapsed bounds, per-block bounds of CompositeDistribution) with
the Coq Bounds model on binary64; (b) the statement itself on the real code: misfit = +inf outside and
equal to the unbounded twin inside, rejected updates keep the old bounds, kinetic energy conserved by
the corrector; (c) complete HMC/RWMH runs on bounded targets with step sizes 1e-6 .. 1e12, every
integrator and mass matrix: every stored column inside with finite misfit, no abort."""
import contextlib
import io
import math
import os
import random
import shutil

import numpy

from . import common
from .common import Violation, fhex, fvec, copt, col, same_vec

HEADER = """From Coq Require Import List Bool ZArith PrimFloat.
From HV Require Import Num FloatIO Bounds C06Corr.
Import ListNotations.
Open Scope float_scope.
"""
INF = float("inf")


def rbox(rnd, d, kind=None):
    kind = kind or rnd.choice(["both", "both", "lower", "upper", "none", "mixed_inf"])
    lo = [rnd.randint(-24, -2) / 8.0 for _ in range(d)] if kind in ("both", "lower", "mixed_inf") else None
    hi = [rnd.randint(2, 24) / 8.0 for _ in range(d)] if kind in ("both", "upper", "mixed_inf") else None
    if kind == "mixed_inf":
        lo[rnd.randrange(d)] = -INF
        hi[rnd.randrange(d)] = INF
    return lo, hi


def arr(v):
    return None if v is None else numpy.array(v, dtype=float).reshape(-1, 1)


def obs_box(dist):
    return (None if dist.lower_bounds is None else col(dist.lower_bounds),
            None if dist.upper_bounds is None else col(dist.upper_bounds))


def gen_case(rnd, tier):
    d = rnd.choice([1, 2, 3])
    c = {"d": d, "old": rbox(rnd, d), "mode": rnd.choice(["plain", "plain", "additive", "additive", "composite", "composite_own"])}
    x = rnd.random()
    if x < 0.45:
        c["args"] = rbox(rnd, d)
    elif x < 0.6:      # incompatible: some upper <= lower
        lo, hi = rbox(rnd, d, "both")
        k = rnd.randrange(d)
        hi[k] = lo[k] - rnd.choice([0.0, 0.5])
        c["args"] = (lo, hi)
    elif x < 0.75:     # wrong shape
        lo, hi = rbox(rnd, d, "both")
        c["args"] = (lo + [0.0], hi) if rnd.random() < 0.5 else (lo, hi[:-1] if d > 1 else hi + [9.0])
    elif x < 0.85:
        c["args"] = (None, None)
    else:
        c["args"] = rbox(rnd, d, rnd.choice(["lower", "upper"]))
    c["as_list"] = rnd.random() < 0.3
    lo_, hi_ = c["args"]
    if x < 0.45 and rnd.random() < 0.35 and all(v is None or all(math.isfinite(t) for t in v) for v in (lo_, hi_)):
        # whole-number bounds handed over with an integer dtype (int64 array, or a list of Python ints)
        c["args"] = (None if lo_ is None else [float(math.floor(t)) for t in lo_], None if hi_ is None else [float(math.ceil(t)) for t in hi_])
        c["int_box"] = True
    c["points"] = [([rnd.randint(-40, 40) / 8.0 for _ in range(d)], [rnd.randint(-16, 16) / 8.0 for _ in range(d)]) for _ in range(6)]
    if c["mode"] == "additive":
        c["parts"] = [rbox(rnd, d) for _ in range(rnd.randint(2, 3))]
        # a box handed to the constructor of the wrapper itself
        c["wrapper_box"] = rbox(rnd, d) if rnd.random() < 0.5 else None
    if c["mode"] == "composite":
        c["blocks"] = [(rnd.choice([1, 2]),) for _ in range(rnd.randint(2, 3))]
        c["blocks"] = [(n, rbox(rnd, n)) for (n,) in c["blocks"]]
    if c["mode"] == "composite_own":
        # unbounded blocks, one box handed to the CompositeDistribution constructor
        c["blocks"] = [(rnd.choice([1, 2]), (None, None)) for _ in range(rnd.randint(2, 3))]
        n = sum(b[0] for b in c["blocks"])
        c["wrapper_box"] = rbox(rnd, n, "both")
        c["mode"] = "composite"
    return c


def run_impl(c):
    import hmclab
    D = hmclab.Distributions
    d = c["d"]
    out = {"problems": []}
    means = numpy.zeros((d, 1))
    dist = D.Normal(means.copy(), numpy.ones((d, 1)), lower_bounds=arr(c["old"][0]), upper_bounds=arr(c["old"][1]))
    twin = D.Normal(means.copy(), numpy.ones((d, 1)))
    old = obs_box(dist)
    lo, hi = c["args"]
    a_lo = (list(lo) if (c["as_list"] and lo is not None) else arr(lo))
    a_hi = (list(hi) if (c["as_list"] and hi is not None) else arr(hi))
    if c.get("int_box"):
        a_lo = None if lo is None else ([int(t) for t in lo] if c["as_list"] else numpy.array(lo).astype(int).reshape(-1, 1))
        a_hi = None if hi is None else ([int(t) for t in hi] if c["as_list"] else numpy.array(hi).astype(int).reshape(-1, 1))
    ok = True
    try:
        dist.update_bounds(a_lo, a_hi)
    except ValueError:
        ok = False
    except Exception as e:  # noqa
        ok = False
        out["problems"].append(("update-bounds-error", f"update_bounds raised {type(e).__name__}: {e}"))
    out["ok"], out["old"], out["after"] = ok, old, obs_box(dist)
    active, parts_obs = dist, []
    declared = []
    if c["mode"] == "additive":
        parts = []
        for (l, u) in c["parts"]:
            parts.append(D.Normal(means.copy(), numpy.ones((d, 1)), lower_bounds=arr(l), upper_bounds=arr(u)))
            declared.append((l, u))
        wb = c.get("wrapper_box")
        if wb is not None:
            active = D.BayesRule(list(parts), lower_bounds=arr(wb[0]), upper_bounds=arr(wb[1]))
        elif len(parts) >= 2 and (len(parts) + d) % 2 == 0:
            # the same posterior built incrementally (prior added last): its bounds are inherited all the same
            active = D.BayesRule(list(parts[:1]))
            for p_ in parts[1:]:
                active.add_distribution(p_)
        else:
            active = D.BayesRule(list(parts))
        second = D.BayesRule([parts[0], D.Normal(means.copy(), 2 * numpy.ones((d, 1)))])   # reuse of the first part
        parts_obs = [obs_box(p) for p in parts]
        for k, (p, (l, u)) in enumerate(zip(parts, declared)):
            got = obs_box(p)
            if not ((got[0] is None) == (l is None) and (got[1] is None) == (u is None)
                    and (l is None or same_vec(got[0], l)) and (u is None or same_vec(got[1], u))):
                out["problems"].append(("part-bounds-mutated", f"building BayesRule objects changed the bounds of part {k}: declared {(l, u)}, now {got}"))
        want2 = obs_box(parts[0])
        if obs_box(second) != (declared[0][0], declared[0][1]) and not (
                (declared[0][0] is None or same_vec(obs_box(second)[0], declared[0][0])) and (declared[0][1] is None or same_vec(obs_box(second)[1], declared[0][1]))
                and (obs_box(second)[0] is None) == (declared[0][0] is None) and (obs_box(second)[1] is None) == (declared[0][1] is None)):
            out["problems"].append(("collapsed-bounds-wrong", f"BayesRule([part0, unbounded]) has bounds {obs_box(second)}, part0 was declared with {declared[0]}"))
        twin = D.BayesRule([D.Normal(means.copy(), numpy.ones((d, 1))) for _ in parts])
    out["parts"] = [(p[0], p[1]) for p in (c.get("parts") or [])] if c["mode"] == "additive" else []
    if c["mode"] == "additive" and c.get("wrapper_box") is not None:
        out["parts"] = [tuple(c["wrapper_box"])] + out["parts"]        # the constructor's box is intersected first
    if c["mode"] == "composite":
        subs, lo_all, hi_all, tw = [], [], [], []
        for n, (l, u) in c["blocks"]:
            subs.append(D.Normal(numpy.zeros((n, 1)), numpy.ones((n, 1)), lower_bounds=arr(l), upper_bounds=arr(u)))
            tw.append(D.Normal(numpy.zeros((n, 1)), numpy.ones((n, 1))))
            lo_all += (l if l is not None else [-INF] * n)
            hi_all += (u if u is not None else [INF] * n)
        wb = c.get("wrapper_box")
        if wb is not None:
            active = D.CompositeDistribution(subs, lower_bounds=arr(wb[0]), upper_bounds=arr(wb[1]))
            lo_all, hi_all = list(wb[0]), list(wb[1])
        else:
            active = D.CompositeDistribution(subs)
        twin = D.CompositeDistribution(tw)
        out["after"] = (lo_all, hi_all)
        out["old"] = (None, None)
        out["ok"] = True
        out["args_override"] = (lo_all, hi_all)
        out["dim"] = sum(n for n, _ in c["blocks"])
    out["collapsed"] = obs_box(active) if c["mode"] != "composite" else out["after"]
    pts = []
    dd = out.get("dim", d)
    for q, p in c["points"]:
        q = (q * 6)[:dd]
        p = (p * 6)[:dd]
        qa, pa = arr(q), arr(p)
        with numpy.errstate(all="ignore"):
            mis = active.misfit(qa.copy())
            tmis = twin.misfit(qa.copy())
        outside = math.isinf(mis) and mis > 0
        q2, p2 = qa.copy(), pa.copy()
        try:
            active.corrector(q2, p2)
        except Exception as e:  # noqa
            out["problems"].append(("corrector-raised", f"{c['mode']}: corrector at {q} with bounds {out['collapsed'] if c['mode'] != 'plain' else out['after']}"
                                    f"{' (integer dtype)' if c.get('int_box') else ''} raised {type(e).__name__}: {str(e)[:120]}"))
        pts.append((q, p, outside, col(q2), col(p2)))
        # statement: +inf outside, unbounded misfit inside
        box_lo, box_hi = out["collapsed"] if c["mode"] != "plain" else out["after"]
        # statement: each violating coordinate mirrored about its bound, exactly the matching momenta negated, the rest untouched
        rq, rp = list(q), list(p)
        for i in range(dd):
            if box_lo is not None and rq[i] < box_lo[i]:
                rq[i], rp[i] = 2.0 * box_lo[i] - rq[i], -rp[i]
            if box_hi is not None and rq[i] > box_hi[i]:
                rq[i], rp[i] = 2.0 * box_hi[i] - rq[i], -rp[i]
        if not (all(common.same_float(a, b) for a, b in zip(rq, col(q2))) and all(common.same_float(a, b) for a, b in zip(rp, col(p2)))):
            out["problems"].append(("corrector-not-mirror", f"{c['mode']}: corrector with bounds {(box_lo, box_hi)} maps q={q}, p={p} to q={col(q2)}, p={col(p2)}; "
                                    f"mirroring the violating coordinates gives q={rq}, p={rp}"))
        viol = any((box_lo is not None and q[i] < box_lo[i]) or (box_hi is not None and q[i] > box_hi[i]) for i in range(dd))
        if viol and not outside:
            out["problems"].append(("misfit-not-inf-outside", f"{c['mode']}: misfit at {q} outside bounds {(box_lo, box_hi)} is {mis}"))
        if not viol and not common.same_float(mis, tmis):
            out["problems"].append(("misfit-changed-inside", f"{c['mode']}: misfit at {q} inside the bounds is {mis}, unbounded twin gives {tmis}"))
        if abs(float(numpy.sum(p2 ** 2)) - float(numpy.sum(pa ** 2))) > 1e-12 * max(1.0, float(numpy.sum(pa ** 2))):
            out["problems"].append(("kinetic-not-conserved", f"corrector changed |p|^2 at {q}, {p}"))
    out["points"] = pts
    if not ok and out["after"] != old and c["mode"] != "composite":
        out["problems"].append(("update-not-atomic", f"rejected update_bounds({c['args']}) changed the bounds from {old} to {out['after']}"))
    return out


def coq_case(c, o):
    ob = lambda b: f"({copt(b[0], fvec)}, {copt(b[1], fvec)})"
    args = o.get("args_override", c["args"])
    pts = "[" + "; ".join(f"({fvec(q)}, {fvec(p)}, {str(out).lower()}, {fvec(q2)}, {fvec(p2)})" for q, p, out, q2, p2 in o["points"]) + "]"
    parts = "[" + "; ".join(ob(p) for p in o["parts"]) + "]"
    return ("{| b_dim := %d%%nat; b_old := %s; b_args := %s; b_update_ok := %s; b_after := %s;\n b_parts := %s; b_collapsed := %s;\n b_points := %s |}"
            % (o.get("dim", c["d"]), ob(o["old"]), ob(args), str(o["ok"]).lower(), ob(o["after"]), parts, ob(o["collapsed"]), pts))


def chain_case(rnd, wd, k):
    import hmclab
    D, M, S = hmclab.Distributions, hmclab.MassMatrices, hmclab.Samplers
    d = rnd.choice([1, 2, 3])
    lo = numpy.array([rnd.randint(-16, -2) / 8.0 for _ in range(d)]).reshape(-1, 1)
    hi = numpy.array([rnd.randint(2, 16) / 8.0 for _ in range(d)]).reshape(-1, 1)
    tk = rnd.choice(["normal", "bayes", "composite", "one-sided"])
    if tk == "normal":
        target = D.Normal(numpy.zeros((d, 1)), numpy.ones((d, 1)), lower_bounds=lo, upper_bounds=hi)
    elif tk == "bayes":
        target = D.BayesRule([D.Uniform(lo, hi), D.Normal(numpy.zeros((d, 1)), numpy.ones((d, 1)))])
    elif tk == "one-sided":
        target = D.Normal(numpy.zeros((d, 1)), numpy.ones((d, 1)), lower_bounds=lo)
        hi = numpy.full((d, 1), INF)
    else:
        target = D.CompositeDistribution([D.Normal(numpy.zeros((1, 1)), numpy.ones((1, 1)), lower_bounds=lo[i:i + 1], upper_bounds=hi[i:i + 1]) for i in range(d)])
    step = rnd.choice([1e-6, 1e-3, 0.1, 1.0, 10.0, 1e3, 1e6, 1e12])
    kind = rnd.choice(["hmc", "hmc", "rwmh"])
    desc = {"target": tk, "d": d, "stepsize": step, "sampler": kind, "lower": col(lo), "upper": col(hi)}
    fname = os.path.join(wd, f"chain{k}.h5")
    exc = None
    with contextlib.redirect_stdout(io.StringIO()), numpy.errstate(all="ignore"):
        try:
            if kind == "hmc":
                mk = rnd.choice(["unit", "diagonal", "full"])
                mass = {"unit": lambda: M.Unit(d), "diagonal": lambda: M.Diagonal(numpy.array([rnd.choice([0.5, 2.0, 1.0]) for _ in range(d)])),
                        "full": lambda: M.Full(numpy.eye(d) + 0.3 * numpy.ones((d, d)))}[mk]()
                integ = rnd.choice(["lf", "3s", "4s"])
                desc.update(mass=mk, integrator=integ)
                S.HMC(seed=k).sample(fname, target, stepsize=step, amount_of_steps=rnd.randint(1, 5), mass_matrix=mass, integrator=integ,
                                     proposals=30, initial_model=numpy.zeros((d, 1)), overwrite_existing_file=True, disable_progressbar=True,
                                     randomize_stepsize=rnd.random() < 0.5)
            else:
                S.RWMH(seed=k).sample(fname, target, stepsize=step, proposals=30, initial_model=numpy.zeros((d, 1)),
                                      overwrite_existing_file=True, disable_progressbar=True)
        except Exception as e:  # noqa
            exc = e
    numpy.seterr(all="warn")
    probs = []
    if exc is not None:
        probs.append((f"sampling-aborted-{desc.get('mass', 'rwmh')}", f"sampling on a bounded target aborted with {type(exc).__name__}: {exc} ({desc})"))
    try:
        with hmclab.Samples(fname) as s:
            a = numpy.array(s.numpy)
        for j in range(a.shape[1]):
            m = a[:-1, j:j + 1]
            if not (numpy.all(m >= lo) and numpy.all(m <= hi) and math.isfinite(a[-1, j])):
                probs.append(("sample-outside-box", f"stored column {j} = {col(m)} with misfit {a[-1, j]} violates the bounds ({desc})"))
                break
        desc["columns"] = int(a.shape[1])
    except Exception as e:  # noqa
        if exc is None:
            probs.append(("chain-file-unreadable", f"{e!r} ({desc})"))
    return probs, desc


def run(tier, seed):
    rnd = random.Random(seed * 7919 + 6)
    n = 260 if tier == "quick" else 4000
    violations, samples, seen, coq, metas = [], [], set(), [], []
    dist = {"plain": 0, "additive": 0, "composite": 0, "rejected_updates": 0, "points_outside": 0, "reflections": 0, "chain_runs": 0}
    for i in range(n):
        c = gen_case(rnd, tier)
        o = run_impl(c)
        for key, what in o["problems"][:2]:
            violations.append(Violation(key, what, {"case": c}))
        coq.append(coq_case(c, o))
        metas.append(c)
        dist[c["mode"]] += 1
        dist["rejected_updates"] += int(not o["ok"])
        nout = sum(1 for p in o["points"] if p[2])
        nref = sum(1 for p in o["points"] if not same_vec(p[0], p[3]))
        dist["points_outside"] += nout
        dist["reflections"] += nref
        if nref:
            seen.add(common.case_hash(c))
        if i < 2:
            samples.append({"mode": c["mode"], "old": c["old"], "args": c["args"], "update_ok": o["ok"], "first_point": o["points"][0]})
    wd = common.tmpdir("c06_")
    try:
        nch = 60 if tier == "quick" else 800
        for k in range(nch):
            probs, desc = chain_case(rnd, wd, k)
            dist["chain_runs"] += 1
            for key, what in probs:
                violations.append(Violation(key, what, {"chain": desc}))
            if k < 1:
                samples.append({"chain": desc})
    finally:
        shutil.rmtree(wd, ignore_errors=True)
    failing, errors = common.eval_cases("C06", HEADER, coq, "c06_check", shard=40)
    flagged = {common.case_hash(v.replay.get("case")) for v in violations if "case" in v.replay}
    for j in failing:
        if common.case_hash(metas[j]) in flagged:
            continue
        violations.append(Violation("correspondence", f"bounds model and implementation disagree ({metas[j]['mode']}: update result, resulting / collapsed bounds, "
                                    "misfit_bounds or corrector at some point)", {"case": metas[j], "correspondence": "C06Corr.c06_check", "no_failing_input_found": True}))
    for k, log in errors:
        violations.append(Violation("coq-error", "correspondence shard failed: " + log[-300:], {"log": log, "no_failing_input_found": True}))
    return {
        "evaluations": n + dist["chain_runs"], "distinct_nontrivial": len(seen),
        "rule": "random boxes (two-sided, one-sided, none, infinite entries), update_bounds with valid / incompatible / wrong-shape / None arguments, arrays or lists; "
                "six points per case around the box for misfit_bounds and the corrector; own bounds, BayesRule (2-3 parts, first part reused in a second BayesRule) "
                "and CompositeDistribution (per-block bounds); plus complete sampler runs with step sizes 1e-6..1e12; non-trivial = at least one reflected point",
        "samples": samples, "violations": violations,
        "traces_validated_against_impl": n - len(failing),
        "coverage": {"distribution": dist, "correspondence_failures": len(failing)},
        "trusted_base": ["numpy comparison / fancy-indexed in-place updates behave elementwise as IEEE-754"],
    }


def replay(doc):
    rp = doc["replay"]
    if "case" in rp:
        c = rp["case"]
        c["points"] = [tuple(x) for x in c["points"]]
        o = run_impl(c)
        print("spec oracle:", o["problems"] or "ok")
        failing, errors = common.eval_cases("C06r", HEADER, [coq_case(c, o)], "c06_check")
        print("correspondence:", "DISAGREE" if failing or errors else "agree")
        return 1 if (o["problems"] or failing or errors) else 0
    print(rp)
    return 1
