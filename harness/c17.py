"""C17 — source location: SourceLocation2D/3D instances on generated station geometries, event and
station counts, scalar / per-datum sigma, missing-pick patterns, fixed / inferred velocity.
forward_vector, misfit and every gradient component must lie in the Coq-Interval enclosure of the model
(DistExtra.v) -- which fixes the parameter layout x,[y,]z,T per event then v; plus the statement itself:
gradient finite wherever the misfit is, 3D with y = 0 equals 2D, zero misfit and gradient at the truth."""
import math
import random

import numpy

from .distgen import disturb as distgen_disturb
from . import common, distgen
from .common import Violation, col
from .distgen import q, ql, qm, goal, dy, pos


def gen(rnd):
    ne, ns = rnd.randint(1, 3), rnd.randint(1, 4)
    three = rnd.random() < 0.5
    rx = [dy(rnd, -4, 4) for _ in range(ns)]
    ry = [dy(rnd, -4, 4) if three else 0.0 for _ in range(ns)]
    rz = [dy(rnd, 0, 1) for _ in range(ns)]
    infer = rnd.random() < 0.5
    v = pos(rnd, 1.0, 4.0)
    obs = [[dy(rnd, 0, 6) for _ in range(ns)] for _ in range(ne)]
    pattern = rnd.choice(["none", "none", "some", "row", "all_but_one"])
    for i, row in enumerate(obs):
        for j in range(ns):
            if (pattern == "some" and rnd.random() < 0.3) or (pattern == "row" and i == 0) or (pattern == "all_but_one" and not (i == 0 and j == 0)):
                row[j] = float("nan")
    sd_scalar = rnd.random() < 0.5
    s0 = pos(rnd, 0.25, 2.0)
    sds = [[(s0 if sd_scalar else pos(rnd, 0.25, 2.0)) for _ in range(ns)] for _ in range(ne)]
    per = 4 if three else 3
    x = []
    for e in range(ne):
        x += [dy(rnd, -4, 4)] + ([dy(rnd, -4, 4)] if three else []) + [dy(rnd, 1.5, 4), dy(rnd, -2, 2)]
    if infer:
        x.append(pos(rnd, 1.0, 4.0))
    coincident = rnd.random() < 0.15
    if coincident:
        # a source exactly at a station (a shot fired at a receiver): distance 0 for that datum
        x[0:per - 1] = [rx[0]] + ([ry[0]] if three else []) + [rz[0]]
    near = (not coincident) and rnd.random() < 0.15
    if near:
        # a source half a metre from a station (coordinates in km): a perfectly regular point of the misfit
        x[0:per - 1] = [rx[0] + 2.0 ** -12] + ([ry[0]] if three else []) + [rz[0] + 2.0 ** -11]
    # the constructors also take data / per-datum sigmas laid out (stations, events) and transpose them
    layout = rnd.choice(["event_major", "event_major", "data_station_major", "sigma_station_major", "both_station_major"]) if ne != ns else "event_major"
    return {"near_station": near, "velocity_hint": rnd.random() < 0.35, "layout": layout, "coincident": coincident, "ne": ne, "ns": ns, "three": three, "rx": rx, "ry": ry, "rz": rz, "infer": infer, "v": v, "obs": obs, "sd_scalar": sd_scalar, "s0": s0,
            "sds": sds, "x": x, "pattern": pattern}


def build(c, D, three=None, obs=None):
    three = c["three"] if three is None else three
    obs = c["obs"] if obs is None else obs
    args = [numpy.array([c["rx"]]), numpy.array([c["rz"]])] if not three else [numpy.array([c["rx"]]), numpy.array([c["ry"]]), numpy.array([c["rz"]])]
    cls = D.SourceLocation3D if three else D.SourceLocation2D
    lay = c.get("layout", "event_major")
    obs_a = numpy.array(obs, dtype=float)
    sds_a = float(c["s0"]) if c["sd_scalar"] else numpy.array(c["sds"], dtype=float)
    if lay in ("data_station_major", "both_station_major"):
        obs_a = numpy.ascontiguousarray(obs_a.T)
    if lay in ("sigma_station_major", "both_station_major") and not c["sd_scalar"]:
        sds_a = numpy.ascontiguousarray(sds_a.T)
    # with an inferred velocity a supplied medium_velocity is a leftover (a starting value, a flag toggled in a script): it is not used
    hint = c["v"] if (c["infer"] and c.get("velocity_hint")) else None
    return cls(*args, obs_a, sds_a, infer_velocity=c["infer"], medium_velocity=hint if c["infer"] else c["v"])


def terms(c, x):
    per = 4 if c["three"] else 3
    ev = []
    for e in range(c["ne"]):
        b = x[e * per:(e + 1) * per]
        ev.append(f"(({q(b[0])}, {q(b[1])}, {q(b[2])}), {q(b[3])})" if c["three"] else f"(({q(b[0])}, 0, {q(b[1])}), {q(b[2])})")
    vv = q(x[-1]) if c["infer"] else q(c["v"])
    stations = "[" + "; ".join(f"({q(a)}, {q(b)}, {q(cc)})" for a, b, cc in zip(c["rx"], c["ry"], c["rz"])) + "]"
    obs_t = "[" + "; ".join("[" + "; ".join("None" if math.isnan(o) else f"Some {q(o)}" for o in row) + "]" for row in c["obs"]) + "]"
    return "[" + "; ".join(ev) + "]", vv, stations, obs_t, qm(c["sds"])


def run(tier, seed):
    common.setup_env()
    import hmclab
    D = hmclab.Distributions
    rnd = random.Random(seed * 7919 + 17)
    n = 90 if tier == "quick" else 1200
    goals, owners, metas, violations, samples, seen = [], [], [], [], [], set()
    dist = {"2d": 0, "3d": 0, "infer_velocity": 0, "with_missing": 0, "scalar_sigma": 0, "truth_cases": 0, "y0_cases": 0, "source_at_station": 0, "station_major_input": 0, "sibling_instances": 0}
    for i in range(n):
        c = gen(rnd)
        obj = build(c, D)
        x = c["x"]
        xa = numpy.array(x, dtype=float).reshape(-1, 1)
        desc = f"SourceLocation{'3D' if c['three'] else '2D'}(events={c['ne']}, stations={c['ns']}, infer_velocity={c['infer']}, missing={c['pattern']}, sigma={'scalar' if c['sd_scalar'] else 'array'}, layout={c.get('layout')})"
        with numpy.errstate(all="ignore"):
            distgen_disturb(rnd, obj, xa)
            if rnd.random() < 0.5:
                # another problem of the same class (another network: moved stations, other picks) evaluated at the same
                # model just before: instances must not share state
                other = dict(c, rx=[v + rnd.choice([-0.75, 0.5, 1.25]) for v in c["rx"]], rz=[v + 0.125 for v in c["rz"]],
                             obs=[[o + 0.25 for o in row] for row in c["obs"]])
                try:
                    sib = build(other, D)
                    sib.misfit(xa.copy())
                    sib.gradient(xa.copy())
                    dist["sibling_instances"] += 1
                except Exception:  # noqa
                    pass
            try:
                mis = float(obj.misfit(xa.copy()))
                grad = col(obj.gradient(xa.copy()))
                fwd = numpy.asarray(obj.forward_vector(xa.copy()), dtype=float)
            except Exception as e:  # noqa
                violations.append(Violation("evaluation-raised", f"{desc}{' (a medium_velocity given although the velocity is inferred)' if c.get('velocity_hint') and c['infer'] else ''} at {x}: "
                                            f"misfit / gradient / forward raised {type(e).__name__}: {str(e)[:120]}", {"case": c}))
                continue
        for key, what in distgen.inplace_consistency(rnd, obj, xa, desc):
            violations.append(Violation(key, what, {"case": c}))
        dist["3d" if c["three"] else "2d"] += 1
        dist["infer_velocity"] += int(c["infer"])
        dist["with_missing"] += int(c["pattern"] != "none")
        dist["scalar_sigma"] += int(c["sd_scalar"])
        dist["source_at_station"] += int(c["coincident"])
        dist["station_major_input"] += int(c.get("layout") != "event_major")
        if numpy.asarray(obj.gradient(xa.copy())).shape != (len(x), 1):
            violations.append(Violation("gradient-shape", f"{desc}: gradient shape {numpy.asarray(obj.gradient(xa.copy())).shape}", {"case": c}))
        if math.isfinite(mis) and not all(math.isfinite(g) for g in grad):
            violations.append(Violation(f"gradient-not-finite-{'3D' if c['three'] else '2D'}", f"{desc}: misfit {mis} is finite but gradient is {grad}", {"case": c}))
            continue
        # the misfit is a quadratic in every origin time, wherever the hypocentres are (also exactly at a station, where it has a kink
        # in the coordinates): the central difference over a dyadic step is its derivative up to rounding
        per_ = 4 if c["three"] else 3
        if math.isfinite(mis):
            for e in range(c["ne"]):
                k = e * per_ + per_ - 1
                xp, xm = xa.copy(), xa.copy()
                xp[k, 0] += 0.5
                xm[k, 0] -= 0.5
                with numpy.errstate(all="ignore"):
                    dT = float(obj.misfit(xp)) - float(obj.misfit(xm))
                if math.isfinite(dT) and abs(dT - grad[k]) > 1e-8 * (abs(dT) + abs(grad[k]) + 1.0):
                    violations.append(Violation("origin-time-derivative", f"{desc} at {x}: d misfit / d T of event {e} is {dT} (central difference of a quadratic), "
                                                f"gradient component {k} is {grad[k]}", {"case": c}))
                    break
        if c.get("near_station") and math.isfinite(mis):
            # close to a station the enclosure below is the tie; the statement itself, by central differences over a step well below the
            # distance to the station (error of order (h / distance)^2 ~ 1e-3)
            for k in range(per_ - 1):
                h = 2.0 ** -16
                xp, xm = xa.copy(), xa.copy()
                xp[k, 0] += h
                xm[k, 0] -= h
                with numpy.errstate(all="ignore"):
                    fd = (float(obj.misfit(xp)) - float(obj.misfit(xm))) / (2 * h)
                # (the error of the difference quotient scales with the single terms of the sum, not with their possibly cancelling total)
                with numpy.errstate(all="ignore"):
                    res0 = numpy.abs(numpy.nan_to_num(numpy.asarray(fwd, dtype=float)[0] - numpy.asarray(c["obs"], dtype=float)[0]))
                    sd0 = numpy.asarray(c["sds"], dtype=float)[0]
                    vuse = (x[-1] if c["infer"] else c["v"])
                    scale_terms = float(numpy.sum(res0 / (sd0 ** 2 * abs(vuse))))
                if math.isfinite(fd) and abs(fd - grad[k]) > 0.03 * (abs(fd) + abs(grad[k])) + 0.01 * scale_terms + 1e-6:
                    violations.append(Violation("gradient-near-station", f"{desc} at {x} (event 0 half a metre from station 0): d misfit / d coordinate {k} is {fd} by central differences, "
                                                f"gradient component {k} is {grad[k]}", {"case": c}))
                    break
        if not c["coincident"]:     # the model divides by the distance; at distance 0 only the statement itself is checked
            ev, vv, stations, obs_t, sds_t = terms(c, x)
            b = "true" if c["three"] else "false"
            gs = [goal(f"src_misfit {ev} {vv} {stations} {obs_t} {sds_t}", mis)]
            for k in range(len(x) - int(c["infer"])):
                gs.append(goal(f"nth {k} (fst (src_gradient {b} {ev} {vv} {stations} {obs_t} {sds_t})) 0", grad[k]))
            if c["infer"]:
                gs.append(goal(f"snd (src_gradient {b} {ev} {vv} {stations} {obs_t} {sds_t})", grad[-1]))
            # predicted arrival times, event by event and station by station
            per = 4 if c["three"] else 3
            e0 = rnd.randrange(c["ne"])
            s0 = rnd.randrange(c["ns"])
            bb = x[e0 * per:(e0 + 1) * per]
            et = f"({q(bb[0])}, {q(bb[1])}, {q(bb[2])})" if c["three"] else f"({q(bb[0])}, 0, {q(bb[1])})"
            gs.append(goal(f"tt {et} {q(bb[-1])} {vv} ({q(c['rx'][s0])}, {q(c['ry'][s0])}, {q(c['rz'][s0])})", float(fwd[e0, s0])))
            for g in gs:
                goals.append(g)
                owners.append(len(metas))
        metas.append({"desc": desc, "point": x, "misfit": mis, "gradient": grad})
        if c["pattern"] != "none" or c["infer"]:
            seen.add(common.case_hash([desc, x]))
        if i < 2:
            samples.append(metas[-1])
        # 3D with all y = 0 equals 2D
        if not c["three"]:
            dist["y0_cases"] += 1
            o3 = build(c, D, three=True)
            x3 = []
            for e in range(c["ne"]):
                bb = x[e * 3:(e + 1) * 3]
                x3 += [bb[0], 0.0, bb[1], bb[2]]
            if c["infer"]:
                x3.append(x[-1])
            x3a = numpy.array(x3).reshape(-1, 1)
            with numpy.errstate(all="ignore"):
                m3 = float(o3.misfit(x3a))
                g3 = col(o3.gradient(x3a))
            g3r = [g3[e * 4 + k] for e in range(c["ne"]) for k in (0, 2, 3)] + ([g3[-1]] if c["infer"] else [])
            gy = [g3[e * 4 + 1] for e in range(c["ne"])]
            if not (abs(m3 - mis) <= 1e-9 * max(1, abs(mis)) and numpy.allclose(g3r, grad, rtol=1e-9, atol=1e-12) and numpy.allclose(gy, 0.0, atol=1e-12)):
                violations.append(Violation("3d-y0-differs-from-2d", f"{desc}: the 3D problem with all y = 0 gives misfit {m3} / gradient {g3}, the 2D problem {mis} / {grad}", {"case": c}))
        # noise-free data: zero misfit and gradient at the truth
        if i % 3 == 0 or c["coincident"]:
            dist["truth_cases"] += 1
            clean = numpy.array(fwd, dtype=float)
            mask = numpy.isnan(numpy.array(c["obs"], dtype=float))
            clean[mask] = numpy.nan
            ot = build(c, D, obs=clean)
            with numpy.errstate(all="ignore"):
                m0 = float(ot.misfit(xa.copy()))
                g0 = col(ot.gradient(xa.copy()))
            if not (abs(m0) <= 1e-20 and all(abs(g) <= 1e-10 for g in g0)):
                violations.append(Violation("nonzero-at-truth", f"{desc}: with noise-free data the misfit at the true model is {m0}, gradient {g0}", {"case": c}))
    failing, errors = distgen.run_goals("C17", goals)
    flagged = set()
    for k in sorted({owners[j] for j in failing}):
        mm = metas[k]
        violations.append(Violation("correspondence", f"{mm['desc']} at {mm['point']}: misfit {mm['misfit']}, gradient {mm['gradient']} or a predicted arrival time is outside "
                                    "the enclosure of the model (travel time = T + distance/v, masked least squares, layout x,[y,]z,T,...,v)",
                                    {"desc": mm["desc"], "point": mm["point"], "no_failing_input_found": True}))
    for k, log in errors:
        violations.append(Violation("coq-error", "interval shard failed: " + log[-300:], {"log": log, "no_failing_input_found": True}))
    return {
        "evaluations": len(metas) + dist["truth_cases"] + dist["y0_cases"], "distinct_nontrivial": len(seen),
        "rule": "random geometries (1-4 stations, 1-3 events, dyadic coordinates, sources at depth >= 1.5 below stations at depth <= 1, 15% with one source exactly at a station), 2D and 3D, scalar or per-datum "
                "sigma, missing-pick patterns none / scattered / whole event / all but one, fixed or inferred velocity; non-trivial = missing picks or inferred velocity",
        "samples": samples, "violations": violations,
        "traces_validated_against_impl": len(metas) - len({owners[j] for j in failing}),
        "coverage": {"distribution": dist, "interval_goals": len(goals), "interval_goals_failed": len(failing)},
        "trusted_base": ["Coq-Interval (tactic level)"],
    }


def replay(doc):
    print(doc["replay"])
    print("cases are regenerated from the seed; re-run the check with the same VERIF_SEED")
    return 1
