"""C01 — HMC integrators: (a) bit-exact co-execution of the real _propagate_* methods (and of
HMC_visual's animated leapfrog through full sample() runs) with the Coq integrator programs on
scripted gradients / mass matrices / random factor and the real corrector with boxes;
(b) static tie: the drift/kick schedule of each method is re-extracted from the source by an AST
translator and proved equal to the model's program inside Coq; (c) spec oracle on the real code:
numerical time reversal, drift/kick time sums, factor drawn once before anything else."""
import contextlib
import io
import math
import os
import random
import shutil

import numpy

from . import common, sampler_runs as sr
from .common import Violation, fhex, fvec, copt, col, same_vec

HEADER = """From Coq Require Import List Bool ZArith PrimFloat.
From HV Require Import Num FloatIO Integrators Bounds SamplerCorr C01Corr.
Import ListNotations.
Open Scope float_scope.
"""

NAMES = {"lf": "_propagate_leapfrog", "3s": "_propagate_3_stage_simplified", "4s": "_propagate_4_stage_simplified"}


def make_sampler(cfg, target, mass, rng):
    import hmclab
    smp = hmclab.Samplers.HMC(seed=1)
    d = cfg["d"]
    smp.dimensions = d
    smp.distribution = target
    smp.mass_matrix = mass
    smp.rng = rng
    mass.rng = rng
    smp.stepsize = cfg["stepsize"]
    smp.amount_of_steps = cfg["steps"]
    smp.randomize_stepsize = cfg["randomize"]
    return smp


def propagate(smp, integ, q, p):
    import hmclab
    smp.current_model = numpy.array(q, dtype=float).reshape(-1, 1)
    smp.current_momentum = numpy.array(p, dtype=float).reshape(-1, 1)
    q_in, p_in = smp.current_model.copy(), smp.current_momentum.copy()
    with numpy.errstate(all="ignore"):
        hmclab.Samplers.HMC.integrators[integ](smp)
    mutated = not (numpy.array_equal(q_in, smp.current_model, equal_nan=True) and numpy.array_equal(p_in, smp.current_momentum, equal_nan=True))
    return col(smp.proposed_model), col(smp.proposed_momentum), mutated


def gen_case(rnd, tier):
    d = rnd.choice([1, 2, 3])
    bounded = rnd.random() < 0.6
    lo = hi = None
    if bounded:
        kind = rnd.choice(["both", "lower", "upper", "mixed_inf"])
        lo = [rnd.randint(-24, -4) / 8.0 for _ in range(d)] if kind in ("both", "lower", "mixed_inf") else None
        hi = [rnd.randint(4, 24) / 8.0 for _ in range(d)] if kind in ("both", "upper", "mixed_inf") else None
        if kind == "mixed_inf":
            lo[rnd.randrange(d)] = float("-inf")
            hi[rnd.randrange(d)] = float("inf")
    return {
        "d": d, "integ": rnd.choice(["lf", "3s", "4s"]), "steps": rnd.randint(1, 6 if tier == "quick" else 40),
        "stepsize": rnd.choice([0.1, 0.25, 0.3, 1.0, 0.7, 0.05, 2.5]), "randomize": rnd.random() < 0.5,
        "factor": 0.5 + rnd.randint(0, 64) / 64.0, "tseed": rnd.randrange(1 << 30),
        "q0": [rnd.randint(-3, 3) / 8.0 for _ in range(d)], "p0": [rnd.randint(-32, 32) / 16.0 for _ in range(d)],
        "invdiag": [rnd.choice([1.0, 0.5, 2.0, 0.25, 0.3]) for _ in range(d)], "lo": lo, "hi": hi,
        "special": rnd.choice([0.0, 0.0, 0.1]),
    }


def run_impl(c):
    from .probes import FnTarget, FnMass, ScriptedRng
    glog = []
    lo = None if c["lo"] is None else numpy.array(c["lo"]).reshape(-1, 1)
    hi = None if c["hi"] is None else numpy.array(c["hi"]).reshape(-1, 1)
    target = FnTarget(c["d"], seed=c["tseed"], special_rate=c["special"], lower=lo, upper=hi, glog=glog)
    mass = FnMass(c["d"], seed=1, inv_diag=c["invdiag"], glog=glog)
    rng = ScriptedRng(factors=[c["factor"]])
    smp = make_sampler(c, target, mass, rng)
    q, p, mutated = propagate(smp, c["integ"], c["q0"], c["p0"])
    return {"q": q, "p": p, "glog": glog, "target": target, "mass": mass, "rng": rng.requests, "mutated": mutated}


def coq_case(c, o, lits):
    kg = [(a, v) for k, a, v in o["mass"].log if k == "kinetic_energy_gradient"]
    gr = [(a, v) for k, a, v in o["target"].log if k == "gradient"]
    vt = lambda t: "[" + "; ".join(f"({fvec(a)}, {fvec(v)})" for a, v in t) + "]"
    tr = "[" + "; ".join(f"({t}%nat, {fvec(a)}, {fvec(b)})" for t, a, b in o["glog"]) + "]"
    return ("{| i_integ := %d%%nat; i_lits := %s; i_steps := %d%%nat; i_stepsize := %s; i_factor := %s;\n"
            " i_q0 := %s; i_p0 := %s;\n i_kgrad := %s;\n i_grad := %s;\n i_lo := %s; i_hi := %s;\n o_q := %s; o_p := %s;\n o_trace := %s |}"
            % (sr.INTEG_CODE[c["integ"]], fvec(lits[c["integ"]]), c["steps"], fhex(c["stepsize"]),
               copt(c["factor"] if c["randomize"] else None), fvec(c["q0"]), fvec(c["p0"]), vt(kg), vt(gr),
               copt(c["lo"], fvec), copt(c["hi"], fvec), fvec(o["q"]), fvec(o["p"]), tr))


# ----------------------------------------------------------------------------- spec oracle on real classes

def real_setup(rnd, mass_kind, bounded, d):
    import hmclab
    means = numpy.array([rnd.randint(-8, 8) / 8.0 for _ in range(d)]).reshape(-1, 1)
    var = numpy.array([rnd.choice([0.5, 1.0, 2.0, 4.0]) for _ in range(d)]).reshape(-1, 1)
    lo = hi = None
    if bounded:
        lo = means - numpy.array([rnd.choice([1.0, 1.5, 2.0]) for _ in range(d)]).reshape(-1, 1)
        hi = means + numpy.array([rnd.choice([1.0, 1.5, 2.0]) for _ in range(d)]).reshape(-1, 1)
    target = hmclab.Distributions.Normal(means.copy(), var.copy(), lower_bounds=lo, upper_bounds=hi)
    if bounded and d >= 2 and rnd.random() < 0.35:
        # the same box carried by the components of a composite target (no bounds on the composite itself)
        D = hmclab.Distributions
        target = D.CompositeDistribution([D.Normal(means[i:i + 1].copy(), var[i:i + 1].copy(), lower_bounds=lo[i:i + 1].copy(), upper_bounds=hi[i:i + 1].copy())
                                          for i in range(d)])
        target._c01_box = (lo, hi)
    # the same dynamics in other units: (c M, sqrt(c) p, sqrt(c) h) follows the trajectory of (M, p, h) for any c > 0
    scale = rnd.choice([1.0, 1.0, 2.0 ** -40, 2.0 ** 30]) if not bounded else 1.0
    if mass_kind == "unit":
        mass, M = hmclab.MassMatrices.Unit(d), numpy.eye(d)
        scale = 1.0
    elif mass_kind == "diagonal":
        dg = scale * numpy.array([rnd.choice([0.5, 1.0, 2.0, 3.0]) for _ in range(d)])
        mass, M = hmclab.MassMatrices.Diagonal(dg.copy()), numpy.diag(dg)
    else:
        a = numpy.array([[rnd.randint(-4, 4) / 8.0 for _ in range(d)] for _ in range(d)])
        M = scale * (a @ a.T + numpy.eye(d))
        mass = hmclab.MassMatrices.Full(M.copy())
    mass._c01_M, mass._c01_scale = M, scale
    return target, mass, means, lo, hi


def reflections_single(target, mass, integ, cfg, q, p, lits):
    """Replays the trajectory in numpy to see whether every reflected drift is a single bounce landing in the box
    (the hypothesis `all_good` of the Coq theorem) and whether any reflection happened."""
    lo, hi = getattr(target, "_c01_box", (target.lower_bounds, target.upper_bounds))
    if lo is None and hi is None:
        return True, False
    events = {"n": 0, "bad": False}
    orig = target.corrector

    def spy(pos, mom):
        # a drift that ends exactly on a wall starts the next drift on the wall: outside the hypothesis of the
        # theorem (every drift starts strictly inside), a null set for the sampler
        if (lo is not None and (numpy.abs(pos - lo) <= 1e-12).any()) or (hi is not None and (numpy.abs(pos - hi) <= 1e-12).any()):
            events["bad"] = True
        if lo is not None:
            low = pos < lo
            if low.any():
                events["n"] += 1
                if hi is not None and ((2 * lo - pos)[low] > hi[low]).any():
                    events["bad"] = True
        if hi is not None:
            high = pos > hi
            if high.any():
                events["n"] += 1
                if lo is not None and ((2 * hi - pos)[high] < lo[high]).any():
                    events["bad"] = True
            if lo is not None and (low & high).any():
                events["bad"] = True
        # the hypothesis is about the SPECIFIED trajectory: reflect with the reference mirror, not with the code under test
        if lo is not None:
            low = pos < lo
            pos[low] = (2 * lo - pos)[low]
            mom[low] *= -1.0
        if hi is not None:
            high = pos > hi
            pos[high] = (2 * hi - pos)[high]
            mom[high] *= -1.0
        return None
    target.corrector = spy
    try:
        smp = make_sampler(cfg, target, mass, numpy.random.default_rng(3))
        propagate(smp, integ, q, p)
    finally:
        del target.corrector
    return (not events["bad"]), events["n"] > 0


def reversal_case(rnd, tier, force=None):
    import hmclab
    if force:
        d = len(force["q"])
        integ, mass_kind, bounded = force["integ"], force["mass_kind"], True
        arr = lambda v: numpy.array(v, dtype=float).reshape(-1, 1)
        target = hmclab.Distributions.Normal(arr(force["means"]), arr(force["var"]), lower_bounds=arr(force["lo"]), upper_bounds=arr(force["hi"]))
        mass = (hmclab.MassMatrices.Unit(d) if mass_kind == "unit" else hmclab.MassMatrices.Full(numpy.array(force["M"], dtype=float)))
        cfg = {"d": d, "stepsize": force["stepsize"], "steps": force["steps"], "randomize": False}
        q, p = arr(force["q"]), arr(force["p"])
    else:
        d = rnd.choice([1, 2, 3])
        mass_kind = rnd.choice(["unit", "diagonal", "full"])
        bounded = rnd.random() < 0.6
        integ = rnd.choice(["lf", "3s", "4s"])
        if bounded and mass_kind == "full":
            mass_kind = "diagonal"          # Full mass with reflection is the recorded known finding
        target, mass, means, lo, hi = real_setup(rnd, mass_kind, bounded, d)
        cfg = {"d": d, "stepsize": rnd.choice([0.05, 0.1, 0.2, 0.3]) * math.sqrt(mass._c01_scale), "steps": rnd.randint(1, 8), "randomize": False}
        q = means + numpy.array([rnd.randint(-6, 6) / 8.0 for _ in range(d)]).reshape(-1, 1)
        p = math.sqrt(mass._c01_scale) * numpy.array([rnd.randint(-24, 24) / 8.0 for _ in range(d)]).reshape(-1, 1)
        if bounded and rnd.random() < 0.35:
            # start in a corner of the box, moving outwards: several coordinates leave through different walls in one drift
            side = numpy.array([rnd.choice([-1.0, 1.0]) for _ in range(d)]).reshape(-1, 1)
            p = side * numpy.array([rnd.randint(4, 16) / 8.0 for _ in range(d)]).reshape(-1, 1)
            v = numpy.asarray(mass.kinetic_energy_gradient(p.copy()), dtype=float).reshape(-1, 1)
            # ... all of them within the first drift (a third of the way to the end of it)
            q = numpy.where(side < 0, lo, hi) - (cfg["stepsize"] / 6.0) * v
    single, reflected = reflections_single(target, mass, integ, cfg, col(q), col(p), None)
    smp = make_sampler(cfg, target, mass, numpy.random.default_rng(5))
    q1, p1, _ = propagate(smp, integ, col(q), col(p))
    single_back, _ = reflections_single(target, mass, integ, cfg, q1, [-v for v in p1], None)
    q2, p2, _ = propagate(smp, integ, q1, [-v for v in p1])
    psc = math.sqrt(getattr(mass, "_c01_scale", 1.0))
    err = max(float(numpy.max(numpy.abs(numpy.array(q2) - q.flatten()))), float(numpy.max(numpy.abs(-numpy.array(p2) - p.flatten()))) / psc)
    drift_err = None
    if not bounded and not force:
        # the same trajectory with the drift velocity taken from the matrix itself (solve(M, p)): positions may move only
        # through the mass matrix that was handed over, whatever its scale
        import copy
        M = mass._c01_M
        ref = copy.deepcopy(mass)
        ref.kinetic_energy_gradient = lambda mom, *a, M=M, **k: numpy.linalg.solve(M, numpy.asarray(mom, dtype=float).reshape(-1, 1))
        rq1, rp1, _ = propagate(make_sampler(cfg, target, ref, numpy.random.default_rng(5)), integ, col(q), col(p))
        drift_err = max(float(numpy.max(numpy.abs(numpy.array(q1) - numpy.array(rq1)))), float(numpy.max(numpy.abs(numpy.array(p1) - numpy.array(rp1)))) / psc)
    return {"drift_error": drift_err, "mass_scale": psc * psc, "integrator": integ, "mass": mass_kind, "bounded": bounded, "d": d, "stepsize": cfg["stepsize"], "steps": cfg["steps"],
            "q": col(q), "p": col(p), "reflected": reflected, "single_bounce": single and single_back, "error": err,
            "proposal": [q1, p1], "back": [q2, p2]}


def time_sum_case(rnd):
    """K = identity, G = 0: q' - q = (sum of drift coefficients) p;  G = const: p' - p = -(sum of kick coefficients) g."""
    import hmclab
    d = 2
    integ = rnd.choice(["lf", "3s", "4s"])
    n, eps = rnd.randint(1, 9), rnd.choice([0.1, 0.25, 0.5, 0.3])
    g = numpy.array([[0.75], [-1.25]])

    class Lin(hmclab.Distributions._AbstractDistribution):
        dimensions = 2

        def misfit(self, m):
            return float((g.T @ m).item())

        def gradient(self, m):
            return g.copy()

        def generate(self, repeat=1, rng=None):
            raise NotImplementedError()
    cfg = {"d": d, "stepsize": eps, "steps": n, "randomize": False}
    smp = make_sampler(cfg, Lin(), hmclab.MassMatrices.Unit(d), numpy.random.default_rng(1))
    q0, p0 = [0.5, -0.25], [1.0, 2.0]
    q1, p1, _ = propagate(smp, integ, q0, p0)
    kick = -(p1[0] - p0[0]) / g[0, 0]
    # with constant gradient: q' = q + T p - g * (double sum); use a zero-gradient run for the drift time
    g0 = g.copy()
    g[:] = 0.0
    q1z, p1z, _ = propagate(smp, integ, q0, p0)
    g[:] = g0
    drift = (q1z[0] - q0[0]) / p0[0]
    return {"integrator": integ, "steps": n, "stepsize": eps, "drift_time": drift, "kick_time": kick, "expected": n * eps}


def run(tier, seed):
    rnd = random.Random(seed * 7919 + 1)
    n = 220 if tier == "quick" else 3000
    lits = sr.source_literals()
    violations, samples, seen, coq, metas = [], [], set(), [], []
    dist = {"lf": 0, "3s": 0, "4s": 0, "bounded": 0, "reflections": 0, "randomized": 0, "visual_runs": 0,
            "reversal_cases": 0, "reversal_with_reflection": 0, "reversal_skipped_multibounce": 0, "time_sum_cases": 0}
    for i in range(n):
        c = gen_case(rnd, tier)
        o = run_impl(c)
        coq.append(coq_case(c, o, lits))
        metas.append(c)
        dist[c["integ"]] += 1
        dist["bounded"] += int(c["lo"] is not None or c["hi"] is not None)
        dist["randomized"] += int(c["randomize"])
        nref = sum(1 for t, a, b in o["glog"] if t == 4) - 0
        # the statement: the randomisation factor is read once per trajectory (none without randomisation); through which
        # generator method, and with which bounds before scaling, is the tie's business
        want_n = 1 if c["randomize"] else 0
        if len(o["rng"]) != want_n:
            violations.append(Violation("factor-draws", f"{c['integ']}: {len(o['rng'])} random numbers requested during one trajectory ({o['rng']}), the step-size factor is read "
                                        f"{'once' if want_n else 'not at all'}", {"case": c}))
        if o["mutated"]:
            violations.append(Violation("state-mutated", f"{c['integ']}: current_model/current_momentum were modified by the integrator", {"case": c}))
        if c["steps"] >= 2 and (c["lo"] is not None or c["hi"] is not None or c["randomize"]):
            seen.add(common.case_hash(c))
        if i < 2:
            samples.append({"case": {k: c[k] for k in ("integ", "steps", "stepsize", "randomize", "lo", "hi")}, "calls": len(o["glog"])})
    # HMC_visual through complete runs (animated and plain)
    wd = common.tmpdir("c01_")
    vis_cases, vis_meta = [], []
    try:
        nvis = 6 if tier == "quick" else 40
        for k in range(nvis):
            cfg = sr.gen_run(rnd, kind="hmc", integ="lf", maxP=3, thin=1, special=0.0)
            cfg["d"] = 2
            cfg["m0"] = cfg["m0"][:2] if len(cfg["m0"]) >= 2 else [0.25, -0.5]
            cfg["zs"] = [(z + [0.5, -0.25])[:2] for z in cfg["zs"]]
            cfg["invdiag"] = (cfg["invdiag"] + [1.0, 2.0])[:2]
            cfg["visual"] = "animate" if k % 2 == 0 else "plain"
            r = sr.run_impl(cfg, wd)
            dist["visual_runs"] += 1
            if r.exception is not None:
                violations.append(Violation("visual-raised", f"HMC_visual run raised {r.exception!r}", {"case": cfg}))
                continue
            vis_cases.append(sr.coq_case(cfg, r, lits))
            vis_meta.append(cfg)
    finally:
        shutil.rmtree(wd, ignore_errors=True)
        try:
            import matplotlib.pyplot as plt
            plt.close("all")
        except Exception:
            pass
    # spec oracle on the real classes: numerical time reversal and time sums
    nrev = 120 if tier == "quick" else 1500
    for k in range(nrev):
        d_ = reversal_case(rnd, tier)
        dist["reversal_cases"] += 1
        dist["reversal_with_reflection"] += int(d_["reflected"])
        if d_.get("drift_error") is not None:
            dist["drift_through_matrix_checks"] = dist.get("drift_through_matrix_checks", 0) + 1
            if not (d_["drift_error"] <= 1e-9):
                violations.append(Violation("drift-not-through-the-mass-matrix", f"{d_['integrator']} with {d_['mass']} mass (matrix scaled by {d_['mass_scale']}): the proposal differs by "
                                            f"{d_['drift_error']:.3g} from the same scheme with the drift velocity solve(M, p)", {"reversal": d_}))
        if not d_["single_bounce"]:
            dist["reversal_skipped_multibounce"] += 1
            continue
        if not (d_["error"] <= 1e-9):
            violations.append(Violation("not-reversible", f"{d_['integrator']} with {d_['mass']} mass, bounded={d_['bounded']}: integrating the proposal with negated "
                                        f"momentum misses the start by {d_['error']:.3g}", {"reversal": d_}))
    # the two recorded known findings, re-demonstrated on fixed inputs
    kf1 = reversal_case(None, tier, force={"integ": "lf", "mass_kind": "full", "M": [[1.0, 0.5], [0.5, 1.0]], "means": [0, 0], "var": [1, 1],
                                           "lo": [-1, -1], "hi": [1, 1], "stepsize": 0.5, "steps": 1, "q": [0.9, 0.0], "p": [2.0, 0.0]})
    if kf1["reflected"] and not (kf1["error"] <= 1e-9):
        violations.append(Violation("full-mass-reflection", "Full mass matrix M=[[1,.5],[.5,1]], Normal(0,I) on [-1,1]^2, leapfrog 1 step of 0.5 from q=(0.9,0), p=(2,0): "
                                    f"integrating the proposal with negated momentum ends at {kf1['back'][0]} instead of the start (error {kf1['error']:.3g})", {"reversal": kf1}))
    kf2 = reversal_case(None, tier, force={"integ": "lf", "mass_kind": "unit", "means": [0], "var": [1], "lo": [-1], "hi": [1], "stepsize": 1.0, "steps": 1,
                                           "q": [-0.5], "p": [-5.2]})
    if not kf2["single_bounce"] and not (kf2["error"] <= 1e-9):
        violations.append(Violation("multi-bounce", "overshoot larger than the box width: Normal(0,1) on [-1,1], unit mass, leapfrog 1 step of 1.0 from q=-0.5, p=-5.2 "
                                    f"bounces off both walls within one drift; the reversed trajectory ends at {kf2['back'][0]} (error {kf2['error']:.3g})", {"reversal": kf2}))
    for k in range(12 if tier == "quick" else 100):
        t = time_sum_case(rnd)
        dist["time_sum_cases"] += 1
        if abs(t["drift_time"] - t["expected"]) > 1e-12 * max(1, t["expected"]) or abs(t["kick_time"] - t["expected"]) > 1e-12 * max(1, t["expected"]):
            violations.append(Violation("time-sum", f"{t['integrator']}: drift time {t['drift_time']}, kick time {t['kick_time']}, expected stepsize*steps = {t['expected']}", {"times": t}))
    # static tie: schedule extracted from the source
    from . import schedule_ast
    sched_ok, sched_msg = schedule_ast.check()
    if not sched_ok:
        violations.append(Violation("schedule-static", "the drift/kick schedule extracted from the source is not the model's program: " + sched_msg[-600:],
                                    {"schedule": sched_msg, "no_failing_input_found": True}))
    failing, errors = common.eval_cases("C01", HEADER, coq, "c01_check", shard=20)
    vfail, verrors = sr.eval_runs("C01v", vis_cases, ["sc_check_cols", "sc_check_trace"]) if vis_cases else ({}, [])
    flagged = {common.case_hash(v.replay.get("case")) for v in violations if "case" in v.replay}
    for j in failing:
        if common.case_hash(metas[j]) in flagged:
            continue
        violations.append(Violation("correspondence", f"integrator program and _propagate ({metas[j]['integ']}) disagree on positions, momenta or the sequence/arguments of "
                                    "gradient / kinetic-gradient / corrector calls", {"case": metas[j], "correspondence": "C01Corr.c01_check", "no_failing_input_found": True}))
    for ck, fl in vfail.items():
        for j in fl:
            violations.append(Violation("correspondence-visual", f"HMC_visual ({vis_meta[j]['visual']}) deviates from the leapfrog program ({ck})",
                                        {"case": vis_meta[j], "no_failing_input_found": True}))
    for k, log in errors + verrors:
        violations.append(Violation("coq-error", "correspondence shard failed: " + log[-300:], {"log": log, "no_failing_input_found": True}))
    return {
        "evaluations": n + dist["visual_runs"] + nrev + dist["time_sum_cases"], "distinct_nontrivial": len(seen),
        "rule": "direct calls of the three real propagators (d<=3, steps<=6/40, step sizes incl. non-dyadic, randomisation on/off, boxes incl. one-sided "
                "and infinite entries, NaN/inf gradients) on scripted oracles; HMC_visual via complete runs; numerical reversal on Normal targets with "
                "Unit/Diagonal/Full masses; time sums with linear targets; non-trivial = steps>=2 and (bounds or randomised step)",
        "samples": samples, "violations": violations,
        "traces_validated_against_impl": n - len(failing) + len(vis_cases),
        "coverage": {"distribution": dist, "correspondence_failures": len(failing), "schedule_static": sched_msg[-300:]},
        "trusted_base": ["AST translator harness/schedule_ast.py (fails closed on unknown statements)",
                         "the tangent program of Proof/Volume.v is the chain-rule derivative by definition",
                         "uniform(0.5,1.5) returns a value in [0.5,1.5] (documented law of the NumPy generator)"],
        "assumptions": ["reversibility theorem covers unbounded targets with any odd kinetic gradient and boxes with coordinate-wise masses under single-bounce drifts; "
                        "Full mass + reflection and multi-bounce overshoot are recorded known findings"],
    }


def replay(doc):
    rp = doc["replay"]
    if "case" in rp and "integ" in rp["case"]:
        c = rp["case"]
        o = run_impl(c)
        failing, errors = common.eval_cases("C01r", HEADER, [coq_case(c, o, sr.source_literals())], "c01_check")
        print("correspondence:", "DISAGREE" if failing or errors else "agree")
        return 1 if failing or errors else 0
    print(rp)
    return 1
