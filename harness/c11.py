"""C11 — existing sample files are never modified without overwrite consent: generated sequences
of sample() calls (valid, and invalid at every validation stage), Samples(mode='w'), copy /
deepcopy / pickle / load_results on real sampler objects in a temp directory; after every
operation the content identity of every file (and NPY sidecar), the exception class and the open
handles are compared with the file-system model (Model/FileSys.v) and with the statement itself."""
import contextlib
import copy
import gc
import hashlib
import io
import os
import pickle
import random
import shutil

import numpy

from . import common
from .common import Violation

HEADER = """From Coq Require Import List Bool ZArith.
From HV Require Import FloatIO FileSys C11Corr.
Import ListNotations.
"""

PATHS = ["a.h5", "b.h5", "c.npy"]        # the files
GIVEN = ["a.h5", "b", "c.npy"]           # the names handed to sample() / Samples(): "b" is completed to "b.h5" by the library

BEFORE = ["proposals_zero", "proposals_float", "thinning_zero", "thinning_not_dividing", "not_a_distribution", "filename_not_str"]
AFTER = ["initial_model_shape", "initial_misfit_inf", "max_time_negative", "stepsize_negative", "stepsize_text",
         "learning_rate", "hmc_steps_zero", "hmc_integrator", "hmc_mass_dims"]


def ident(wd, p):
    out = []
    for f in ([PATHS[p]] + ([PATHS[p] + ".pkl"] if PATHS[p].endswith(".npy") else [])):
        full = os.path.join(wd, f)
        if os.path.exists(full):
            st = os.stat(full)
            out.append((st.st_mtime_ns, st.st_size, hashlib.sha256(open(full, "rb").read()).hexdigest()))
        else:
            out.append(None)
    return tuple(out)


def content_only(idt):
    return tuple(None if x is None else x[2] for x in idt)


def open_handles():
    import h5py
    gc.collect()
    return h5py.h5f.get_obj_count(h5py.h5f.OBJ_ALL, h5py.h5f.OBJ_FILE)


def gen_ops(rnd, tier):
    ops = []
    n = rnd.randint(3, 9 if tier == "quick" else 20)
    for _ in range(n):
        x = rnd.random()
        p = rnd.randrange(3)
        ow = rnd.random() < 0.25
        if x < 0.55:
            y = rnd.random()
            if y < 0.4:
                ops.append(("sample", p, ow, "valid", rnd.choice(["hmc", "rwmh"]), rnd.randrange(3), rnd.random() < 0.3))
            elif y < 0.6:
                ops.append(("sample", p, ow, rnd.choice(BEFORE), rnd.choice(["hmc", "rwmh"]), rnd.randrange(3), rnd.random() < 0.3))
            else:
                k = rnd.choice(["hmc", "rwmh"])
                st = rnd.choice([a for a in AFTER if k == "hmc" or not a.startswith("hmc_")])
                ops.append(("sample", p, ow, st, k, rnd.randrange(3), rnd.random() < 0.3))
        elif x < 0.7:
            ops.append(("openw", p, ow))
        elif x < 0.76:
            # the user (not the library) removes one half of the NPY pair: the other half is still an existing samples file
            ops.append((rnd.choice(["user_removes_sidecar", "user_removes_array"]), 2))
        else:
            ops.append((rnd.choice(["copy", "deepcopy", "pickle", "load_results", "deepcopy", "pickle_roundtrip", "pickle_roundtrip_samples"]), rnd.randrange(3)))
    return ops


def do_sample(wd, sampler, kind, p, ow, stage, diag=False):
    import hmclab
    target = hmclab.Distributions.Normal(numpy.array([[0.5], [-0.25]]), numpy.array([[1.0], [2.0]]))
    fname = os.path.join(wd, GIVEN[p])
    kw = dict(proposals=4, online_thinning=2, overwrite_existing_file=common.spell_bool(ow), disable_progressbar=True,
              initial_model=numpy.zeros((2, 1)))
    if kind == "hmc":
        kw.update(stepsize=0.2, amount_of_steps=2)
    else:
        kw.update(stepsize=0.5)
    if diag:
        kw["diagnostic_mode"] = True         # timing wrappers around every call of the loop (they hold references to the Samples object)
    if stage == "proposals_zero":
        kw["proposals"] = 0
    elif stage == "proposals_float":
        kw["proposals"] = 4.0
    elif stage == "thinning_zero":
        kw["online_thinning"] = 0
    elif stage == "thinning_not_dividing":
        kw["online_thinning"] = 3
    elif stage == "not_a_distribution":
        target = "not a distribution"
    elif stage == "filename_not_str":
        fname = fname.encode()
    elif stage == "initial_model_shape":
        kw["initial_model"] = numpy.zeros((3, 1))
    elif stage == "initial_misfit_inf":
        target = hmclab.Distributions.Normal(numpy.array([[0.5], [-0.25]]), numpy.array([[1.0], [2.0]]),
                                             lower_bounds=numpy.array([[1.0], [1.0]]))
    elif stage == "max_time_negative":
        kw["max_time"] = -1.0
    elif stage == "stepsize_negative":
        kw["stepsize"] = -0.5
    elif stage == "stepsize_text":
        kw["stepsize"] = "fast"
    elif stage == "learning_rate":
        kw.update(autotuning=True, learning_rate=0.2)
    elif stage == "hmc_steps_zero":
        kw["amount_of_steps"] = 0
    elif stage == "hmc_integrator":
        kw["integrator"] = "rk4"
    elif stage == "hmc_mass_dims":
        kw["mass_matrix"] = hmclab.MassMatrices.Unit(3)
    try:
        out = sampler.sample(fname, target, **kw)
        return 0 if out is not None else 1
    except FileExistsError:
        return 1
    except Exception:
        return 2


def run_impl(ops, wd):
    import hmclab
    samplers = [None, None, None]
    kinds = [None, None, None]
    obs = []
    leaks = []
    for op in ops:
        before = [ident(wd, p) for p in range(3)]
        code = 0
        with contextlib.redirect_stdout(io.StringIO()), contextlib.redirect_stderr(io.StringIO()), numpy.errstate(all="ignore"):
            if op[0] == "sample":
                _, p, ow, stage, kind, slot = op[:6]
                if samplers[slot] is None or kinds[slot] != kind:
                    samplers[slot] = (hmclab.Samplers.HMC if kind == "hmc" else hmclab.Samplers.RWMH)(seed=slot + 1)
                    kinds[slot] = kind
                code = do_sample(wd, samplers[slot], kind, p, ow, stage, diag=(len(op) > 6 and op[6]))
            elif op[0] == "openw":
                _, p, ow = op
                try:
                    s = hmclab.Samples(os.path.join(wd, GIVEN[p]), mode="w", overwrite=common.spell_bool(ow))
                    s.close()
                    del s
                except FileExistsError:
                    code = 1
                except Exception:
                    code = 2
            elif op[0].startswith("user_removes"):
                victim = os.path.join(wd, PATHS[2] + (".pkl" if op[0] == "user_removes_sidecar" else ""))
                other = os.path.join(wd, PATHS[2] + ("" if op[0] == "user_removes_sidecar" else ".pkl"))
                if os.path.exists(victim) and os.path.exists(other):
                    os.remove(victim)
                before = [ident(wd, p) for p in range(3)]          # not an operation of the library: nothing to observe
            else:
                s = samplers[op[1]]
                if s is not None:
                    try:
                        if op[0] == "copy":
                            c = copy.copy(s)
                            del c
                        elif op[0] == "deepcopy":
                            c = copy.deepcopy(s)
                            del c
                        elif op[0] == "pickle":
                            pickle.dumps(s)
                        elif op[0].startswith("pickle_roundtrip"):
                            # the pickler hmclab itself ships samplers to its worker processes with (multiprocess -> dill); plain
                            # pickle when that is not importable.  Serialise, load, drop the copy.
                            try:
                                import dill as pk
                            except ImportError:  # pragma: no cover
                                pk = pickle
                            obj = s if op[0] == "pickle_roundtrip" else getattr(s, "samples", None)
                            if obj is not None:
                                c = pk.loads(pk.dumps(obj))
                                del c
                        else:
                            s.load_results()
                    except Exception:
                        pass
        numpy.seterr(all="warn")
        gc.collect()
        after = [ident(wd, p) for p in range(3)]
        obs.append((code, [before[p] != after[p] for p in range(3)], before, after))
        leaks.append(open_handles())
    return obs, leaks, samplers, kinds


def parallel_consent_case(rnd, k):
    """The parallel controller's sample() is a sample() too: without overwrite consent it leaves existing chain files (named with or
    without their extension, HDF5 or NPY) exactly as they are, whatever it does instead (it refuses)."""
    import hmclab
    wd = common.tmpdir("c11p_")
    out = []
    try:
        target = hmclab.Distributions.Normal(numpy.array([[0.5], [-0.25]]), numpy.array([[1.0], [2.0]]))
        forms = [("p0.h5", "p0.h5"), ("p1", "p1.h5"), ("p2.npy", "p2.npy"), ("p3", "p3.h5")]
        chosen = [[forms[0], forms[1]], [forms[1], forms[3]], [forms[2], forms[3]], [forms[3], forms[1]], [forms[0], forms[2]], [forms[1], forms[2]]][k % 6]
        with contextlib.redirect_stdout(io.StringIO()), contextlib.redirect_stderr(io.StringIO()), numpy.errstate(all="ignore"):
            for given, real in chosen:       # the files of an earlier study
                hmclab.Samplers.RWMH(seed=3).sample(os.path.join(wd, given), target, proposals=4, stepsize=0.5, disable_progressbar=True)
        ident2 = lambda real: tuple((os.stat(f).st_size, hashlib.sha256(open(f, "rb").read()).hexdigest()) if os.path.exists(f) else None
                                    for f in ([os.path.join(wd, real)] + ([os.path.join(wd, real) + ".pkl"] if real.endswith(".npy") else [])))
        before = [ident2(real) for _, real in chosen]
        raised = None
        with contextlib.redirect_stdout(io.StringIO()), contextlib.redirect_stderr(io.StringIO()), numpy.errstate(all="ignore"):
            try:
                ctrl = hmclab.Samplers.ParallelSampleSMP(seed=1)
                kw = {} if k % 2 == 0 else {"overwrite_existing_files": False}
                ctrl.sample([hmclab.Samplers.RWMH(seed=5), hmclab.Samplers.RWMH(seed=6)], [os.path.join(wd, g) for g, _ in chosen], [target, target],
                            proposals=4, exchange=bool(k % 3 == 0), kwargs={"stepsize": 0.5, "disable_progressbar": True}, **kw)
            except BaseException as e:  # noqa
                raised = e
        numpy.seterr(all="warn")
        after = [ident2(real) for _, real in chosen]
        for (given, real), b, a in zip(chosen, before, after):
            if a != b:
                out.append(("modified-by-parallel-sample", f"ParallelSampleSMP.sample without overwrite consent on existing chain files {[g for g, _ in chosen]}: {real} was "
                            f"{'deleted' if all(x is None for x in a) else 'modified'} ({'no exception' if raised is None else type(raised).__name__})"))
                break
    finally:
        shutil.rmtree(wd, ignore_errors=True)
    return out


def spec_oracle(ops, obs, leaks, wd, samplers, kinds):
    out = []
    for k, (op, (code, changed, before, after)) in enumerate(zip(ops, obs)):
        consent = op[0] in ("sample", "openw") and op[2]
        for p in range(3):
            existed = any(x is not None for x in before[p])
            if existed and changed[p] and not (consent and op[1] == p):
                what = "deleted" if all(x is None for x in after[p]) else "modified"
                out.append((f"modified-by-{op[0]}", f"op {k} {op}: existing file {PATHS[p]} was {what} without overwrite consent"))
        if op[0] in ("sample", "openw") and not op[2]:
            p = op[1]
            existed = any(x is not None for x in before[p])
            valid_enough = op[0] == "openw" or op[3] not in BEFORE
            if existed and valid_enough and code != 1:
                out.append(("no-file-exists-error", f"op {k} {op}: writing to existing {PATHS[p]} without consent gave result {code} instead of FileExistsError"))
        if leaks[k] != 0:
            out.append(("handle-leak", f"op {k} {op}: {leaks[k]} HDF5 file handle(s) left open"))
    # a following valid run on every path succeeds (consent given exactly when the path exists by then)
    import hmclab
    for p in range(3):
        exists = any(x is not None for x in ident(wd, p))
        with contextlib.redirect_stdout(io.StringIO()), numpy.errstate(all="ignore"):
            smp = hmclab.Samplers.RWMH(seed=9)
            code = do_sample(wd, smp, "rwmh", p, exists, "valid")
        numpy.seterr(all="warn")
        if code != 0:
            out.append(("following-run-fails", f"after ops {ops}: a valid run on {PATHS[p]} (overwrite={exists}) did not succeed (result {code})"))
    return out[:4]


def coq_case(ops, obs):
    def enc(op):
        if op[0] == "sample":
            st = "Valid" if op[3] == "valid" else ("FailBeforeOpen" if op[3] in BEFORE else "FailAfterOpen")
            return f"Sample {op[1]} {str(op[2]).lower()} {st}"
        if op[0] == "openw":
            return f"OpenW {op[1]} {str(op[2]).lower()}"
        if op[0].startswith("user_removes"):
            return "CopyObj"            # the path still holds (half of) a samples file: no change of the model state, nothing observed
        return {"copy": "CopyObj", "deepcopy": "DeepCopyObj", "pickle": "PickleObj", "load_results": "LoadResults",
                "pickle_roundtrip": "PickleObj", "pickle_roundtrip_samples": "PickleObj"}[op[0]]
    o = "[" + "; ".join("(%d, [%s])" % (code, "; ".join(str(b).lower() for b in ch)) for code, ch, _, _ in obs) + "]"
    return "{| f_ops := [%s]; f_obs := %s |}" % ("; ".join(enc(x) for x in ops), o)


def run(tier, seed):
    rnd = random.Random(seed * 7919 + 11)
    pre_violations = []
    for k in range(6 if tier == "quick" else 30):
        for key, what in parallel_consent_case(rnd, k):
            pre_violations.append(Violation(key, what, {"parallel_consent_case": k}))
    n = 45 if tier == "quick" else 600
    violations, samples, seen, coq, metas = list(pre_violations), [], set(), [], []
    dist = {"ops": 0, "sample_valid": 0, "sample_fail_before": 0, "sample_fail_after": 0, "openw": 0, "object_ops": 0,
            "on_existing_path": 0, "refused": 0}
    stage_seen = set()
    for i in range(n):
        wd = common.tmpdir("c11_")
        try:
            ops = gen_ops(rnd, tier)
            if i < len(AFTER) + len(BEFORE):      # every validation stage in turn, on an existing path, without consent
                st = (AFTER + BEFORE)[i]
                k = "hmc" if st.startswith("hmc_") else rnd.choice(["hmc", "rwmh"])
                dg = i % 2 == 1         # every other stage with diagnostic mode on
                ops = [("sample", i % 3, False, "valid", k, 0, dg), ("sample", i % 3, False, st, k, 0, dg),
                       ("deepcopy", 0), ("sample", (i + 1) % 3, False, st, k, 1, dg)] + ops[:3]
            elif i < len(AFTER) + len(BEFORE) + 2:   # a pickle round trip of a sampler (and of its Samples object) that owns a file, each back end
                j = i - len(AFTER) - len(BEFORE)
                k = rnd.choice(["hmc", "rwmh"])
                pth = [2, 0][j]
                ops = [("sample", pth, False, "valid", k, 0), ("pickle_roundtrip", 0), ("pickle_roundtrip_samples", 0), ("sample", pth, False, "valid", k, 0)] + ops[:3]
            elif i < len(AFTER) + len(BEFORE) + 6:   # half an NPY pair is still an existing samples file: both halves, both writers
                j = i - len(AFTER) - len(BEFORE) - 2
                k = rnd.choice(["hmc", "rwmh"])
                rm = ("user_removes_sidecar", 2) if j % 2 == 0 else ("user_removes_array", 2)
                wr = ("sample", 2, False, "valid", k, 1) if j < 2 else ("openw", 2, False)
                ops = [("sample", 2, False, "valid", k, 0), rm, wr, ("sample", 2, False, "valid", k, 0)] + ops[:3]
            obs, leaks, samplers, kinds = run_impl(ops, wd)
            for key, what in spec_oracle(ops, obs, leaks, wd, samplers, kinds):
                violations.append(Violation(key, what, {"ops": ops}))
            coq.append(coq_case(ops, obs))
            metas.append(ops)
            for op, (code, ch, before, after) in zip(ops, obs):
                dist["ops"] += 1
                if op[0] == "sample":
                    dist["sample_valid" if op[3] == "valid" else ("sample_fail_before" if op[3] in BEFORE else "sample_fail_after")] += 1
                    stage_seen.add(op[3])
                    if any(x is not None for x in before[op[1]]):
                        dist["on_existing_path"] += 1
                        seen.add(common.case_hash([ops, op]))
                elif op[0] == "openw":
                    dist["openw"] += 1
                else:
                    dist["object_ops"] += 1
                dist["refused"] += int(code == 1)
            if i < 2:
                samples.append({"ops": ops, "results": [(c, ch) for c, ch, _, _ in obs]})
        finally:
            shutil.rmtree(wd, ignore_errors=True)
    failing, errors = common.eval_cases("C11", HEADER, coq, "c11_check", shard=40)
    flagged = {common.case_hash(v.replay.get("ops")) for v in violations}
    for j in failing:
        if common.case_hash(metas[j]) in flagged:
            continue
        violations.append(Violation("correspondence", "file-system model and implementation disagree on which files an operation changed "
                                    "or on its result class", {"ops": metas[j], "correspondence": "C11Corr.c11_check", "no_failing_input_found": True}))
    for k, log in errors:
        violations.append(Violation("coq-error", "correspondence shard failed: " + log[-300:], {"log": log, "no_failing_input_found": True}))
    return {
        "evaluations": dist["ops"], "distinct_nontrivial": len(seen),
        "rule": "seeded operation sequences on real samplers in a temp dir over two HDF5 paths and one NPY path (+ .pkl sidecar): sample() valid / "
                f"failing at {len(BEFORE)} pre-open and {len(AFTER)} post-open validation stages (each stage forced once on an existing path), "
                "Samples(mode='w'), copy, deepcopy, pickle, load_results, and the user removing one half of the NPY pair (array or sidecar); non-trivial = sample() on a path that already exists",
        "samples": samples, "violations": violations,
        "traces_validated_against_impl": len(coq) - len(failing),
        "coverage": {"distribution": dist, "validation_stages_exercised": sorted(stage_seen), "correspondence_failures": len(failing)},
        "trusted_base": ["file identity = (mtime_ns, size, sha256) of the file and its NPY sidecar; open handles = h5py.h5f.get_obj_count"],
    }


def replay(doc):
    ops = [tuple(o) for o in doc["replay"]["ops"]]
    wd = common.tmpdir("c11r_")
    try:
        obs, leaks, samplers, kinds = run_impl(ops, wd)
        probs = spec_oracle(ops, obs, leaks, wd, samplers, kinds)
    finally:
        shutil.rmtree(wd, ignore_errors=True)
    print("spec oracle:", probs or "ok")
    return 1 if probs else 0
