"""C14 — normalised misfits and generate(): (a) misfit after normalize() must lie in the interval
enclosure of the textbook negative log density (constant computed in Coq from its formula, determinant
passed as an exact rational); (b) generate(repeat, rng) with a recording generator must request exactly
the draws the push-forward theorems are about, from the generator it was given, and return their
affine / exponential image with shape (dimensions, repeat); (c) moment tests of large batches (search)."""
import math
import random
from fractions import Fraction

import numpy

from . import common, distgen
from .common import Violation, col
from .distgen import q, ql, qm, goal


class RecRng:
    """Forwards to a seeded numpy Generator and records (method, kwargs, result)."""

    def __init__(self, seed):
        self._g = numpy.random.default_rng(seed)
        self.calls = []

    def _rec(self, name, *a, **k):
        out = getattr(self._g, name)(*a, **k)
        self.calls.append((name, a, k, numpy.array(out, copy=True)))
        return out

    def normal(self, *a, **k):
        return self._rec("normal", *a, **k)

    def laplace(self, *a, **k):
        return self._rec("laplace", *a, **k)

    def uniform(self, *a, **k):
        return self._rec("uniform", *a, **k)

    def choice(self, *a, **k):
        return self._rec("choice", *a, **k)

    def random(self, *a, **k):
        return self._rec("random", *a, **k)

    def standard_normal(self, *a, **k):
        return self._rec("standard_normal", *a, **k)

    def __getattr__(self, name):
        # any other method of the generator: forwarded and recorded under its own name
        if name.startswith("_"):
            raise AttributeError(name)
        return lambda *a, **k: self._rec(name, *a, **k)


def det_fraction(m):
    m = [[Fraction(float(v)) for v in row] for row in m]
    n = len(m)
    det = Fraction(1)
    for i in range(n):
        p = next((r for r in range(i, n) if m[r][i] != 0), None)
        if p is None:
            return Fraction(0)
        if p != i:
            m[i], m[p] = m[p], m[i]
            det = -det
        det *= m[i][i]
        for r in range(i + 1, n):
            f = m[r][i] / m[i][i]
            for c in range(i, n):
                m[r][c] -= f * m[i][c]
    return det


def qf(fr):
    return f"(({fr.numerator}) / {fr.denominator})" if fr.numerator < 0 else f"({fr.numerator} / {fr.denominator})"


def prelude(rnd, obj, xa):
    """operations on the object before normalize() that must not change what normalize() does"""
    pre = rnd.choice(["none", "none", "generate", "evaluate", "generate+evaluate", "normalize_twice"])
    with numpy.errstate(all="ignore"):
        if "generate" in pre:
            obj.generate(rnd.choice([1, 3]), rng=numpy.random.default_rng(rnd.randrange(1000)))
        if "evaluate" in pre:
            obj.misfit(xa.copy())
            obj.gradient(xa.copy())
        if pre == "normalize_twice":
            obj.normalize()
    return pre


def pdf_case(rnd, D):
    d = rnd.choice([1, 2, 3])
    kind = rnd.choice(["normal_scalar", "normal_vec", "normal_full", "laplace"])
    mu = [distgen.dy(rnd) for _ in range(d)]
    x = [distgen.dy(rnd, -4, 4) for _ in range(d)]
    xa, mua = distgen.col(x), distgen.col(mu)
    if kind == "laplace":
        b = [distgen.pos(rnd) for _ in range(d)]
        x = [v if abs(v - m) > 1e-6 else v + 0.125 for v, m in zip(x, mu)]
        xa = distgen.col(x)
        obj = D.Laplace(mua, distgen.col(b))
        pre = prelude(rnd, obj, xa)
        obj.normalize()
        term = f"misfit (laplace {ql(mu)} (map Rinv {ql(b)}) (laplace_const {ql(b)})) {ql(x)}"
        want = sum(math.log(2 * bi) + abs(xi - mi) / bi for bi, xi, mi in zip(b, x, mu))
        desc = f"Laplace(mu={mu}, b={b})"
    elif kind == "normal_full" and d > 1:
        a = numpy.array([[distgen.dy(rnd, -1, 1) for _ in range(d)] for _ in range(d)])
        cov = a @ a.T + numpy.diag([distgen.pos(rnd) for _ in range(d)])
        obj = D.Normal(mua, cov.copy())
        pre = prelude(rnd, obj, xa)
        obj.normalize()
        P = numpy.asarray(obj.inverse_covariance)
        det = det_fraction(cov.tolist())
        term = f"misfit (DQuad {ql(mu)} {qm(P.tolist())} (/ 2 * (ln {qf(det)} + {d} * ln (2 * PI)))) {ql(x)}"
        r = numpy.array(x) - numpy.array(mu)
        want = 0.5 * float(r @ numpy.linalg.solve(cov, r)) + 0.5 * (math.log(float(det)) + d * math.log(2 * math.pi))
        desc = f"Normal(mu={mu}, full cov={cov.tolist()})"
    else:
        if kind == "normal_scalar":
            s = distgen.pos(rnd)
            v = [s] * d
            obj = D.Normal(mua, float(s))
        else:
            v = [distgen.pos(rnd) for _ in range(d)]
            obj = D.Normal(mua, distgen.col(v))
        pre = prelude(rnd, obj, xa)
        obj.normalize()
        term = f"misfit (normal_diag {ql(mu)} (map Rinv {ql(v)}) (normal_const {ql(v)})) {ql(x)}"
        want = sum(0.5 * math.log(2 * math.pi * vi) + (xi - mi) ** 2 / (2 * vi) for vi, xi, mi in zip(v, x, mu))
        desc = f"Normal(mu={mu}, var={v}, {kind})"
    got = float(obj.misfit(xa))
    if pre != "none":
        desc += f" after {pre}"
    probs = []
    if not (abs(got - want) <= 1e-9 * max(1.0, abs(want))):
        probs.append((f"not-neg-log-pdf-{type(obj).__name__}", f"{desc}: normalised misfit at {x} is {got}, -log(textbook density) is {want}"))
    return desc, x, got, goal(term, got), probs


def zdraw(call):
    """the standard normal array behind a recorded generator call (normal(0, 1, ...) or standard_normal(...)), else None"""
    name, a, kw, res = call
    if name == "standard_normal":
        return numpy.asarray(res, dtype=float)
    if name == "normal":
        loc = kw.get("loc", a[0] if len(a) > 0 else 0.0)
        scale = kw.get("scale", a[1] if len(a) > 1 else 1.0)
        if numpy.all(numpy.asarray(loc, dtype=float) == 0.0) and numpy.all(numpy.asarray(scale, dtype=float) == 1.0):
            return numpy.asarray(res, dtype=float)
    return None


def laplace_image(call, mu, b, d):
    """the Laplace(mu, b) sample a recorded laplace(...) call stands for: drawn directly, or shifted / scaled afterwards"""
    name, a, kw, res = call
    if name != "laplace":
        return None
    loc = numpy.asarray(kw.get("loc", a[0] if len(a) > 0 else 0.0), dtype=float)
    scale = numpy.asarray(kw.get("scale", a[1] if len(a) > 1 else 1.0), dtype=float)
    res = numpy.asarray(res, dtype=float).reshape(d, -1)
    col_ = lambda v: v.reshape(-1, 1) if v.size > 1 else v
    loc_is_mu, loc_is_0 = numpy.array_equal(col_(loc) * numpy.ones((d, 1)), mu), numpy.all(loc == 0.0)
    sc_is_b, sc_is_1 = numpy.array_equal(col_(scale) * numpy.ones((d, 1)), b), numpy.all(scale == 1.0)
    if loc_is_mu and sc_is_b:
        return res
    if loc_is_0 and sc_is_b:
        return mu + res
    if loc_is_0 and sc_is_1:
        return mu + b * res
    return None


def generate_case(rnd, D, k):
    """generate(repeat, rng) must draw from the rng it is given and return the push-forward image."""
    d = rnd.choice([1, 2, 3])
    repeat = rnd.choice([1, 2, 5])
    kind = rnd.choice(["std1d", "normal_scalar", "normal_vec", "normal_full", "laplace", "uniform", "composite", "mixture", "logspace"])
    mu = distgen.col([distgen.dy(rnd) for _ in range(d)])
    rng = RecRng(1000 + k)
    out = []
    want = None
    if kind == "std1d":
        obj, d = D.StandardNormal1D(), 1
        s = obj.generate(repeat, rng=rng)
        want = zdraw(rng.calls[0]) if rng.calls else None
        if want is None and rng.calls and rng.calls[0][0] == "normal":
            want = rng.calls[0][3]
    elif kind in ("normal_scalar", "normal_vec"):
        v = distgen.pos(rnd) if kind == "normal_scalar" else distgen.col([distgen.pos(rnd) for _ in range(d)])
        obj = D.Normal(mu.copy(), v if kind == "normal_scalar" else v.copy())
        s = obj.generate(repeat, rng=rng)
        if rng.calls and zdraw(rng.calls[0]) is not None:
            want = zdraw(rng.calls[0]) * numpy.sqrt(v) + mu
    elif kind == "normal_full":
        a = numpy.array([[distgen.dy(rnd, -1, 1) for _ in range(d)] for _ in range(d)])
        cov = a @ a.T + numpy.diag([distgen.pos(rnd) for _ in range(d)])
        obj = D.Normal(mu.copy(), cov.copy())
        s = obj.generate(repeat, rng=rng)
        if rng.calls and zdraw(rng.calls[0]) is not None:
            want = numpy.linalg.cholesky(cov) @ zdraw(rng.calls[0]) + mu
    elif kind == "laplace":
        b = distgen.col([distgen.pos(rnd) for _ in range(d)])
        obj = D.Laplace(mu.copy(), b.copy())
        s = obj.generate(repeat, rng=rng)
        if rng.calls and rng.calls[0][0] == "laplace":
            want = laplace_image(rng.calls[0], mu, b, d)
    elif kind == "uniform":
        lo = distgen.col([distgen.dy(rnd, -4, -1) for _ in range(d)])
        hi = distgen.col([distgen.dy(rnd, 1, 4) for _ in range(d)])
        obj = D.Uniform(lo.copy(), hi.copy())
        if rnd.random() < 0.4:
            # the box is replaced after construction: samples must follow the box that misfit() now describes
            lo = distgen.col([distgen.dy(rnd, -6, -2) for _ in range(d)])
            hi = distgen.col([distgen.dy(rnd, 2, 7) for _ in range(d)])
            obj.update_bounds(lo.copy(), hi.copy())
        s = obj.generate(repeat, rng=rng)
        if rng.calls and rng.calls[0][0] == "uniform":
            a = rng.calls[0][1]
            if not (numpy.array_equal(numpy.asarray(a[0]), lo) and numpy.array_equal(numpy.asarray(a[1]), hi)):
                out.append(("generate-parameters", f"Uniform.generate draws uniform({a[0]}, {a[1]}) for bounds {col(lo)}, {col(hi)}"))
            want = rng.calls[0][3]
        elif rng.calls and rng.calls[0][0] == "random":
            want = lo + (hi - lo) * numpy.asarray(rng.calls[0][3]).reshape(d, -1)      # the same law from unit uniforms
        if want is not None:
            sa = numpy.asarray(s, dtype=float)
            if sa.shape == (d, repeat) and ((sa < lo - 1e-12).any() or (sa > hi + 1e-12).any()):
                out.append(("generate-outside-support-uniform", f"Uniform with bounds {col(lo)}, {col(hi)} (after update_bounds where applicable) generated {sa.T.tolist()}"))
    elif kind == "composite":
        # blocks of every dimensionality in every order (a multi-dimensional block first, in the middle, last)
        dims = rnd.choice([[1, 1, 1], [3, 1, 2], [2, 1], [1, 2], [2, 2, 1], [1, 3, 1], [2, 3]])
        parts, images = [], []
        for nd in dims:
            pk = rnd.choice(["normal", "laplace", "uniform"])
            pm = distgen.col([distgen.dy(rnd) for _ in range(nd)])
            if pk == "normal":
                pv = distgen.col([distgen.pos(rnd) for _ in range(nd)])
                parts.append(D.Normal(pm.copy(), pv.copy()))
                images.append(lambda c, pm=pm, pv=pv, nd=nd: (zdraw(c).reshape(nd, -1) * numpy.sqrt(pv) + pm) if zdraw(c) is not None else None)
            elif pk == "laplace":
                pb = distgen.col([distgen.pos(rnd) for _ in range(nd)])
                parts.append(D.Laplace(pm.copy(), pb.copy()))
                images.append(lambda c, pm=pm, pb=pb, nd=nd: laplace_image(c, pm, pb, nd) if c[0] == "laplace" else None)
            else:
                plo, phi = pm - 1.0, pm + 2.0
                parts.append(D.Uniform(plo.copy(), phi.copy()))
                images.append(lambda c, plo=plo, phi=phi, nd=nd: (numpy.asarray(c[3]).reshape(nd, -1) if c[0] == "uniform"
                                                                   else (plo + (phi - plo) * numpy.asarray(c[3]).reshape(nd, -1)) if c[0] == "random" else None))
        obj, d = D.CompositeDistribution(parts), sum(dims)
        s = obj.generate(repeat, rng=rng)
        if len(rng.calls) == len(parts):
            blocks = [im(c) for im, c in zip(images, rng.calls)]
            if all(b is not None for b in blocks):
                want = numpy.vstack(blocks)
    elif kind == "mixture":
        weights = rnd.choice([[0.25, 0.75], [0.0, 0.25, 0.75], [0.2, 0.3, 0.5], [0.5, 0.0, 0.5], [0.02, 0.9, 0.08]])
        repeat = rnd.choice([1, 2, 5, 12])
        parts = [D.Normal(distgen.col([distgen.dy(rnd, -4, 4) + 16 * i for _ in range(d)]), distgen.col([distgen.pos(rnd) for _ in range(d)])) for i in range(len(weights))]
        obj = D.Mixture(parts, list(weights))
        s = obj.generate(repeat, rng=rng)
        want = "any"
        # every returned column is the image, under the component the generator's choice picked, of a standard normal
        # column the generator produced; the number of columns per component is the number of times it was picked
        picks = [c for c in rng.calls if c[0] == "choice"]
        zcols = [zdraw(c).reshape(d, -1)[:, j] for c in rng.calls if zdraw(c) is not None for j in range(zdraw(c).reshape(d, -1).shape[1])]
        sa = numpy.asarray(s, dtype=float)
        if picks and zcols and sa.shape == (d, repeat):
            idx = [int(v) for v in numpy.asarray(picks[0][3]).flatten()]
            got = [0] * len(weights)
            unexplained = 0
            for j in range(repeat):
                owner = None
                for ci, pt in enumerate(parts):
                    mean, sd = numpy.asarray(pt.means, dtype=float).flatten(), numpy.sqrt(numpy.asarray(pt.covariance, dtype=float).flatten())
                    if any(numpy.allclose(sa[:, j], mean + sd * z, rtol=1e-12, atol=1e-12) for z in zcols):
                        owner = ci
                        break
                if owner is None:
                    unexplained += 1
                else:
                    got[owner] += 1
            wantc = [idx.count(ci) for ci in range(len(weights))]
            if unexplained or got != wantc:
                out.append(("generate-not-pushforward-mixture", f"Mixture(weights {weights}).generate({repeat}): the generator picked components {idx} (counts {wantc}), "
                            f"the returned columns come from components with counts {got} ({unexplained} columns from no component)"))
        if not rng.calls:
            out.append(("rng-ignored-Mixture", "Mixture.generate(rng=...) does not draw from the generator it is given"))
    else:
        inner = D.Normal(mu.copy(), distgen.col([distgen.pos(rnd) for _ in range(d)]))
        base = rnd.choice([10.0, 2.0, 3.0])
        obj = D.TransformToLogSpace(inner, base=base)
        s = obj.generate(repeat, rng)
        if rng.calls and zdraw(rng.calls[0]) is not None:
            want = numpy.power(base, zdraw(rng.calls[0]) * numpy.sqrt(inner.covariance) + inner.means)
    s = numpy.asarray(s)
    if s.shape != (d, repeat):
        out.append((f"generate-shape-{kind}", f"{type(obj).__name__}.generate({repeat}) has shape {s.shape}, expected {(d, repeat)}"))
    if want is None and not out:
        if not rng.calls:
            out.append((f"rng-ignored-{type(obj).__name__}-{kind}", f"{type(obj).__name__}.generate(rng=<generator>) did not request its draws from that generator"))
        else:
            # the generator was used, but through primitives the tie has no image formula for: a broken tie, not a shown violation
            out.append((f"generate-form-not-modelled-{kind}", f"{type(obj).__name__}.generate draws with {[c[0] for c in rng.calls]}; the correspondence knows no image formula for that"))
    elif want is not None and not isinstance(want, str) and s.shape == numpy.asarray(want).shape and not numpy.allclose(s, want, rtol=1e-12, atol=1e-12):
        out.append((f"generate-not-pushforward-{kind}", f"{type(obj).__name__}.generate is not the documented image of the generator's draws"))
    # deterministic function of the generator
    if not out:
        r2 = RecRng(1000 + k)
        s2 = numpy.asarray(obj.generate(repeat, rng=r2) if kind != "logspace" else obj.generate(repeat, r2))
        if not numpy.array_equal(s, s2):
            out.append((f"generate-not-deterministic-{kind}", f"{type(obj).__name__}.generate with two identically seeded generators differs"))
    return kind, out


def mixture_tie_case(rnd, D, k):
    """Mixtures whose leading terms tie exactly (a component listed twice with equal weight; a symmetric pair seen from the midpoint):
    the density is still the weighted sum of ALL component densities."""
    d = rnd.choice([1, 2])
    va = distgen.col([rnd.choice([0.25, 0.5, 1.0]) for _ in range(d)])
    mua = distgen.col([distgen.dy(rnd, -2, 2) for _ in range(d)])
    npdf = lambda x, mu, v: float(numpy.exp(-0.5 * numpy.sum((x - mu) ** 2 / v) - 0.5 * numpy.sum(numpy.log(2 * numpy.pi * v))))
    if k % 2 == 0:
        mub = mua + distgen.col([rnd.choice([1.5, -2.0, 3.0]) for _ in range(d)])
        vb = distgen.col([rnd.choice([0.25, 0.5, 1.0]) for _ in range(d)])
        w = rnd.choice([[0.3, 0.3, 0.4], [0.25, 0.25, 0.5], [0.4, 0.4, 0.2]])
        comps = [(mua, va), (mua, va), (mub, vb)]
        pts = [mua + distgen.col([distgen.dy(rnd, -1, 1) for _ in range(d)]) for _ in range(3)]
        desc = f"Mixture of A, A, B with weights {w}"
    else:
        off = distgen.col([rnd.choice([0.5, 1.0, 2.0]) for _ in range(d)])
        w = [0.5, 0.5]
        comps = [(mua - off, va), (mua + off, va)]
        pts = [mua.copy(), mua + distgen.col([0.0] * (d - 1) + [0.0])]
        desc = f"symmetric Mixture with means mu -/+ {off.flatten().tolist()} seen from the midpoint"
    obj = D.Mixture([D.Normal(m.copy(), v.copy()) for m, v in comps], list(w))
    out = []
    for x in pts:
        want = -math.log(sum(wi * npdf(x, m, v) for wi, (m, v) in zip(w, comps)))
        got = float(obj.misfit(x.copy()))
        if not (abs(got - want) <= 1e-9 * max(1.0, abs(want))):
            out.append(("mixture-density-tie", f"{desc}: misfit at {x.flatten().tolist()} is {got}, -log of the weighted sum of the component densities is {want}"))
            break
    return out


def highdim_case(rnd, D, k):
    """Many dimensions and parameter values far from one: products of a hundred factors leave the range of binary64, sums of
    their logarithms do not.  misfit at the columns generate() itself produces must be the closed-form -log density."""
    d = rnd.choice([60, 100, 150]) if k % 10 < 5 else rnd.choice([1, 2, 3])        # every kind in many and in few dimensions
    kind = ["logspace", "normal_vec", "laplace", "normal_full", "normal_scalar"][k % 5]
    out = []
    rng = numpy.random.default_rng(500 + k)
    scale = rnd.choice([3.5, -3.5, 0.0])
    mu = distgen.col([scale + distgen.dy(rnd, -1, 1) for _ in range(d)])
    if kind == "logspace":
        var = distgen.col([rnd.choice([0.01, 0.04, 0.25]) for _ in range(d)])
        inner = D.Normal(mu.copy(), var.copy())
        base = rnd.choice([10.0, math.e, 2.0, 3.0, 1.5, 7.0, 16.0])      # the usual three and others
        obj = D.TransformToLogSpace(inner, base=base)
        s = numpy.asarray(obj.generate(4, rng), dtype=float)
        ref = lambda m: float(inner.misfit(numpy.log(m) / math.log(base))) + float(numpy.sum(numpy.log(m) + math.log(math.log(base))))
        desc = f"TransformToLogSpace(Normal, base={base}) in {d} dimensions, values around {base}^{scale}"
    elif kind == "normal_vec":
        var = distgen.col([rnd.choice([1e-6, 4e-6, 1e-4]) if scale else rnd.choice([1e6, 4e6]) for _ in range(d)])
        obj = D.Normal(mu.copy(), var.copy())
        obj.normalize()
        s = numpy.asarray(obj.generate(4, rng=rng), dtype=float)
        ref = lambda m: float(numpy.sum(0.5 * numpy.log(2 * numpy.pi * var) + (m - mu) ** 2 / (2 * var)))
        desc = f"normalised Normal in {d} dimensions, variances around {float(var[0, 0])}"
    elif kind == "normal_scalar":
        v = rnd.choice([1e-6, 1e-4]) if scale else rnd.choice([1e6, 4e6])
        obj = D.Normal(mu.copy(), v)
        obj.normalize()
        s = numpy.asarray(obj.generate(4, rng=rng), dtype=float)
        ref = lambda m: float(d * 0.5 * math.log(2 * math.pi * v) + numpy.sum((m - mu) ** 2) / (2 * v))
        desc = f"normalised Normal in {d} dimensions, one variance {v} for all"
    elif kind == "normal_full":
        v = rnd.choice([1e-6, 1e-4]) if scale else rnd.choice([1e6, 4e6])
        a = numpy.array([[rnd.randint(-4, 4) / 8.0 for _ in range(3)] for _ in range(d)])
        cov = v * (numpy.eye(d) + 0.5 * a @ a.T)
        obj = D.Normal(mu.copy(), cov.copy())
        obj.normalize()
        s = numpy.asarray(obj.generate(4, rng=rng), dtype=float)
        ev = numpy.linalg.eigvalsh(cov)
        ref = lambda m: float(0.5 * numpy.sum(numpy.log(2 * numpy.pi * ev)) + 0.5 * ((m - mu).T @ numpy.linalg.solve(cov, m - mu)).item())
        desc = f"normalised Normal in {d} dimensions, full covariance of scale {v}"
    else:
        b = distgen.col([rnd.choice([1e-4, 2e-4]) if scale else rnd.choice([1e4, 3e4]) for _ in range(d)])
        obj = D.Laplace(mu.copy(), b.copy())
        obj.normalize()
        s = numpy.asarray(obj.generate(4, rng=rng), dtype=float)
        ref = lambda m: float(numpy.sum(numpy.log(2 * b) + numpy.abs(m - mu) / b))
        desc = f"normalised Laplace in {d} dimensions, dispersions around {float(b[0, 0])}"
    if s.shape != (d, 4):
        return [(f"generate-shape-highdim-{kind}", f"{desc}: generate(4) has shape {s.shape}")]
    for j in range(4):
        m = s[:, j:j + 1]
        with numpy.errstate(all="ignore"):
            got, want = float(obj.misfit(m.copy())), ref(m)
        if not (math.isfinite(got) and abs(got - want) <= 1e-9 * max(1.0, abs(want))):
            out.append((f"highdim-misfit-{kind}", f"{desc}: misfit at a column generate() produced is {got}, -log density is {want}"))
            break
    return out


def moment_case(rnd, D, k):
    """large i.i.d. batch: mean and variance against the density's analytic moments (threshold 7 sigma)."""
    n = 40000
    kind = rnd.choice(["normal_vec", "laplace", "uniform"])
    d = 2
    mu = distgen.col([distgen.dy(rnd) for _ in range(d)])
    if kind == "normal_vec":
        v = distgen.col([distgen.pos(rnd) for _ in range(d)])
        obj, mean, var, m4 = D.Normal(mu.copy(), v.copy()), mu, v, 3 * v ** 2
    elif kind == "laplace":
        b = distgen.col([distgen.pos(rnd) for _ in range(d)])
        obj, mean, var, m4 = D.Laplace(mu.copy(), b.copy()), mu, 2 * b ** 2, 24 * b ** 4
    else:
        lo, hi = mu - 1.5, mu + 2.5
        obj, mean, var, m4 = D.Uniform(lo, hi), (lo + hi) / 2, (hi - lo) ** 2 / 12, (hi - lo) ** 4 / 80
    s = obj.generate(n, rng=numpy.random.default_rng(77 + k))
    out = []
    em = numpy.abs(s.mean(axis=1, keepdims=True) - mean) / numpy.sqrt(var / n)
    ev = numpy.abs(s.var(axis=1, keepdims=True) - var) / numpy.sqrt((m4 - var ** 2) / n)
    if em.max() > 7 or ev.max() > 7:
        out.append((f"moments-{kind}", f"{type(obj).__name__}: batch of {n} draws has mean/variance {em.max():.1f}/{ev.max():.1f} standard errors away from the density's moments"))
    return out


def run(tier, seed):
    common.setup_env()
    import hmclab
    D = hmclab.Distributions
    rnd = random.Random(seed * 7919 + 14)
    n = 120 if tier == "quick" else 1500
    goals, metas, violations, samples, seen = [], [], [], [], set()
    dist = {"pdf_cases": 0, "generate_cases": 0, "moment_cases": 0, "generate_kinds": {}}
    for i in range(n):
        desc, x, got, g, probs = pdf_case(rnd, D)
        for key, what in probs:
            violations.append(Violation(key, what, {"desc": desc, "point": x}))
        goals.append(g)
        metas.append({"desc": desc, "point": x, "misfit": got})
        dist["pdf_cases"] += 1
        seen.add(common.case_hash([desc, x]))
        if i < 2:
            samples.append(metas[-1])
    for k in range(150 if tier == "quick" else 2000):
        with numpy.errstate(all="ignore"):
            kind, probs = generate_case(rnd, D, k)
        dist["generate_cases"] += 1
        dist["generate_kinds"][kind] = dist["generate_kinds"].get(kind, 0) + 1
        for key, what in probs:
            violations.append(Violation(key, what, {"generate_case": k, "kind": kind, "no_failing_input_found": key.startswith("generate-form-not-modelled")}))
    for k in range(10 if tier == "quick" else 100):
        dist["mixture_tie_cases"] = dist.get("mixture_tie_cases", 0) + 1
        for key, what in mixture_tie_case(rnd, D, k):
            violations.append(Violation(key, what, {"mixture_tie_case": k}))
    for k in range(10 if tier == "quick" else 100):
        dist["highdim_cases"] = dist.get("highdim_cases", 0) + 1
        for key, what in highdim_case(rnd, D, k):
            violations.append(Violation(key, what, {"highdim_case": k}))
    for k in range(6 if tier == "quick" else 60):
        dist["moment_cases"] += 1
        for key, what in moment_case(rnd, D, k):
            violations.append(Violation(key, what, {"moment_case": k}))
    header = distgen.HEADER.replace("From HV Require Import Dist DistExtra.", "From HV Require Import Dist DistExtra AlgebraProofs DensityProofs.")
    failing, errors = distgen.run_goals("C14", goals, header=header)
    flagged = {v.replay.get("desc") for v in violations}
    for j in sorted(failing):
        if metas[j]["desc"] in flagged:
            continue
        violations.append(Violation("correspondence", f"{metas[j]['desc']}: normalised misfit {metas[j]['misfit']} at {metas[j]['point']} is outside the interval enclosure of "
                                    "the textbook negative log density", {"desc": metas[j]["desc"], "point": metas[j]["point"], "no_failing_input_found": True}))
    for k, log in errors:
        violations.append(Violation("coq-error", "interval shard failed: " + log[-300:], {"log": log, "no_failing_input_found": True}))
    return {
        "evaluations": dist["pdf_cases"] + dist["generate_cases"] + dist["moment_cases"], "distinct_nontrivial": len(seen),
        "rule": "normalize() then misfit at a dyadic point for Normal (scalar / per-dimension / full covariance, exact rational determinant) and Laplace, enclosed by "
                "Coq-Interval around -ln(textbook pdf) with the constant computed from its formula; generate(repeat, rng) of the 7 generating classes with a recording "
                "generator (draw kinds, parameters, image, shape, determinism); misfit at generated columns in 60-150 dimensions with parameters far from one (log-space transform, Normal in its three encodings, Laplace); a few 40000-draw moment batches; every pdf case counts as non-trivial",
        "samples": samples, "violations": violations,
        "traces_validated_against_impl": dist["pdf_cases"] - len(failing),
        "coverage": {"distribution": dist, "interval_goals_failed": len(failing)},
        "trusted_base": ["textbook densities integrate to one; NumPy normal/laplace/uniform/choice have their documented laws", "Coq-Interval (tactic level)"],
    }


def replay(doc):
    print(doc["replay"])
    print("cases are regenerated from the seed; re-run the check with the same VERIF_SEED")
    return 1
