"""C12 — parallel tempering exchanges.

The real ParallelSampleSMP.sample and the real _sample_loop of every chain are run
  (a) in one process, each chain in a thread, with the process / pipe / queue primitives of
      hmclab.Samplers replaced by cooperative ones: exactly one chain runs at a time and a seeded (or
      scripted, or exhaustively enumerated) scheduler decides at every send / receive which chain moves
      next -- every interleaving of the chains' send/receive steps is reachable, deadlocks are detected;
  (b) as real operating-system processes (watchdog), compared bitwise with (a).
Run (a) under the first schedule is the reference: its files, pre-exchange snapshots, exchange uniforms,
pipe events, misfit and exp calls feed
  - the statement itself (Python): P columns, keep-or-swap, swap rule, own misfit, next energy;
  - the binary64 instance of the Coq exchange network (Corr/C12Corr.v): every column of every file, the
    pipe events of every chain against the model's programs, the schedule guard of the theorems, and the
    network semantics run by a different scheduler."""
import contextlib
import copy
import io
import os
import pickle
import random
import shutil
import signal
import sys
import threading

import numpy

from . import common
from .common import Violation, fhex, fvec, cbool

HEADER = """From Coq Require Import List Bool ZArith PrimFloat.
From HV Require Import Num FloatIO Network Exchange C12Corr.
Import ListNotations.
Open Scope float_scope.
"""


class Deadlock(BaseException):
    pass


class Watchdog(Exception):
    pass


@contextlib.contextmanager
def alarm(seconds):
    def handler(signum, frame):
        raise Watchdog()
    old = signal.signal(signal.SIGALRM, handler)
    signal.alarm(seconds)
    try:
        yield
    finally:
        signal.alarm(0)
        signal.signal(signal.SIGALRM, old)


# ---------------------------------------------------------------------------------------------------
# cooperative scheduler and stand-ins for Process / Pipe / Queue / Value
# ---------------------------------------------------------------------------------------------------
class Sched:
    def __init__(self, policy, rnd=None, script=None, sync=False):
        self.sync = sync          # rendezvous pipes: send returns only when the message has been received
        self.cv = threading.Condition()
        self.turn = None
        self.pending = {}
        self.alive = set()
        self.abort = False
        self.deadlocked = False
        self.timed_out = False
        self.policy, self.rnd, self.script = policy, rnd, list(script or [])
        self.events = {}
        self.errors = {}
        self.trace = []
        self.branching = []       # number of enabled chains at every decision
        self.local = threading.local()
        self.procs = []
        self.pipes = []
        self.started = False
        self.pipe_users = {}

    def enabled(self, j):
        q = self.pending[j]
        return q is None or (q() if callable(q) else len(q) > 0)

    def pick(self):
        en = sorted(j for j in self.alive if self.enabled(j))
        if not en:
            if self.alive:
                self.deadlocked = True
                self.abort = True
            self.turn = None
        else:
            k = len(self.trace)
            if self.policy == "low":
                j = en[0]
            elif self.policy == "high":
                j = en[-1]
            elif self.policy == "script":
                j = en[self.script[k] if k < len(self.script) and self.script[k] < len(en) else 0]
            else:
                j = self.rnd.choice(en)
            self.branching.append(len(en))
            self.trace.append(j)
            self.turn = j
        self.cv.notify_all()

    def wait_turn(self, i):
        while self.turn != i and not self.abort:
            self.cv.wait()
        if self.abort:
            raise Deadlock()

    def yield_point(self, i, q):
        with self.cv:
            self.pending[i] = q
            self.pick()
            self.wait_turn(i)
            self.pending[i] = None

    def run_all(self, limit=90.0):
        if self.started:
            return
        self.started = True
        import time
        t0 = time.time()
        with self.cv:
            self.pick()
            while self.alive:
                self.cv.wait(timeout=1.0)
                if time.time() - t0 > limit and not self.abort:
                    self.timed_out = True
                    self.abort = True
                    self.cv.notify_all()
        for p in self.procs:
            p.thread.join(timeout=30)


def make_primitives(sched):
    class FakeProc:
        def __init__(self, target=None, args=(), kwargs=None):
            self.i = len(sched.procs)
            self.target, self.args, self.kwargs = target, args, kwargs or {}
            sched.procs.append(self)
            sched.events[self.i] = []

        def _body(self):
            sched.local.index = self.i
            try:
                with sched.cv:
                    sched.wait_turn(self.i)
                self.target(*self.args, **self.kwargs)
            except BaseException as e:  # noqa
                sched.errors[self.i] = e
            finally:
                with sched.cv:
                    sched.alive.discard(self.i)
                    if not sched.abort:
                        sched.pick()
                    sched.cv.notify_all()

        def start(self):
            sched.alive.add(self.i)
            sched.pending[self.i] = None
            self.thread = threading.Thread(target=self._body, daemon=True)
            self.thread.start()

        def join(self, timeout=None):
            sched.run_all()

    class End:
        def __init__(self, pid, inq, outq):
            self.pid, self.inq, self.outq = pid, inq, outq

        def _me(self):
            return getattr(sched.local, "index", None)

        def send(self, obj):
            i = self._me()
            if i is None:
                self.outq.append(pickle.dumps(obj))
                return
            sched.yield_point(i, None)
            sched.events[i].append(("send", self.pid))
            sched.pipe_users.setdefault(self.pid, set()).add(i)
            msg = pickle.dumps(obj)
            self.outq.append(msg)
            if sched.sync:
                # a message larger than the pipe buffer: the sender is blocked until the receiver has taken it
                outq = self.outq
                sched.yield_point(i, lambda: not any(m is msg for m in outq))

        def recv(self):
            i = self._me()
            if i is None:
                return pickle.loads(self.inq.pop(0))
            sched.yield_point(i, self.inq)
            sched.events[i].append(("recv", self.pid))
            sched.pipe_users.setdefault(self.pid, set()).add(i)
            return pickle.loads(self.inq.pop(0))

        def poll(self, *a):
            return len(self.inq) > 0

        def close(self):
            pass

    def fake_pipe(duplex=True):
        pid = len(sched.pipes)
        a, b = [], []
        left, right = End(pid, a, b), End(pid, b, a)
        sched.pipes.append((left, right))
        return left, right

    class FakeQueue:
        def __init__(self, maxsize=0):
            self.items = []

        def put(self, x, *a, **k):
            self.items.append(pickle.loads(pickle.dumps(x)))

        def get(self, *a, **k):
            return self.items.pop(0)

        def empty(self):
            return not self.items

        def close(self):
            pass

    class FakeValue:
        def __init__(self, typecode, value):
            self.value = value

    return FakeProc, fake_pipe, FakeQueue, FakeValue


# ---------------------------------------------------------------------------------------------------
# instrumented samplers, random generator, targets
# ---------------------------------------------------------------------------------------------------
class LogRng:
    """numpy Generator that numbers and records its uniform() calls."""

    def __init__(self, seed):
        self.g = numpy.random.default_rng(seed)
        self.count = 0
        self.log = []

    def uniform(self, low=0.0, high=1.0, size=None):
        v = self.g.uniform(low, high, size)
        self.log.append((float(low), float(high), v))
        self.count += 1
        return v

    def random(self, size=None, *a, **k):
        v = self.g.random(size, *a, **k)
        self.log.append((0.0, 1.0, v))
        self.count += 1
        return v

    def __getattr__(self, name):
        if name.startswith("__") or name == "g":
            raise AttributeError(name)
        return getattr(self.g, name)


_CLASSES = {}


def sampler_classes():
    if _CLASSES:
        return _CLASSES
    import hmclab.Samplers as S

    class SnapMixin:
        def _propose(self):
            self._c12log.append(["propose", self.rng.count])
            return super()._propose()

        def _evaluate_acceptance(self):
            before = (common.col(self.current_model), float(self.current_x))
            out = super()._evaluate_acceptance()
            self._c12log[-1] += [before, (common.col(self.current_model), float(self.current_x)), self.rng.count]
            return out

    class SnapHMC(SnapMixin, S.HMC):
        pass

    class SnapRWMH(SnapMixin, S.RWMH):
        pass

    SnapHMC.__name__, SnapRWMH.__name__ = "HMC", "RWMH"
    _CLASSES.update(hmc=SnapHMC, rwmh=SnapRWMH)
    return _CLASSES


def gen_case(rnd, small=False):
    n = rnd.choice([1, 2, 2, 3, 3, 4, 5]) if not small else rnd.choice([2, 3])
    d = rnd.choice([1, 2, 3])
    P = rnd.choice([1, 2, 3, 5, 6, 7, 9, 12]) if not small else rnd.choice([1, 2, 3])
    I = rnd.choice([1, 1, 2, 3, 4, 5, 7]) if not small else 1
    if rnd.random() < 0.1:
        I = P + rnd.randint(1, 3)           # interval larger than the run
    kinds = [rnd.choice(["hmc", "rwmh"]) for _ in range(n)]
    kws = []
    for k in kinds:
        kw = {"stepsize": rnd.choice([0.25, 0.5, 1.0]), "disable_progressbar": True}
        if k == "hmc":
            kw.update(amount_of_steps=rnd.randint(1, 3), integrator=rnd.choice(["lf", "3s", "4s"]), randomize_stepsize=rnd.random() < 0.5)
        if rnd.random() < 0.2:
            kw["autotuning"] = True
        kws.append(kw)
    return {"n": n, "d": d, "P": P, "I": I, "exchange": rnd.random() < 0.9, "kinds": kinds, "kws": kws,
            "seeds": [rnd.randrange(1 << 20) for _ in range(n)], "tseeds": [rnd.randrange(1 << 20) for _ in range(n)],
            "ctrl_seed": rnd.randrange(1 << 20), "special": rnd.choice([0.0, 0.0, 0.03]),
            "tmode": rnd.choice(["distinct", "same", "tempered", "tempered"]),
            "ims": [[rnd.randint(-8, 8) / 8.0 for _ in range(d)] for _ in range(n)],
            # chains whose target has bounded support (misfit +inf outside a box around its starting model): the partner's
            # state is then usually a model of zero probability for this chain
            "boxed": [rnd.choice([None, None, 0.25, 1.0]) if rnd.random() < 0.5 else None for _ in range(n)],
            # ... of which some are not +inf but undefined (NaN) outside
            "boxed_nan": [rnd.random() < 0.4 for _ in range(n)]}


def target_class():
    from .probes import FnTarget

    class TemperedTarget(FnTarget):
        """the shared hash target at temperature `temp` (a power of two: the division is exact)"""
        temp = 1.0

        def misfit_value(self, m):
            return super().misfit_value(m) / self.temp

        def gradient_value(self, m):
            return super().gradient_value(m) / self.temp

    return TemperedTarget


def build(c):
    FnTarget = target_class()
    cls = sampler_classes()
    samplers, targets = [], []
    for i in range(c["n"]):
        s = cls[c["kinds"][i]](seed=c["seeds"][i])
        s.rng = LogRng(c["seeds"][i])
        s._c12log = []
        samplers.append(s)
        mode = c.get("tmode", "distinct")
        t = FnTarget(c["d"], seed=c["tseeds"][i if mode == "distinct" else 0], special_rate=c["special"], glog=[],
                     misfit_palette=[float("nan"), float("inf"), 1e300, 700.0])
        t.temp = float(2 ** i) if mode == "tempered" else 1.0
        targets.append(t)
    ims = [numpy.array(v, dtype=float).reshape(-1, 1) for v in c["ims"]]
    # the samplers refuse a non-finite initial misfit: move to the first admissible seed deterministically
    for t, m in zip(targets, ims):
        import math
        while not math.isfinite(t.misfit_value(m)):
            m += 0.125
    for t, m, hw, un in zip(targets, ims, c.get("boxed") or [None] * len(targets), c.get("boxed_nan") or [False] * len(targets)):
        if hw is not None:
            t.box = ([float(v) - hw for v in m.flatten()], [float(v) + hw for v in m.flatten()])
            if un:
                t.outside_value = float("nan")
    return samplers, targets, ims


def read_cols(path):
    import hmclab
    with hmclab.Samples(path) as s:
        arr = numpy.array(s.numpy)
    return [(common.col(arr[:-1, j]), float(arr[-1, j])) for j in range(arr.shape[1])]


class RunOut:
    pass


def run_threads(c, wd, tag, policy, rnd=None, script=None, sync=False):
    """one run of the real controller and chains under the cooperative scheduler"""
    import hmclab.Samplers as S
    from .probes import ExpProxy
    samplers, targets, ims = build(c)
    sched = Sched(policy, rnd, script, sync)
    FakeProc, fake_pipe, FakeQueue, FakeValue = make_primitives(sched)
    files = [os.path.join(wd, f"{tag}_{i}.h5") for i in range(c["n"])]
    for f in files:
        if os.path.exists(f):
            os.remove(f)
    proxy = ExpProxy(glog=[])
    saved = (S.MyProc, S._Pipe, S._Queue, S._Value, S._numpy)
    S.MyProc, S._Pipe, S._Queue, S._Value, S._numpy = FakeProc, fake_pipe, FakeQueue, FakeValue, proxy
    out = RunOut()
    out.exception = None
    ctrl = S.ParallelSampleSMP(seed=c["ctrl_seed"])
    try:
        with contextlib.redirect_stdout(io.StringIO()), contextlib.redirect_stderr(io.StringIO()), numpy.errstate(all="ignore"):
            try:
                ctrl.sample(samplers, files, targets, overwrite_existing_files=True, proposals=c["P"], exchange=c["exchange"],
                            exchange_interval=c["I"], initial_model=[m.copy() for m in ims], kwargs=[dict(k) for k in c["kws"]])
            except BaseException as e:  # noqa
                out.exception = e
            if not sched.started and sched.procs:
                sched.abort = True
    finally:
        S.MyProc, S._Pipe, S._Queue, S._Value, S._numpy = saved
        numpy.seterr(all="warn")
    out.sched, out.ctrl, out.files, out.targets, out.proxy = sched, ctrl, files, targets, proxy
    out.schedule = None if getattr(ctrl, "exchange_schedule", None) is None else numpy.array(ctrl.exchange_schedule).tolist()
    out.cols, out.read_errors = [], {}
    for i, f in enumerate(files):
        try:
            out.cols.append(read_cols(f))
        except BaseException as e:  # noqa
            out.cols.append(None)
            out.read_errors[i] = e
    out.logs = [getattr(s, "_c12log", []) for s in getattr(ctrl, "samplers", [])]
    out.rngs = [getattr(s, "rng", None) for s in getattr(ctrl, "samplers", [])]
    return out


def run_processes(c, wd, tag):
    """the same run with real operating-system processes"""
    import hmclab.Samplers as S
    samplers, targets, ims = build(c)
    files = [os.path.join(wd, f"{tag}_{i}.h5") for i in range(c["n"])]
    ctrl = S.ParallelSampleSMP(seed=c["ctrl_seed"])
    err = None
    with contextlib.redirect_stdout(io.StringIO()), contextlib.redirect_stderr(io.StringIO()), numpy.errstate(all="ignore"):
        try:
            with alarm(120):
                ctrl.sample(samplers, files, targets, overwrite_existing_files=True, proposals=c["P"], exchange=c["exchange"],
                            exchange_interval=c["I"], initial_model=[m.copy() for m in ims], kwargs=[dict(k) for k in c["kws"]])
        except Watchdog:
            err = "hang"
            import multiprocess
            for p in multiprocess.active_children():
                p.terminate()
        except BaseException as e:  # noqa
            err = f"{type(e).__name__}: {e}"
    numpy.seterr(all="warn")
    cols = []
    for f in files:
        try:
            cols.append(read_cols(f))
        except BaseException:  # noqa
            cols.append(None)
    return err, cols


def same_state(a, b):
    return len(a[0]) == len(b[0]) and all(common.same_float(x, y) for x, y in zip(a[0], b[0])) and common.same_float(a[1], b[1])


def same_model(a, b):
    return len(a) == len(b) and all(common.same_float(x, y) for x, y in zip(a, b))


def pairs_of(row):
    return [(int(row[k]), int(row[k + 1])) for k in range(0, len(row) - 1, 2)]


def exchange_draws(out, i, P):
    """uniform numbers chain i drew inside the exchange sections, per proposal"""
    log, rng = out.logs[i], out.rngs[i]
    draws = []
    for p in range(len(log)):
        if len(log[p]) < 5:
            draws.append(None)
            continue
        lo = log[p][4]
        hi = log[p + 1][1] if p + 1 < len(log) else rng.count
        draws.append([rng.log[k] for k in range(lo, hi)])
    return draws


def spec_oracle(c, out):
    """the statement of C12 on the reference run"""
    probs = []
    n, P, I = c["n"], c["P"], c["I"]
    sched = out.sched
    if out.exception is not None:
        probs.append(("controller-raised", f"ParallelSampleSMP.sample raised {type(out.exception).__name__}: {out.exception} (n={n}, P={P}, interval={I}, exchange={c['exchange']})"))
        return probs
    if sched.deadlocked:
        probs.append(("deadlock", f"the chains deadlocked (n={n}, P={P}, interval={I}); chain errors: " +
                      "; ".join(f"{i}: {type(e).__name__}: {e}" for i, e in sorted(sched.errors.items()) if not isinstance(e, Deadlock))))
        return probs
    if sched.timed_out:
        probs.append(("hang", f"the run did not finish (n={n}, P={P}, interval={I})"))
        return probs
    for i, e in sorted(sched.errors.items()):
        probs.append(("chain-raised", f"chain {i} raised {type(e).__name__}: {e} (n={n}, P={P}, interval={I})"))
    if probs:
        return probs
    for i in range(n):
        if out.cols[i] is None:
            probs.append(("file-unreadable", f"chain {i}: {out.read_errors.get(i)}"))
        elif len(out.cols[i]) != P:
            probs.append(("columns", f"chain {i} wrote {len(out.cols[i])} columns, proposals = {P} (interval {I})"))
    if probs:
        return probs
    rows = out.schedule or []
    draws = [exchange_draws(out, i, P) for i in range(n)]
    for i in range(n):
        t = out.targets[i]
        for p in range(P):
            m, x = out.cols[i][p]
            own = t.misfit_value(numpy.array(m).reshape(-1, 1))
            if not common.same_float(own, x):
                probs.append(("stale-misfit", f"chain {i}, column {p}: stored misfit {x}, the chain's own target gives {own} for the stored state"
                              f" (interval {I}, schedule row {rows[p // I] if c['exchange'] and p % I == 0 and p // I < len(rows) else None})"))
                break
            if p + 1 < P and not same_state(out.logs[i][p + 1][2], out.cols[i][p]):
                probs.append(("next-energy", f"chain {i}: the transition of proposal {p + 1} started from {out.logs[i][p + 1][2]}, the chain holds {out.cols[i][p]}"))
                break
    for p in range(P):
        scheduled = c["exchange"] and p % I == 0
        pairs = pairs_of(rows[p // I]) if scheduled and p // I < len(rows) else []
        masters = {m for _, m in pairs}
        for i in range(n):
            k = len(draws[i][p] or [])
            if k != (1 if i in masters else 0):
                probs.append(("draws", f"chain {i} drew {k} uniform numbers in the exchange section of proposal {p} (master: {i in masters})"))
        for s, m in pairs:
            pre_s, pre_m = out.logs[s][p][3], out.logs[m][p][3]
            post_s, post_m = out.cols[s][p], out.cols[m][p]
            keep = same_model(post_s[0], pre_s[0]) and same_model(post_m[0], pre_m[0])
            swap = same_model(post_s[0], pre_m[0]) and same_model(post_m[0], pre_s[0])
            if not (keep or swap):
                probs.append(("not-conserved", f"proposal {p}, pair (slave {s}, master {m}): states before {pre_s[0]} / {pre_m[0]}, after {post_s[0]} / {post_m[0]}"))
                continue
            if not draws[m][p]:
                continue
            u = float(draws[m][p][0][2])
            ts, tm = out.targets[s], out.targets[m]
            arr = lambda v: numpy.array(v).reshape(-1, 1)
            with numpy.errstate(all="ignore"):
                total = (pre_m[1] - tm.misfit_value(arr(pre_s[0]))) + (pre_s[1] - ts.misfit_value(arr(pre_m[0])))
                want = bool(numpy.exp(total) > u)
            if not (keep and swap) and want != swap:
                probs.append(("swap-rule", f"proposal {p}, pair (slave {s}, master {m}): u = {u}, exp(sum of improvements) = {float(numpy.exp(total))}: "
                              f"{'swap' if want else 'keep'} expected, chains {'swapped' if swap else 'kept'}"))
    return probs


def events_of(out, i):
    ev = []
    for kind, pid in out.sched.events.get(i, []):
        users = out.sched.pipe_users.get(pid, set()) - {i}
        partner = min(users) if users else i
        ev.append((kind == "send", partner))
    return ev


def coq_case(c, out):
    n, P = c["n"], c["P"]
    rows = out.schedule or []
    sched = "[" + "; ".join("[" + "; ".join(f"({s}, {m})%nat" for s, m in pairs_of(r)) + "]" for r in rows) + "]"
    exp_tbl, seen = [], set()
    for x, v in out.proxy.exp_log:
        if fhex(x) not in seen:
            seen.add(fhex(x))
            exp_tbl.append(f"([{fhex(x)}], {fhex(v)})")
    st = lambda s: f"({fvec(s[0])}, {fhex(s[1])})"
    draws = [exchange_draws(out, i, P) for i in range(n)]
    chains = []
    for i in range(n):
        log = out.logs[i]
        mis, seen_m = [], set()
        for arg, val in out.targets[i].tables()[0]:
            key = fvec(arg)
            if key not in seen_m:
                seen_m.add(key)
                mis.append(f"({key}, {fhex(val)})")
        unif = [float(d[2]) for p in range(P) for d in (draws[i][p] or [])]
        ev = events_of(out, i)
        chains.append("{| h_init := %s; h_trans := [%s]; h_misfit := [%s]; h_unif := %s; h_cols := [%s]; h_events := [%s] |}" % (
            st(log[0][2]), "; ".join(f"({st(e[2])}, {st(e[3])})" for e in log), "; ".join(mis), fvec(unif),
            "; ".join(st(s) for s in out.cols[i]), "; ".join(f"({cbool(a)}, {b}%nat)" for a, b in ev)))
    return "{| e_P := %d%%nat; e_I := %d%%nat; e_exchange := %s; e_sched := %s; e_exp := [%s]; e_chains := [%s] |}" % (
        P, c["I"], cbool(c["exchange"]), sched, "; ".join(exp_tbl), "; ".join(chains))


def all_schedules(c, wd, ref_cols, cap):
    """stateless depth-first enumeration of every interleaving of the send / receive steps"""
    stack, runs, diffs, deadlocks = [[]], 0, 0, 0
    while stack and runs < cap:
        script = stack.pop()
        out = run_threads(c, wd, "dfs", "script", script=script)
        runs += 1
        if out.sched.deadlocked or out.sched.errors or out.exception is not None:
            deadlocks += 1
        elif any(a is None or len(a) != len(b) or not all(same_state(x, y) for x, y in zip(a, b)) for a, b in zip(out.cols, ref_cols)):
            diffs += 1
        br = out.sched.branching
        for k in range(len(script), len(br)):
            for alt in range(1, br[k]):
                stack.append(script + [0] * (k - len(script)) + [alt])
    return runs, diffs, deadlocks, not stack


def run_case(c, wd, idx, tier, rnd, extra):
    violations = []
    ref = run_threads(c, wd, f"ref{idx}", "low")
    probs = spec_oracle(c, ref)
    for key, what in probs:
        # who draws the uniform number of an exchange, and how many, is how the tie finds u -- not part of the statement
        violations.append(Violation(key, what, {"case": c, "no_failing_input_found": key == "draws"}))
    healthy = not probs or all(k in ("stale-misfit", "next-energy", "swap-rule", "not-conserved", "draws") for k, _ in probs)
    complete = ref.exception is None and not ref.sched.deadlocked and not ref.sched.timed_out and not ref.sched.errors \
        and all(col is not None and len(col) == c["P"] for col in ref.cols)
    stats = {"schedules": 1, "process_runs": 0, "dfs_runs": 0, "dfs_complete": 0,
             "exchanges": 0, "swaps": 0, "steps": len(ref.sched.trace)}
    if complete and ref.schedule is not None:
        for p in range(c["P"]):
            if c["exchange"] and p % c["I"] == 0 and p // c["I"] < len(ref.schedule):
                for s, m in pairs_of(ref.schedule[p // c["I"]]):
                    stats["exchanges"] += 1
                    stats["swaps"] += int(not same_model(ref.cols[s][p][0], ref.logs[s][p][3][0]))
    if complete:
        # other interleavings: highest-first and seeded random ones
        for k, (policy, seed, sync) in enumerate([("high", 0, False)] + [("random", rnd.randrange(1 << 30), False) for _ in range(extra)]
                                                 + [("random", rnd.randrange(1 << 30), True), ("low", 0, True)]):
            o = run_threads(c, wd, f"alt{idx}", policy, rnd=random.Random(seed), sync=sync)
            stats["schedules"] += 1
            bad = o.exception is not None or o.sched.deadlocked or o.sched.errors or o.sched.timed_out
            if bad and sync:
                violations.append(Violation("deadlock-with-blocking-send", f"with pipes whose send returns only when the message has been received (a message larger than the operating system's pipe buffer) "
                                            f"the run fails (deadlock={o.sched.deadlocked}, errors={[(i, type(e).__name__) for i, e in o.sched.errors.items()][:3]}); n={c['n']}, P={c['P']}, interval={c['I']}",
                                            {"case": c, "policy": policy, "seed": seed, "sync": True}))
                break
            if bad:
                violations.append(Violation("schedule-dependent-failure", f"under scheduling policy {policy}/{seed} the run failed (deadlock={o.sched.deadlocked}, errors={list(o.sched.errors.items())[:2]}, "
                                            f"exception={o.exception}) while it finished under the lowest-first policy", {"case": c, "policy": policy, "seed": seed}))
                break
            if any(a is None or len(a) != len(b) or not all(same_state(x, y) for x, y in zip(a, b)) for a, b in zip(o.cols, ref.cols)) \
                    or o.schedule != ref.schedule:
                violations.append(Violation("schedule-dependent-result", f"the files differ between two interleavings of the same seeded run (policy {policy}/{seed} vs lowest-first; n={c['n']}, P={c['P']}, interval={c['I']})",
                                            {"case": c, "policy": policy, "seed": seed}))
                break
    return ref, violations, complete, stats


def run(tier, seed):
    common.setup_env()
    rnd = random.Random(seed * 7919 + 12)
    n_cases = 40 if tier == "quick" else 400
    n_proc = 3 if tier == "quick" else 25
    n_dfs = 2 if tier == "quick" else 12
    extra = 2 if tier == "quick" else 5
    wd = common.tmpdir("c12_")
    violations, samples, seen = [], [], set()
    coq_cases = []
    dist = {"runs": 0, "chains": 0, "n": {}, "non_dividing_interval": 0, "interval_gt_P": 0, "exchange_off": 0, "schedules_run": 0,
            "exchanges": 0, "swaps": 0, "process_runs": 0, "dfs_cases": 0, "dfs_runs": 0, "dfs_exhausted": 0, "scheduler_steps": 0}
    try:
        for idx in range(n_cases):
            c = gen_case(rnd)
            if idx == 0:
                c.update(n=3, P=5, I=2, exchange=True)
                for key in ("kinds", "kws", "seeds", "tseeds", "ims"):
                    while len(c[key]) < 3:
                        c[key].append(copy.deepcopy(c[key][0]))
                    c[key] = c[key][:3]
            ref, vs, complete, stats = run_case(c, wd, idx, tier, rnd, extra)
            violations += vs
            dist["runs"] += 1
            dist["chains"] += c["n"]
            dist["n"][str(c["n"])] = dist["n"].get(str(c["n"]), 0) + 1
            dist["non_dividing_interval"] += int(c["exchange"] and c["P"] % c["I"] != 0)
            dist["interval_gt_P"] += int(c["exchange"] and c["I"] > c["P"])
            dist["exchange_off"] += int(not c["exchange"])
            dist["schedules_run"] += stats["schedules"]
            dist["exchanges"] += stats["exchanges"]
            dist["swaps"] += stats["swaps"]
            dist["scheduler_steps"] += stats["steps"]
            if stats["exchanges"] >= 1:
                seen.add(common.case_hash(c))
            if complete:
                coq_cases.append((coq_case(c, ref), c))
                if dist["process_runs"] < n_proc and c["n"] >= 2 and c["exchange"]:
                    err, cols = run_processes(c, wd, f"proc{idx}")
                    dist["process_runs"] += 1
                    if err:
                        violations.append(Violation("process-run-" + ("hang" if err == "hang" else "raised"),
                                                    f"ParallelSampleSMP with real processes: {err} (n={c['n']}, P={c['P']}, interval={c['I']})", {"case": c}))
                    elif any(a is None or len(a) != len(b) or not all(same_state(x, y) for x, y in zip(a, b)) for a, b in zip(cols, ref.cols)):
                        violations.append(Violation("process-run-differs", f"the files of the run with real processes differ from the run under the cooperative scheduler "
                                                    f"(n={c['n']}, P={c['P']}, interval={c['I']})", {"case": c}))
            if idx < 2:
                samples.append({"case": {k: c[k] for k in ("n", "P", "I", "exchange", "kinds")}, "schedule": ref.schedule,
                                "events_chain0": [list(e) for e in events_of(ref, 0)][:12], "stats": stats})
        # every interleaving of small runs
        for k in range(n_dfs):
            c = gen_case(rnd, small=True)
            c["exchange"] = True
            ref, vs, complete, stats = run_case(c, wd, 9000 + k, tier, rnd, 0)
            violations += vs
            if not complete:
                continue
            runs, diffs, deadlocks, exhausted = all_schedules(c, wd, ref.cols, 150 if tier == "quick" else 1500)
            dist["dfs_cases"] += 1
            dist["dfs_runs"] += runs
            dist["dfs_exhausted"] += int(exhausted)
            if diffs or deadlocks:
                violations.append(Violation("schedule-dependent-result", f"enumerating the interleavings of a run with {c['n']} chains and {c['P']} proposals: {diffs} of {runs} differ from the reference, "
                                            f"{deadlocks} fail", {"case": c, "enumerate": True}))
    finally:
        shutil.rmtree(wd, ignore_errors=True)
    res, errs = common.eval_cases_multi("C12", HEADER, [t for t, _ in coq_cases], ["c12_check", "c12_check_net", "c12_check_sync"], shard=8)
    flagged = {common.case_hash(v.replay.get("case")) for v in violations if "case" in v.replay}
    for fn in ("c12_check", "c12_check_net", "c12_check_sync"):
        for j in res[fn]:
            c = coq_cases[j][1]
            if common.case_hash(c) in flagged:
                continue
            flagged.add(common.case_hash(c))
            violations.append(Violation("correspondence", f"the exchange-network model ({fn}) and the implementation disagree (columns, pipe events or schedule guard) for n={c['n']}, P={c['P']}, "
                                        f"interval={c['I']}, exchange={c['exchange']}", {"case": c, "no_failing_input_found": True}))
    for k, log in errs:
        violations.append(Violation("coq-error", "shard failed: " + log[-300:], {"log": log, "no_failing_input_found": True}))
    return {
        "evaluations": dist["schedules_run"] + dist["process_runs"] + dist["dfs_runs"], "distinct_nontrivial": len(seen),
        "rule": "1-5 chains, HMC/RWMH mixes with distinct hash targets (a few NaN/inf misfits), P in 1..12, intervals 1..7 and > P (dividing P or not), exchange on (90%) / off; "
                "each run under lowest-first, highest-first and seeded random interleavings of the send/receive steps, with buffered pipes and with pipes whose send blocks until the message "
                "is received; some as real processes; runs with 2-3 chains and 1-3 proposals "
                "under every interleaving (depth-first enumeration); non-trivial = at least one scheduled exchange",
        "samples": samples, "violations": violations,
        "traces_validated_against_impl": len(coq_cases) - len(set(res["c12_check"]) | set(res["c12_check_net"]) | set(res["c12_check_sync"])),
        "coverage": {"distribution": dist, "coq_cases": len(coq_cases), "correspondence_failures": len(set(res["c12_check"]) | set(res["c12_check_net"]) | set(res["c12_check_sync"]))},
        "trusted_base": ["chain processes communicate only through the pipes of PipeMatrix (no shared memory); a pipe is FIFO and pickles what it carries; recv blocks; the theorems hold for "
                         "queues of every capacity >= 1 message (a full queue blocks the sender), for unbounded ones, and for synchronous pipes (send returns when the message has been "
                         "received: a message larger than the operating system's pipe buffer); byte-level partial writes in between are not modelled",
                         "the cooperative scheduler interleaves at send/recv boundaries only: the code between two pipe operations of a chain touches only that chain's state",
                         "transitions enter the Coq instance as the observed (state before, state after) pairs; targets, exp and the exchange uniforms as logged tables"],
    }


def replay(doc):
    common.setup_env()
    c = doc["replay"]["case"]
    wd = common.tmpdir("c12r_")
    try:
        ref, vs, complete, stats = run_case(c, wd, 0, "quick", random.Random(1), 2)
        for v in vs:
            print(v.key, "::", v.what)
        if not vs and complete:
            res, errs = common.eval_cases_multi("C12r", HEADER, [coq_case(c, ref)], ["c12_check", "c12_check_net", "c12_check_sync"], shard=8)
            print("model:", res, errs[:1])
            return 1 if (res["c12_check"] or res["c12_check_net"] or res["c12_check_sync"] or errs) else 0
    finally:
        shutil.rmtree(wd, ignore_errors=True)
    return 1 if vs else 0
