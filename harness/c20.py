"""C20 — parallel chains without exchange are exactly the sequential chains: real ParallelSampleSMP
runs (separate processes) with exchange disabled, for generated numbers of chains, HMC/RWMH mixes, seeds,
per-chain / shared / absent kwargs and initial models; every file is compared value-for-value (bits) with
the file of the same sampler run on its own; the sampler objects handed to the controller are compared
before / after (attributes, RNG state, results file of an earlier run) and reused afterwards."""
import contextlib
import copy
import hashlib
import io
import os
import random
import shutil
import signal

import numpy

from . import common
from .common import Violation


class Watchdog(Exception):
    pass


@contextlib.contextmanager
def alarm(seconds):
    def handler(signum, frame):
        raise Watchdog()
    old = signal.signal(signal.SIGALRM, handler)
    signal.alarm(seconds)
    try:
        yield
    finally:
        signal.alarm(0)
        signal.signal(signal.SIGALRM, old)


def read_file(path):
    import hmclab
    with hmclab.Samples(path) as s:
        arr = numpy.array(s.numpy)
        attrs = {k: s.read_attribute(k) for k in ("proposals", "online_thinning", "sampler", "write_index", "acceptance_rate")}
    return arr, attrs


def snapshot(s):
    out = {}
    for k, v in sorted(vars(s).items()):
        if k == "rng":
            out[k] = repr(v.bit_generator.state)
        elif isinstance(v, numpy.ndarray):
            out[k] = ("nd", v.shape, v.tobytes())
        elif isinstance(v, (int, float, str, bool, type(None))):
            out[k] = v
        else:
            out[k] = type(v).__name__
    return out


def gen_case(rnd):
    n = rnd.randint(1, 4)
    d = rnd.choice([1, 2, 3])
    P = rnd.choice([6, 8, 12])
    kinds = [rnd.choice(["hmc", "rwmh"]) for _ in range(n)]
    seeds = [rnd.randrange(1 << 20) for _ in range(n)]
    im_mode = rnd.choice(["none", "shared", "list", "in-kwargs"])
    kw_mode = rnd.choice(["none", "shared", "list"])
    ims = [[rnd.randint(-8, 8) / 8.0 for _ in range(d)] for _ in range(n)]
    kws = []
    for k in kinds:
        kw = {"stepsize": rnd.choice([0.1, 0.3, 0.7]), "online_thinning": rnd.choice([1, 2]), "disable_progressbar": True}
        if k == "hmc" and rnd.random() < 0.7:
            kw.update(amount_of_steps=rnd.randint(1, 4), integrator=rnd.choice(["lf", "3s", "4s"]), randomize_stepsize=rnd.random() < 0.5)
        if rnd.random() < 0.3:
            kw["autotuning"] = True
        kws.append(kw)
    shared_kw = {"stepsize": 0.25, "online_thinning": 2, "disable_progressbar": True}
    means = [[rnd.randint(-8, 8) / 8.0 for _ in range(d)] for _ in range(n)]
    return {"n": n, "d": d, "P": P, "kinds": kinds, "seeds": seeds, "im_mode": im_mode, "kw_mode": kw_mode, "ims": ims, "kws": kws,
            "shared_kw": shared_kw, "means": means, "prior_run": rnd.random() < 0.4,
            # an exchange interval left over from a tempering set-up (dividing the proposal count or not); exchange stays off
            "exchange_interval": rnd.choice([None, None, 1, 2, 4, 5, 7])}


def run_case(c, wd, idx):
    import hmclab
    S, D = hmclab.Samplers, hmclab.Distributions
    probs = []
    n, d = c["n"], c["d"]
    col = lambda v: numpy.array(v, dtype=float).reshape(-1, 1)
    posteriors = [D.Normal(col(m), numpy.ones((d, 1)) * (1.0 + 0.5 * i)) for i, m in enumerate(c["means"])]
    samplers = [(S.HMC if k == "hmc" else S.RWMH)(seed=s) for k, s in zip(c["kinds"], c["seeds"])]
    prior_files = {}
    with contextlib.redirect_stdout(io.StringIO()), contextlib.redirect_stderr(io.StringIO()), numpy.errstate(all="ignore"):
        if c["prior_run"]:
            # the first sampler already owns a results file from an earlier run
            pf = os.path.join(wd, f"prior_{idx}.h5")
            samplers[0].sample(pf, posteriors[0], proposals=4, overwrite_existing_file=True, disable_progressbar=True)
            prior_files[0] = (pf, hashlib.sha256(open(pf, "rb").read()).hexdigest())
        im = None if c["im_mode"] in ("none", "in-kwargs") else (col(c["ims"][0]) if c["im_mode"] == "shared" else [col(v) for v in c["ims"]])
        kw = None if c["kw_mode"] == "none" else (dict(c["shared_kw"]) if c["kw_mode"] == "shared" else [dict(k) for k in c["kws"]])
        if kw is None:
            kw = {"disable_progressbar": True}       # keep the terminals quiet; still the shared-dictionary path
        if c["im_mode"] == "in-kwargs":
            # the starting models travel as ordinary keyword arguments (all chains, or all but the last), the controller's own
            # initial_model parameter stays at its default
            if isinstance(kw, list):
                for i in range(n if n == 1 else n - 1):
                    kw[i]["initial_model"] = col(c["ims"][i])
            else:
                kw["initial_model"] = col(c["ims"][0])
        before = [snapshot(s) for s in samplers]
        refs = [copy.deepcopy(s) for s in samplers]
        files = [os.path.join(wd, f"par_{idx}_{i}.h5") for i in range(n)]
        ctrl = S.ParallelSampleSMP(seed=1)
        # a machine with fewer cores than chains (what os.cpu_count() reports is all the library can know about it)
        real_count = os.cpu_count
        if c.get("cores") is not None:
            os.cpu_count = lambda: c["cores"]
        try:
            with alarm(180):
                extra = {} if c.get("exchange_interval") is None else {"exchange_interval": c["exchange_interval"]}
                ctrl.sample(samplers, files, posteriors, overwrite_existing_files=common.spell_bool(True), proposals=c["P"], exchange=common.spell_bool(False),
                            initial_model=copy.deepcopy(im), kwargs=copy.deepcopy(kw), **extra)
        except Watchdog:
            os.cpu_count = real_count
            return [("parallel-hang", f"ParallelSampleSMP without exchange did not finish within 180 s ({c['n']} chains)")]
        except Exception as e:  # noqa
            os.cpu_count = real_count
            return [("parallel-raised", f"ParallelSampleSMP.sample raised {type(e).__name__}: {e}")]
        os.cpu_count = real_count
        after = [snapshot(s) for s in samplers]
        for i in range(n):
            if before[i] != after[i]:
                diff = [k for k in before[i] if before[i].get(k) != after[i].get(k)]
                probs.append(("inputs-modified", f"sampler {i} handed to the controller was modified (attributes {diff})"))
        for i, (pf, h) in prior_files.items():
            if not os.path.exists(pf) or hashlib.sha256(open(pf, "rb").read()).hexdigest() != h:
                probs.append(("prior-file-modified", f"the results file of an earlier run of sampler {i} was changed by the parallel run"))
        # stand-alone runs of identical copies
        for i in range(n):
            chain_im = None if im is None else (im[i] if isinstance(im, list) else im)
            chain_kw = dict(kw[i]) if isinstance(kw, list) else dict(kw)
            rf = os.path.join(wd, f"ref_{idx}_{i}.h5")
            if "initial_model" not in chain_kw:
                chain_kw["initial_model"] = None if chain_im is None else chain_im.copy()
            refs[i].sample(rf, posteriors[i], proposals=c["P"], overwrite_existing_file=True, **chain_kw)
            try:
                a, aa = read_file(files[i])
                b, ba = read_file(rf)
            except Exception as e:  # noqa
                probs.append(("file-unreadable", f"chain {i}: {type(e).__name__}: {e}"))
                continue
            if a.shape != b.shape or a.tobytes() != b.tobytes():
                probs.append(("chain-differs-from-sequential", f"chain {i} ({c['kinds'][i]}, kwargs mode {c['kw_mode']}, initial model mode {c['im_mode']}): the parallel file "
                              f"differs from the file of the same sampler run on its own (shapes {a.shape} vs {b.shape})"))
            for k in aa:
                av, bv = aa[k], ba[k]
                if isinstance(av, bytes):
                    av, bv = av.decode(), bv.decode()
                if av != bv and not (isinstance(av, float) and isinstance(bv, float) and abs(av - bv) < 1e-15):
                    probs.append(("chain-attrs-differ", f"chain {i}: attribute {k} is {av!r} in the parallel file and {bv!r} in the sequential one"))
        # the handed-in samplers can be reused afterwards
        again = os.path.join(wd, f"again_{idx}.h5")
        try:
            samplers[-1].sample(again, posteriors[-1], proposals=4, overwrite_existing_file=True, disable_progressbar=True)
        except Exception as e:  # noqa
            probs.append(("not-reusable", f"a sampler handed to the controller cannot be used afterwards: {type(e).__name__}: {e}"))
    numpy.seterr(all="warn")
    return probs


def run(tier, seed):
    common.setup_env()
    rnd = random.Random(seed * 7919 + 20)
    n = 8 if tier == "quick" else 60
    wd = common.tmpdir("c20_")
    violations, samples, seen = [], [], set()
    dist = {"runs": 0, "chains": 0, "hmc": 0, "rwmh": 0, "kw_list": 0, "kw_shared": 0, "kw_none": 0, "im_list": 0, "prior_run": 0}
    try:
        for i in range(n):
            c = gen_case(rnd)
            if i == 0:
                c["n"], c["kw_mode"], c["im_mode"] = max(c["n"], 2), "list", "list"
                for key in ("kinds", "seeds", "ims", "kws", "means"):
                    while len(c[key]) < c["n"]:
                        c[key].append(copy.deepcopy(c[key][0]))
                c["kws"][1] = dict(c["kws"][1], stepsize=0.9)
            if i == 3 or i % 9 == 7:
                # more chains than cores, and not a multiple of them: five chains on a machine that reports two cores
                while len(c["kinds"]) < 5:
                    for key in ("kinds", "seeds", "ims", "kws", "means"):
                        c[key].append(copy.deepcopy(c[key][len(c[key]) % c["n"]]))
                c["n"], c["cores"] = 5, 2
                c["seeds"] = [s + 17 * j for j, s in enumerate(c["seeds"])]
                dist["more_chains_than_cores"] = dist.get("more_chains_than_cores", 0) + 1
            if i == 4 or i % 9 == 8:
                # a mix that starts with RWMH; the HMC chains after it get keywords only HMC knows
                c["n"], c["kinds"], c["kw_mode"] = 3, ["rwmh", "hmc", "hmc"], "list"
                for key in ("seeds", "ims", "means"):
                    while len(c[key]) < 3:
                        c[key].append(copy.deepcopy(c[key][0]))
                    c[key] = c[key][:3]
                c["kws"] = [{"stepsize": 0.5, "online_thinning": 1, "disable_progressbar": True},
                            {"stepsize": 0.3, "online_thinning": 2, "disable_progressbar": True, "amount_of_steps": 4, "integrator": "3s", "randomize_stepsize": False},
                            {"stepsize": 0.2, "online_thinning": 1, "disable_progressbar": True, "amount_of_steps": 7, "integrator": "4s", "randomize_stepsize": True}]
                c["seeds"] = [s + 29 * j for j, s in enumerate(c["seeds"])]
                c.pop("cores", None)
                dist["rwmh_first_mix"] = dist.get("rwmh_first_mix", 0) + 1
            if i == 2:
                c["im_mode"] = "in-kwargs"
                if c["kw_mode"] == "none":
                    c["kw_mode"] = "list"
            if i == 1 or (i % 9 == 5):
                # shapes that coincide: as many chains as dimensions, one shared (d, 1) starting model for all of them
                while not (c["n"] >= 2 and c["d"] == c["n"]):
                    c = gen_case(rnd)
                c["im_mode"] = "shared"
                dist["shared_model_square"] = dist.get("shared_model_square", 0) + 1
            probs = run_case(c, wd, i)
            dist["runs"] += 1
            dist["chains"] += c["n"]
            dist["hmc"] += c["kinds"].count("hmc")
            dist["rwmh"] += c["kinds"].count("rwmh")
            dist["kw_" + c["kw_mode"]] += 1
            dist["im_list"] += int(c["im_mode"] == "list")
            dist["prior_run"] += int(c["prior_run"])
            if c["n"] >= 2 and c["kw_mode"] == "list":
                seen.add(common.case_hash(c))
            seen.add(common.case_hash([c, "run"])) if c["n"] >= 2 else None
            for key, what in probs:
                violations.append(Violation(key, what, {"case": c}))
            if i < 2:
                samples.append({k: c[k] for k in ("n", "kinds", "P", "kw_mode", "im_mode", "prior_run")})
    finally:
        shutil.rmtree(wd, ignore_errors=True)
    return {
        "evaluations": dist["chains"], "distinct_nontrivial": len(seen),
        "rule": "real multiprocess runs of ParallelSampleSMP(exchange=False): 1-4 chains, HMC/RWMH mixes, per-chain / shared / no kwargs and initial models, some samplers "
                "owning a results file of an earlier run; each chain file compared bitwise with a stand-alone run of a deep copy taken before; non-trivial = >= 2 chains",
        "samples": samples, "violations": violations,
        "traces_validated_against_impl": dist["chains"],
        "coverage": {"distribution": dist},
        "trusted_base": ["fork/pickling of the multiprocess package copies the parent state faithfully; OS scheduling is whatever happens during the run (not controlled)"],
    }


def replay(doc):
    c = doc["replay"]["case"]
    wd = common.tmpdir("c20r_")
    try:
        probs = run_case(c, wd, 0)
    finally:
        shutil.rmtree(wd, ignore_errors=True)
    print(probs or "ok")
    return 1 if probs else 0
